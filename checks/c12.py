"""C12 — Gaussian-family likelihoods add exactly the specified noise (once) and integrate exactly (Engine G).

R is written out densely from the documented parameters (sigma^2 I; diag(fixed) [+ sigma^2 I]; call-time noise IN PLACE OF
the stored fixed noise; Kronecker task noise in the layout of the input distribution). Oracles: marginal.cov - dist.cov == R,
mean unchanged; expected_log_prob == E_{N(m, diag C)} log N(y | f, R); log_marginal == log N(y | m, diag(C) + R) elementwise;
forward(samples) has the documented conditional; LikelihoodList applies each member with its own arguments.
"""
import itertools
import math

import torch

import gpytorch
from gpytorch.distributions import MultitaskMultivariateNormal as MT
from gpytorch.distributions import MultivariateNormal as MVN
from gpytorch.likelihoods import (FixedNoiseGaussianLikelihood, GaussianLikelihood, LikelihoodList,
                                  MultitaskGaussianLikelihood)

from gpmc import util
from gpmc.util import Fails, F64

PROPERTY = "C12"
RULE = ("cells = likelihood {Gaussian, FixedNoise, FixedNoise+learned, Multitask rank 0..t x global/task noise switches, LikelihoodList} x "
        "event size x likelihood batch x distribution batch (all broadcastable pairs over {(),(2,),(1,),(3,2)}) x layout x call-time noise "
        "{absent, given, given with another n}; methods marginal/__call__, expected_log_prob, log_marginal, forward; distinct = distinct cell")
ASSUMPTIONS = ["R is computed from the likelihood's public parameter values (noise, second_noise, task_noises, task_noise_covar_factor)",
               "expected_log_prob reference uses the marginal variances diag(C), as the property states"]

SHAPES = [(), (2,), (1,), (3, 2)]


def cells(tier, seed):
    out = []
    for kind in ("gaussian", "fixed", "fixed_learn"):
        for n in (1, 3):
            for lb, db in itertools.product(SHAPES, SHAPES):
                try:
                    torch.broadcast_shapes(lb, db)
                except RuntimeError:
                    continue
                for call_noise in (["absent"] if kind == "gaussian" else ["absent", "given", "given_other_n"]):
                    out.append({"kind": kind, "n": n, "lb": list(lb), "db": list(db), "call_noise": call_noise})
    for t in ((2, 3) if tier == "thorough" else (2,)):
        for rank, glob, task, inter, n, db, lb in itertools.product(range(t + 1), [True, False], [True, False], [True, False],
                                                                    [1, 3] if t == 2 else [1, 2, 3, 4], [(), (2,), (3, 2)], [(), (2,)] if t == 2 else [(), (2,), (1,)]):
            if not (glob or task):
                continue
            if rank > 0 and not task:
                continue
            try:
                torch.broadcast_shapes(lb, db)
            except RuntimeError:
                continue
            c = {"kind": "multitask", "rank": rank, "glob": glob, "task": task, "inter": inter, "n": n, "db": list(db), "lb": list(lb),
                 "call_noise": "absent"}
            if t != 2:
                c["t"] = t
            out.append(c)
    for call_noise in ("absent", "given"):
        out.append({"kind": "list", "n": 3, "lb": [], "db": [], "call_noise": call_noise})
    # the Dirichlet classification likelihood is a fixed-noise Gaussian likelihood whose per-class noise comes from labels: stored (training
    # labels) or given at call time (targets=...), in both cases log(1 / alpha + 1) with alpha = alpha_epsilon (+ 1 for the label's class)
    for eps, call_noise in itertools.product([0.01, 0.1], ["absent", "given"]):
        out.append({"kind": "dirichlet", "n": 4, "lb": [], "db": [], "call_noise": call_noise, "eps": eps})
    for k in ("gaussian", "fixed", "fixed_learn", "multitask"):
        out.append({"kind": "sequence", "of": k, "n": 3, "lb": [], "db": [], "call_noise": "mixed"})
    return out


def run_cell(cell, seed):
    kind = cell["kind"]
    fails = Fails()
    feats = {k: cell.get(k) for k in ("kind", "n", "call_noise", "rank", "glob", "task", "inter")}
    feats["t"] = cell.get("t", 2)
    feats.update(lb=len(cell["lb"]), db=len(cell["db"]), bt=f"{cell['lb']}/{cell['db']}")
    g = util.gen(seed, "c12|" + util.jdump(cell))
    if kind == "multitask":
        res = run_multitask(cell, g, fails, feats)
    elif kind == "list":
        res = run_list(cell, g, fails, feats)
    elif kind == "dirichlet":
        res = run_dirichlet(cell, g, fails, feats)
    elif kind == "sequence":
        feats["of"] = cell["of"]
        res = run_sequence(cell, g, fails, feats)
    else:
        res = run_single(cell, g, fails, feats)
    for f in fails:
        f.setdefault("features", feats)
    return {"fails": fails, "sig": (res or "ok") + ":" + ",".join(sorted({f["sub"] for f in fails})), "features": feats, "ops": _OPS.pop("n", 5)}


_OPS = {}


def run_sequence(cell, g, fails, feats):
    """a likelihood keeps no state between calls: on ONE instance, after every sequence of at most three calls (method x argument variant,
    incl. call-time noise and a different number of points) each call returns what a freshly built instance returns"""
    of, n = cell["of"], cell["n"]
    mt = of == "multitask"
    t = 2
    fixed = 0.05 + util.rand(g, n)
    s2 = 0.1 + util.rand(g, 1)
    tn = 0.1 + util.rand(g, t)

    def fresh():
        torch.manual_seed(23)  # the rank-1 task-noise factor is initialised randomly by the library: owned
        if of == "gaussian":
            lik = GaussianLikelihood()
            lik.noise = s2
        elif mt:
            lik = MultitaskGaussianLikelihood(num_tasks=t, rank=1)
            lik.noise = s2
        else:
            lik = FixedNoiseGaussianLikelihood(noise=fixed.clone(), learn_additional_noise=(of == "fixed_learn"))
            if of == "fixed_learn":
                lik.second_noise = s2
        return lik

    def mk(nn, bs=()):
        if mt:
            return MT(util.randn(g, *bs, nn, t), util.spd(g, *bs, nn * t)), util.randn(g, *bs, nn, t)
        return MVN(util.randn(g, *bs, nn), util.spd(g, *bs, nn)), util.randn(g, *bs, nn)

    variants = {"n": (mk(n), {}), "n-batch": (mk(n, (2,)), {}), "n+2": (mk(n + 2), {})}
    if of.startswith("fixed"):
        variants["n+noise"] = (mk(n), {"noise": 0.05 + util.rand(g, n)})
        variants["n+2+noise"] = (mk(n + 2), {"noise": 0.05 + util.rand(g, n + 2)})
    alphabet = [(meth, v) for meth in ("marginal", "expected_log_prob", "log_marginal") for v in variants]

    def call(lik, a):
        meth, v = a
        (dist, y), kw = variants[v]
        if meth == "marginal":
            out = lik(dist, **kw)
            return torch.cat([out.mean.reshape(-1), out.covariance_matrix.reshape(-1)])
        return getattr(lik, meth)(y, dist, **kw)

    want = {}
    with torch.no_grad():
        for a in alphabet:
            try:
                want[a] = call(fresh(), a)
            except Exception:
                want[a] = None  # a call that a fresh instance refuses is judged by the other cells
        alphabet = [a for a in alphabet if want[a] is not None]
        nseq = 0
        for depth in (1, 2, 3):
            for seq in itertools.product(alphabet, repeat=depth):
                lik = fresh()
                nseq += 1
                for i, a in enumerate(seq):
                    try:
                        got = call(lik, a)
                    except Exception as e:
                        fails.add("sequence", f"{a[0]}[{a[1]}] raises after {[f'{x[0]}[{x[1]}]' for x in seq[:i]]}: {util.exc_str(e)}")
                        break
                    if tuple(got.shape) != tuple(want[a].shape) or util.maxerr(got, want[a]) > 1e-12:
                        fails.add("sequence", f"{a[0]}[{a[1]}] after the calls {[f'{x[0]}[{x[1]}]' for x in seq[:i]]} differs from a fresh instance")
                        break
                    _OPS["n"] = _OPS.get("n", 0) + 1
                if len(fails) > 5:
                    return "sequence"
    return "sequence"


def run_single(cell, g, fails, feats):
    kind, n, lb, db = cell["kind"], cell["n"], tuple(cell["lb"]), tuple(cell["db"])
    B = torch.broadcast_shapes(lb, db)
    mean = util.randn(g, *db, n)
    C = util.spd(g, *db, n)
    dist = MVN(mean, C)
    y = util.randn(g, *B, n)
    kw = {}
    if kind == "gaussian":
        lik = GaussianLikelihood(batch_shape=torch.Size(lb))
        s2 = 0.1 + util.rand(g, *lb, 1)
        lik.noise = s2
        R = torch.diag_embed(s2.expand(*lb, n)).expand(*B, n, n)
    else:
        fixed = 0.05 + util.rand(g, *lb, n)
        lik = FixedNoiseGaussianLikelihood(noise=fixed, learn_additional_noise=(kind == "fixed_learn"), batch_shape=torch.Size(lb))
        used = fixed
        if cell["call_noise"] == "given":
            used = 0.05 + util.rand(g, *B, n)
            kw["noise"] = used
        elif cell["call_noise"] == "given_other_n":
            # a distribution over a different number of points than the stored noise, with explicit call-time noise
            n2 = n + 2
            mean = util.randn(g, *db, n2)
            C = util.spd(g, *db, n2)
            dist = MVN(mean, C)
            y = util.randn(g, *B, n2)
            used = 0.05 + util.rand(g, *B, n2)
            kw["noise"] = used
            n = n2
        R = torch.diag_embed(used.expand(*B, n))
        if kind == "fixed_learn":
            s2 = 0.1 + util.rand(g, *lb, 1)
            lik.second_noise = s2
            R = R + torch.diag_embed(s2.expand(*lb, n)).expand(*B, n, n)
    Cb = C.expand(*B, n, n)
    mb = mean.expand(*B, n)
    with torch.no_grad():
        with fails.guard("marginal"):
            out = lik(dist, **kw)
            fails.check_close("marginal", out.covariance_matrix - Cb, R, 1e-10, 1e-10, "marginal.cov - dist.cov != R (noise must be added exactly once)")
            fails.check_close("marginal-mean", out.mean.expand(*B, n), mb, 0, 0)
            out2 = lik.marginal(dist, **kw)
            fails.check_close("marginal", out2.covariance_matrix - Cb, R, 1e-10, 1e-10)
        var = Cb.diagonal(dim1=-1, dim2=-2)
        r = R.diagonal(dim1=-1, dim2=-2)
        with fails.guard("expected_log_prob"):
            want = -0.5 * (((y - mb) ** 2 + var) / r + r.log() + math.log(2 * math.pi))
            fails.check_close("expected_log_prob", lik.expected_log_prob(y, dist, **kw), want, 1e-10, 1e-10)
        with fails.guard("log_marginal"):
            want = -0.5 * ((y - mb) ** 2 / (var + r) + (var + r).log() + math.log(2 * math.pi))
            fails.check_close("log_marginal", lik.log_marginal(y, dist, **kw), want, 1e-10, 1e-10)
        with fails.guard("forward"):
            fs = util.randn(g, 4, *B, n)
            cond = lik(fs, **kw)
            fails.check_close("forward", cond.mean, fs, 0, 0)
            fails.check_close("forward", cond.variance, r.expand(4, *B, n), 1e-12, 1e-12, "conditional p(y|f) variance != noise")
    return "single"


def task_noise_matrix(lik, rank, glob, task, t, lb):
    D = torch.zeros(*lb, t, t, dtype=F64)
    if task:
        if rank == 0:
            D = D + torch.diag_embed(lik.task_noises.expand(*lb, t))
        else:
            F = lik.task_noise_covar_factor
            D = D + (F @ F.mT).expand(*lb, t, t)
    if glob:
        D = D + lik.noise.reshape(*lb, 1, 1) * torch.eye(t, dtype=F64)
    return D


def run_multitask(cell, g, fails, feats):
    rank, glob, task, inter, n = cell["rank"], cell["glob"], cell["task"], cell["inter"], cell["n"]
    db, lb = tuple(cell["db"]), tuple(cell["lb"])
    t = cell.get("t", 2)
    B = torch.broadcast_shapes(lb, db)
    lik = MultitaskGaussianLikelihood(num_tasks=t, rank=rank, has_global_noise=glob, has_task_noise=task, batch_shape=torch.Size(lb))
    with torch.no_grad():
        if glob:
            lik.noise = 0.1 + util.rand(g, *lb, 1)
        if task and rank == 0:
            lik.task_noises = 0.1 + util.rand(g, *lb, t)
        if task and rank > 0:
            lik.task_noise_covar_factor.copy_(util.randn(g, *lb, t, rank))
        D = task_noise_matrix(lik, rank, glob, task, t, lb)
        mean = util.randn(g, *db, n, t)
        C = util.spd(g, *db, n * t)
        d = MT(mean, C, interleaved=inter)
        I = torch.eye(n, dtype=F64)
        Db = D.expand(*B, t, t)
        R = torch.stack([torch.kron(I, x) if inter else torch.kron(x, I) for x in Db.reshape(-1, t, t)]).reshape(*B, n * t, n * t)
        with fails.guard("marginal"):
            out = lik(d)
            fails.check_close("marginal", out.covariance_matrix - C.expand(*B, n * t, n * t), R, 1e-10, 1e-10,
                              "marginal.cov - dist.cov != Kronecker task noise in the layout of the input")
            fails.check_close("marginal-mean", out.mean.expand(*B, n, t), mean.expand(*B, n, t), 0, 0)
            if out._interleaved != inter:
                fails.add("marginal", "layout flag of the marginal differs from the input's")
        y = util.randn(g, *B, n, t)
        var = d.variance.expand(*B, n, t)
        mb = mean.expand(*B, n, t)
        pd = glob or (task and rank >= t) or (task and rank == 0)  # otherwise the documented R = F F^T is singular: no density
        with fails.guard("expected_log_prob"):
            if not pd:
                raise util.Skip()
            Dinv = torch.linalg.inv(Db)
            r = (y - mb)
            quad = (r.unsqueeze(-2) @ Dinv.unsqueeze(-3) @ r.unsqueeze(-1)).squeeze(-1).squeeze(-1)
            tr = (Dinv.diagonal(dim1=-1, dim2=-2).unsqueeze(-2) * var).sum(-1)
            want = -0.5 * (quad + tr + torch.logdet(Db).unsqueeze(-1) + t * math.log(2 * math.pi))
            got = lik.expected_log_prob(y, d)
            ok, msg = util.close(got, want, 1e-9, 1e-9)
            if not ok:
                # characterise: what the code computes if it only uses diag(R)
                dd = Db.diagonal(dim1=-1, dim2=-2).unsqueeze(-2)
                alt = (-0.5 * ((r ** 2 + var) / dd + dd.log() + math.log(2 * math.pi))).sum(-1)
                ch = "equals the ELP under diag(R) only" if util.close(got, alt, 1e-9, 1e-9)[0] else "uncharacterised"
                fails.add("expected_log_prob", f"expected_log_prob != E log N(y|f,R): err={msg}; {ch}")
        with fails.guard("log_marginal"):
            rd = Db.diagonal(dim1=-1, dim2=-2).unsqueeze(-2)
            want = (-0.5 * ((y - mb) ** 2 / (var + rd) + (var + rd).log() + math.log(2 * math.pi))).sum(-1)
            fails.check_close("log_marginal", lik.log_marginal(y, d), want, 1e-9, 1e-9)
        with fails.guard("positional-inputs"):
            # the training inputs passed positionally after the distribution (as the objectives and ExactGP do for every likelihood) are not
            # part of this likelihood's noise model: every entry point gives the same result with and without them (also for x == 0)
            if not pd:
                raise util.Skip()
            for x in (util.rand(g, n, 1), torch.zeros(n, 1, dtype=F64)):
                fails.check_close("positional-inputs", lik(d, x).covariance_matrix, lik(d).covariance_matrix, 0, 0, "lik(dist, x)")
                fails.check_close("positional-inputs", lik.expected_log_prob(y, d, x), lik.expected_log_prob(y, d), 0, 0, "expected_log_prob(y, dist, x)")
                fails.check_close("positional-inputs", lik.log_marginal(y, d, x), lik.log_marginal(y, d), 0, 0, "log_marginal(y, dist, x)")
    return "multitask"


def run_dirichlet(cell, g, fails, feats):
    from gpytorch.likelihoods import DirichletClassificationLikelihood
    n, eps, k = cell["n"], cell["eps"], 3
    feats["eps"] = eps
    train_y = torch.tensor([0, 2, 1, 2])
    test_y = torch.tensor([2, 0, 0, 1])

    def sigma2(labels):
        alpha = eps * torch.ones(k, n, dtype=F64)
        alpha[labels, torch.arange(n)] += 1.0
        return torch.log(1.0 / alpha + 1.0)     # k x n: one fixed-noise vector per class

    lik = DirichletClassificationLikelihood(train_y, alpha_epsilon=eps, learn_additional_noise=False, dtype=F64)
    d = MVN(util.randn(g, k, n), torch.stack([util.spd(g, n) for _ in range(k)]))
    with torch.no_grad():
        with fails.guard("dirichlet-noise"):
            if cell["call_noise"] == "given":
                out, want = lik(d, targets=test_y), sigma2(test_y)
            else:
                out, want = lik(d), sigma2(train_y)
            fails.check_close("dirichlet-noise", out.covariance_matrix - d.covariance_matrix, torch.diag_embed(want), 1e-12, 1e-12,
                              "added noise != diag(log(1 / alpha + 1)) with alpha = alpha_epsilon (+ 1 for the label's class)")
    return "dirichlet"


def run_list(cell, g, fails, feats):
    n = cell["n"]
    l1 = FixedNoiseGaussianLikelihood(noise=0.05 + util.rand(g, n))
    l2 = FixedNoiseGaussianLikelihood(noise=0.05 + util.rand(g, n + 1), learn_additional_noise=True)
    l3 = GaussianLikelihood()
    l3.noise = 0.37
    ll = LikelihoodList(l1, l2)
    d1, d2 = MVN(util.randn(g, n), util.spd(g, n)), MVN(util.randn(g, n + 1), util.spd(g, n + 1))
    with torch.no_grad():
        with fails.guard("likelihood-list"):
            if cell["call_noise"] == "given":
                v1, v2 = 0.05 + util.rand(g, n), 0.05 + util.rand(g, n + 1)
                outs = ll(d1, d2, noise=[v1, v2])
                wants = [l1(d1, noise=v1), l2(d2, noise=v2)]
                R = [torch.diag(v1), torch.diag(v2) + l2.second_noise * torch.eye(n + 1, dtype=F64)]
            else:
                outs = ll(d1, d2)
                wants = [l1(d1), l2(d2)]
                R = [torch.diag(l1.noise_covar.noise), torch.diag(l2.noise_covar.noise) + l2.second_noise * torch.eye(n + 1, dtype=F64)]
            for o, w, d, r in zip(outs, wants, (d1, d2), R):
                fails.check_close("likelihood-list", o.covariance_matrix, w.covariance_matrix, 0, 0, "member output != member applied alone")
                fails.check_close("likelihood-list", o.covariance_matrix - d.covariance_matrix, r, 1e-12, 1e-12, "member noise != documented R")
            ll2 = LikelihoodList(l1, l3)
            y1, y2 = util.randn(g, n), util.randn(g, n + 1)
            e = ll2.expected_log_prob((y1, d1), (y2, d2))
            fails.check_close("likelihood-list", e[0], l1.expected_log_prob(y1, d1), 0, 0)
            fails.check_close("likelihood-list", e[1], l3.expected_log_prob(y2, d2), 0, 0)
        # every entry point applies each member with its own arguments: expected_log_prob with per-member call-time noise,
        # log_marginal and marginal per member
        with torch.no_grad():
            with fails.guard("likelihood-list-noise"):
                v1, v2 = 0.05 + util.rand(g, n), 0.05 + util.rand(g, n + 1)
                e = ll.expected_log_prob((y1, d1), (y2, d2), noise=[v1, v2])
                fails.check_close("likelihood-list-noise", e[0], l1.expected_log_prob(y1, d1, noise=v1), 0, 0, "member 0, call-time noise")
                fails.check_close("likelihood-list-noise", e[1], l2.expected_log_prob(y2, d2, noise=v2), 0, 0, "member 1, call-time noise")
            with fails.guard("likelihood-list-marginal"):
                lm = ll2.log_marginal((y1, d1), (y2, d2))
                fails.check_close("likelihood-list-marginal", lm[0], l1.log_marginal(y1, d1), 0, 0, "log_marginal member 0")
                fails.check_close("likelihood-list-marginal", lm[1], l3.log_marginal(y2, d2), 0, 0, "log_marginal member 1")
                mg = ll2.marginal(d1, d2)
                fails.check_close("likelihood-list-marginal", mg[0].covariance_matrix, l1.marginal(d1).covariance_matrix, 0, 0, "marginal member 0")
                fails.check_close("likelihood-list-marginal", mg[1].covariance_matrix, l3.marginal(d2).covariance_matrix, 0, 0, "marginal member 1")
    return "list"
