"""C08 — batch mode equals independent replicas: no cross-talk between batch elements (Engine G).

cell = (module, parameter batch shape, data batch shape) over EVERY broadcastable pair of shapes of rank 0..2; for every element b of
the broadcast batch the b-th slice of the batched output must equal the output of a non-batched replica of the same class carrying
the b-th slice (by broadcasting index) of every parameter, applied to the b-th slice of the data. Parameters get distinct values per
batch element, so cross-talk cannot cancel.
"""
import itertools

import torch

import gpytorch
from gpytorch import kernels as K
from gpytorch import variational as V
from gpytorch.distributions import MultivariateNormal

from gpmc import models, util
from gpmc.util import Fails, F64

PROPERTY = "C08"
RULE = ("cells = module {every batch-capable kernel, means, Gaussian / fixed-noise likelihood marginals, exact GP posterior, exact MLL, SVGP q(f), "
        "KL, ELBO, IndependentModelList / LikelihoodList} x parameter batch shape x data batch shape over every broadcastable pair from "
        "{(),(2,),(1,),(3,),(2,3),(1,3),(2,1)}; every element of the broadcast batch compared with its replica; distinct = distinct cell")
ASSUMPTIONS = ["a replica is the same class built with batch_shape () whose parameters are the b-th slices (broadcasting index) of the batched ones",
               "kernel / mean values themselves are C05's subject; here only batched-vs-replica agreement is decided"]

SHAPES = [(), (2,), (1,), (3,), (2, 3), (1, 3), (2, 1)]
D = 2


def kernel_catalogue(bs):
    bs = torch.Size(bs)
    return {
        "rbf": lambda: K.RBFKernel(batch_shape=bs),
        "rbf_ard": lambda: K.RBFKernel(ard_num_dims=D, batch_shape=bs),
        "matern05": lambda: K.MaternKernel(nu=0.5, batch_shape=bs),
        "matern15_ard": lambda: K.MaternKernel(nu=1.5, ard_num_dims=D, batch_shape=bs),
        "matern25": lambda: K.MaternKernel(nu=2.5, batch_shape=bs),
        "rq_ard": lambda: K.RQKernel(batch_shape=bs, ard_num_dims=D),
        "periodic_ard": lambda: K.PeriodicKernel(batch_shape=bs, ard_num_dims=D),
        "cosine": lambda: K.CosineKernel(batch_shape=bs),
        "linear": lambda: K.LinearKernel(batch_shape=bs),
        "poly2": lambda: K.PolynomialKernel(power=2, batch_shape=bs),
        "pp2": lambda: K.PiecewisePolynomialKernel(q=2, batch_shape=bs),
        "constant": lambda: K.ConstantKernel(batch_shape=bs),
        "scale_rbf": lambda: K.ScaleKernel(K.RBFKernel(batch_shape=bs), batch_shape=bs),
        "sm": lambda: K.SpectralMixtureKernel(num_mixtures=2, ard_num_dims=D, batch_shape=bs),
        "arc": lambda: K.ArcKernel(K.MaternKernel(nu=2.5, batch_shape=bs), ard_num_dims=D, batch_shape=bs),
        "cyl": lambda: K.CylindricalKernel(2, K.RBFKernel(batch_shape=bs), batch_shape=bs),
        "rbfgrad": lambda: K.RBFKernelGrad(batch_shape=bs),
        "polygrad": lambda: K.PolynomialKernelGrad(power=2, batch_shape=bs),
        "sum": lambda: K.RBFKernel(batch_shape=bs) + K.LinearKernel(batch_shape=bs),
        "prod": lambda: K.RBFKernel(batch_shape=bs) * K.PeriodicKernel(batch_shape=bs),
        "multitask": lambda: K.MultitaskKernel(K.RBFKernel(batch_shape=bs), num_tasks=2, rank=1, batch_shape=bs),
        "index_prod": lambda: K.ScaleKernel(K.MaternKernel(nu=1.5, batch_shape=bs), batch_shape=bs) + K.ConstantKernel(batch_shape=bs),
        "rff": lambda: K.RFFKernel(num_samples=3, num_dims=D, batch_shape=bs),
    }


MEANS = {
    "constant": lambda bs: gpytorch.means.ConstantMean(batch_shape=torch.Size(bs)),
    "linear": lambda bs: gpytorch.means.LinearMean(D, batch_shape=torch.Size(bs)),
    "zero": lambda bs: gpytorch.means.ZeroMean(batch_shape=torch.Size(bs)),
}


def cells(tier, seed):
    out = []
    pairs = []
    for pb, xb in itertools.product(SHAPES, SHAPES):
        try:
            bb = torch.broadcast_shapes(pb, xb)
        except RuntimeError:
            continue
        if len(bb) == 0:
            continue
        pairs.append((pb, xb))
    for name in kernel_catalogue(()):
        for pb, xb in pairs:
            out.append({"what": "kernel", "name": name, "pb": list(pb), "xb": list(xb)})
    for name in ("rbf", "rbf_ard", "matern05", "matern15_ard", "matern25", "rq_ard", "scale_rbf", "pp2", "periodic_ard"):
        for pb, xb in (((), (2,)), ((2,), (2,)), ((), (2, 3))):
            out.append({"what": "kernel-far", "name": name, "pb": list(pb), "xb": list(xb)})
    for name in MEANS:
        for pb, xb in pairs:
            out.append({"what": "mean", "name": name, "pb": list(pb), "xb": list(xb)})
    for name in ("gaussian", "fixed", "fixed_learn"):
        for pb, xb in pairs:
            out.append({"what": "likelihood", "name": name, "pb": list(pb), "xb": list(xb)})
    for name in QUAD_LIKS:
        # (20 = the default number of quadrature nodes: a batch dimension of that size must not be confused with the node axis)
        for pb, xb in pairs + [((20,), ()), ((), (20,))]:
            out.append({"what": "likelihood", "name": name, "pb": list(pb), "xb": list(xb)})
    for fam in ("exact", "matern_ard", "sumprod", "linearmean", "fixednoise_learn", "exact+prior"):
        for pb, xb in pairs:
            if tier == "quick" and fam not in ("exact", "sumprod", "exact+prior") and len(pb) + len(xb) > 2:
                continue
            out.append({"what": "exactgp", "name": fam, "pb": list(pb), "xb": list(xb)})
    for strat, dist in (("vs", "chol"), ("vs", "mf"), ("uvs", "chol"), ("vs", "nat"), ("vs", "chol+prior")):
        for pb, xb in pairs:
            if len(pb) == 0:
                continue
            if tier == "quick" and (strat, dist) != ("vs", "chol") and len(pb) + len(xb) > 2:
                continue
            out.append({"what": "svgp", "name": f"{strat}-{dist}", "pb": list(pb), "xb": list(xb)})
    out.append({"what": "lists", "name": "model-list", "pb": [], "xb": []})
    return out


def distinct_params_(module, g):
    with torch.no_grad():
        for _, p in sorted(module.named_parameters()):
            p.copy_(0.4 * util.randn(g, *p.shape) if p.dim() else 0.4 * util.randn(g, 1)[0])


def slice_into(src, dst, pb, bb, b):
    """copy the b-th slice (broadcasting index) of every parameter / floating buffer of src into the non-batched dst"""
    sd_src = dict(list(src.named_parameters()) + [(k, v) for k, v in src.named_buffers() if v.dtype.is_floating_point])
    sd_dst = dict(list(dst.named_parameters()) + [(k, v) for k, v in dst.named_buffers() if v.dtype.is_floating_point])
    lead = len(bb) - len(pb)
    with torch.no_grad():
        for k, q in sd_dst.items():
            p = sd_src[k]
            if len(pb) and tuple(p.shape[: len(pb)]) == tuple(pb) and p.dim() >= len(pb) + (q.dim()):
                idx = tuple(0 if pb[i] == 1 else b[lead + i] for i in range(len(pb)))
                q.data = p.detach()[idx].reshape(q.shape).clone()
            elif len(pb) and tuple(p.shape[: len(pb)]) == tuple(pb):
                idx = tuple(0 if pb[i] == 1 else b[lead + i] for i in range(len(pb)))
                q.data = p.detach()[idx].reshape(q.shape).clone()
            else:
                q.data = p.detach().reshape(q.shape).clone()


def elements(bb):
    return list(itertools.product(*[range(s) for s in bb]))


def run_cell(cell, seed):
    fails = Fails()
    pb, xb = tuple(cell["pb"]), tuple(cell["xb"])
    feats = {"what": cell["what"], "name": cell["name"], "pb": str(list(pb)), "xb": str(list(xb)), "prank": len(pb), "xrank": len(xb),
             "x_more_dims": len(xb) > len(pb), "p_more_dims": len(pb) > len(xb)}
    g = util.gen(seed, "c08|" + util.jdump(cell))
    torch.manual_seed(util.seed_for(seed, "c08init|" + cell["name"]))
    fn = {"kernel": run_kernel, "kernel-far": run_kernel_far, "mean": run_mean, "likelihood": run_likelihood, "exactgp": run_exact, "svgp": run_svgp, "lists": run_lists}[cell["what"]]
    ops = fn(cell, pb, xb, g, fails, seed) or 0
    for f in fails:
        f.setdefault("features", feats)
    # one representative per sub-check
    seen, kept = set(), []
    for f in fails:
        key = (f["sub"], f["symptom"][:50])
        if key not in seen:
            seen.add(key)
            kept.append(f)
    return {"fails": kept, "sig": cell["what"] + ":" + ",".join(sorted({f["sub"] for f in kept})), "features": feats, "ops": ops}


def run_kernel(cell, pb, xb, g, fails, seed):
    bb = torch.broadcast_shapes(pb, xb)
    with fails.guard("kernel"):
        torch.manual_seed(util.seed_for(seed, "c08k"))
        k = kernel_catalogue(pb)[cell["name"]]()
        distinct_params_(k, g)
        x1 = 0.5 * torch.tanh(util.randn(g, *xb, 4, D))  # inside the unit ball (documented domain of CylindricalKernel)
        x2 = 0.5 * torch.tanh(util.randn(g, *xb, 2, D))
        with torch.no_grad():
            full = k(x1, x2).to_dense()
            dg = k(x1, x1, diag=True)
        if tuple(full.shape[:-2]) != tuple(bb):
            fails.add("kernel", f"batch shape of the kernel matrix {tuple(full.shape[:-2])} != broadcast batch {tuple(bb)}")
            return 1
        for b in elements(bb):
            torch.manual_seed(util.seed_for(seed, "c08k"))
            kb = kernel_catalogue(())[cell["name"]]()
            slice_into(k, kb, pb, bb, b)
            xe1 = x1.expand(*bb, 4, D)[b]
            xe2 = x2.expand(*bb, 2, D)[b]
            with torch.no_grad():
                fails.check_close("kernel", full[b], kb(xe1, xe2).to_dense(), 1e-10, 1e-10, f"element {b}")
                fails.check_close("kernel-diag", dg[b], kb(xe1, xe1, diag=True), 1e-10, 1e-10, f"element {b}")
    return len(elements(bb)) * 2


def run_kernel_far(cell, pb, xb, g, fails, seed):
    """stationary kernels on batch elements located at very different origins, > 25 rows (torch.cdist's matmul path): element b must
    not depend on where the other elements sit (e.g. through a numerical-stability centring shared across the batch)"""
    bb = torch.broadcast_shapes(pb, xb)
    n1, n2 = 30, 28
    with fails.guard("kernel-far"):
        torch.manual_seed(util.seed_for(seed, "c08k"))
        k = kernel_catalogue(pb)[cell["name"]]()
        distinct_params_(k, g)
        off = torch.arange(torch.Size(xb).numel(), dtype=F64).reshape(*xb, 1, 1) * 2.0e6
        x1 = util.randn(g, *xb, n1, D) + off
        x2 = util.randn(g, *xb, n2, D) + off
        with torch.no_grad():
            full = k(x1, x2).to_dense()
        for b in elements(bb):
            torch.manual_seed(util.seed_for(seed, "c08k"))
            kb = kernel_catalogue(())[cell["name"]]()
            slice_into(k, kb, pb, bb, b)
            xe1 = x1.expand(*bb, n1, D)[b]
            xe2 = x2.expand(*bb, n2, D)[b]
            with torch.no_grad():
                # reference: the non-batched replica on the same slice (whatever accuracy the kernel has far from the origin, the
                # batched evaluation must have it too: nothing about element b may depend on where the other elements sit)
                want = kb(xe1, xe2).to_dense()
                fails.check_close("kernel-far", full[b], want, 1e-7, 1e-7, f"element {b} (batch elements 2e6 apart)")
    return len(elements(bb))


def run_mean(cell, pb, xb, g, fails, seed):
    bb = torch.broadcast_shapes(pb, xb)
    with fails.guard("mean"):
        m = MEANS[cell["name"]](pb)
        distinct_params_(m, g)
        x = util.randn(g, *xb, 3, D)
        with torch.no_grad():
            full = m(x)
        full = full.expand(*bb, 3) if full.dim() <= len(bb) + 1 else full
        for b in elements(bb):
            mb = MEANS[cell["name"]](())
            slice_into(m, mb, pb, bb, b)
            with torch.no_grad():
                fails.check_close("mean", full[b], mb(x.expand(*bb, 3, D)[b]), 1e-12, 1e-12, f"element {b}")
    return len(elements(bb))


QUAD_LIKS = ("laplace", "studentt", "beta")   # one-dimensional likelihoods integrated by Gauss-Hermite quadrature


def make_lik(name, bs, noise):
    L = gpytorch.likelihoods
    if name == "gaussian":
        return L.GaussianLikelihood(batch_shape=torch.Size(bs))
    if name in QUAD_LIKS:
        return {"laplace": L.LaplaceLikelihood, "studentt": L.StudentTLikelihood, "beta": L.BetaLikelihood}[name](batch_shape=torch.Size(bs))
    return L.FixedNoiseGaussianLikelihood(noise=noise, learn_additional_noise=(name == "fixed_learn"), batch_shape=torch.Size(bs))


def run_likelihood(cell, pb, xb, g, fails, seed):
    bb = torch.broadcast_shapes(pb, xb)
    n = 3
    with fails.guard("likelihood"):
        noise = 0.05 + util.rand(g, *pb, n)
        lik = make_lik(cell["name"], pb, noise)
        distinct_params_(lik, g)
        mean, C = util.randn(g, *xb, n), util.spd(g, *xb, n)
        y = util.randn(g, *bb, n)
        quad = cell["name"] in QUAD_LIKS
        if cell["name"] == "beta":
            y = 0.1 + 0.8 * util.rand(g, *bb, n)
        with torch.no_grad():
            d = MultivariateNormal(mean, C)
            if not quad:
                out = lik(d)
                cov = out.covariance_matrix.expand(*bb, n, n)
            got = lik.expected_log_prob(y, d)
            elp = got.expand(*bb, n)
            lm = lik.log_marginal(y, d).expand(*bb, n)
        lead = len(bb) - len(pb)
        for b in elements(bb):
            idx = tuple(0 if pb[i] == 1 else b[lead + i] for i in range(len(pb)))
            lb = make_lik(cell["name"], (), noise[idx] if len(pb) else noise)
            slice_into(lik, lb, pb, bb, b)
            db = MultivariateNormal(mean.expand(*bb, n)[b], C.expand(*bb, n, n)[b])
            with torch.no_grad():
                if not quad:
                    fails.check_close("likelihood-marginal", cov[b], lb(db).covariance_matrix, 1e-12, 1e-12, f"element {b}")
                fails.check_close("likelihood-elp", elp[b], lb.expected_log_prob(y[b], db), 1e-10, 1e-10, f"element {b}")
                fails.check_close("likelihood-log_marginal", lm[b], lb.log_marginal(y[b], db), 1e-10, 1e-10, f"element {b}")
    return len(elements(bb)) * 3


def run_exact(cell, pb, xb, g, fails, seed):
    bb = torch.broadcast_shapes(pb, xb)
    fam = cell["name"]
    pri = ()
    if fam.endswith("+prior"):   # hyper-priors on lengthscale and noise: each batch element carries ITS OWN prior terms
        fam, pri = fam.replace("+prior", ""), ("ls", "noise")
    n, m = 4, 3
    with fails.guard("exactgp"):
        X = util.rand(g, *xb, n, D)
        y = util.randn(g, *bb, n)
        Xs = util.rand(g, *xb, m, D)
        noise = (0.05 + 0.2 * util.rand(g, *bb, n)) if fam.startswith("fixednoise") else None
        model = models.ExactModel(X, y, fam, seed, batch_shape=pb, noise=noise, priors=pri)
        distinct_params_(model, g)
        with torch.no_grad():
            for name, p in model.named_parameters():
                if "raw_noise" in name:
                    p.clamp_(min=-2.0)
        model.train()
        mll = gpytorch.mlls.ExactMarginalLogLikelihood(model.likelihood, model)
        args = (X,) if noise is not None else ()
        val = mll(model(X), y, *args).detach().expand(*bb)
        model.eval()
        with torch.no_grad():
            out = model(Xs)
            mean = out.mean.expand(*bb, m)
            cov = out.covariance_matrix.expand(*bb, m, m)
        for b in elements(bb):
            Xb, yb, Xsb = X.expand(*bb, n, D)[b], y[b], Xs.expand(*bb, m, D)[b]
            rep = models.ExactModel(Xb, yb, fam, seed, noise=noise[b] if noise is not None else None, priors=pri)
            slice_into(model, rep, pb, bb, b)
            rep.train()
            rm = gpytorch.mlls.ExactMarginalLogLikelihood(rep.likelihood, rep)
            rv = rm(rep(Xb), yb, *((Xb,) if noise is not None else ())).detach()
            fails.check_close("exactgp-mll", val[b], rv, 1e-9, 1e-9, f"element {b}")
            rep.eval()
            with torch.no_grad():
                ro = rep(Xsb)
            fails.check_close("exactgp-mean", mean[b], ro.mean, 1e-9, 1e-9, f"element {b}")
            fails.check_close("exactgp-cov", cov[b], ro.covariance_matrix, 1e-9, 1e-9, f"element {b}")
    return len(elements(bb)) * 3


class BSVGP(gpytorch.models.ApproximateGP):
    def __init__(self, strat, dist, bs, Z):
        bs = torch.Size(bs)
        M = Z.shape[-2]
        with_prior = dist.endswith("+prior")
        dist = dist.replace("+prior", "")
        vd = {"chol": V.CholeskyVariationalDistribution, "mf": V.MeanFieldVariationalDistribution, "nat": V.NaturalVariationalDistribution}[dist](M, batch_shape=bs)
        cls = V.UnwhitenedVariationalStrategy if strat == "uvs" else V.VariationalStrategy
        super().__init__(cls(self, Z, vd, learn_inducing_locations=True))
        self.mean_module = gpytorch.means.ConstantMean(batch_shape=bs)
        lp = gpytorch.priors.GammaPrior(2.0, 3.0) if with_prior else None   # a hyper-prior: each batch element carries ITS OWN prior term
        self.covar_module = K.ScaleKernel(K.RBFKernel(batch_shape=bs, lengthscale_prior=lp), batch_shape=bs)
        self.likelihood = gpytorch.likelihoods.GaussianLikelihood(batch_shape=bs)

    def forward(self, x):
        return MultivariateNormal(self.mean_module(x), self.covar_module(x))


def run_svgp(cell, pb, xb, g, fails, seed):
    bb = torch.broadcast_shapes(pb, xb)
    strat, dist = cell["name"].split("-")
    n, M = 4, 3
    with fails.guard("svgp"):
        Z = util.rand(g, *pb, M, D)
        X = util.rand(g, *xb, n, D)
        y = util.randn(g, *bb, n)
        model = BSVGP(strat, dist, pb, Z)
        model.eval()
        with torch.no_grad():
            model(X)  # initialise variational parameters
        with torch.no_grad():
            for k_, p in sorted(model.named_parameters()):
                if "natural_mat" in k_:
                    A = 0.3 * util.randn(g, *p.shape)
                    p.copy_(-0.5 * torch.eye(M, dtype=F64) - 0.1 * (A @ A.mT))
                elif "chol_variational_covar" in k_:
                    p.copy_(torch.tril(0.3 * util.randn(g, *p.shape)) + 0.7 * torch.eye(M, dtype=F64))
                elif "_variational_stddev" in k_:
                    p.copy_(0.3 + util.rand(g, *p.shape))
                elif "inducing_points" in k_:
                    pass
                else:
                    p.copy_(0.4 * util.randn(g, *p.shape) if p.dim() else 0.4 * util.randn(g, 1)[0])
        for mod in model.modules():
            if hasattr(mod, "_clear_cache"):
                mod._clear_cache()
        model.eval()
        with torch.no_grad():
            out = model(X)
            mean, cov = out.mean.expand(*bb, n), out.covariance_matrix.expand(*bb, n, n)
            kl = model.variational_strategy.kl_divergence()
        model.train()
        elbo = gpytorch.mlls.VariationalELBO(model.likelihood, model, num_data=2 * n)(model(X), y).detach().expand(*bb)
        kl = kl.expand(*pb)
        lead = len(bb) - len(pb)
        for b in elements(bb):
            idx = tuple(0 if pb[i] == 1 else b[lead + i] for i in range(len(pb)))
            rep = BSVGP(strat, dist, (), Z[idx])
            rep.eval()
            with torch.no_grad():
                rep(X.expand(*bb, n, D)[b])
            slice_into(model, rep, pb, bb, b)
            for mod in rep.modules():
                if hasattr(mod, "_clear_cache"):
                    mod._clear_cache()
            rep.eval()
            Xb = X.expand(*bb, n, D)[b]
            with torch.no_grad():
                ro = rep(Xb)
                rkl = rep.variational_strategy.kl_divergence()
            fails.check_close("svgp-mean", mean[b], ro.mean, 1e-9, 1e-9, f"element {b}")
            fails.check_close("svgp-cov", cov[b], ro.covariance_matrix, 1e-9, 1e-9, f"element {b}")
            fails.check_close("svgp-kl", kl[idx], rkl, 1e-9, 1e-9, f"element {b}")
            rep.train()
            re = gpytorch.mlls.VariationalELBO(rep.likelihood, rep, num_data=2 * n)(rep(Xb), y[b]).detach()
            fails.check_close("svgp-elbo", elbo[b], re, 1e-9, 1e-9, f"element {b}")
    return len(elements(bb)) * 4


def run_lists(cell, pb, xb, g, fails, seed):
    with fails.guard("lists"):
        ms = []
        for i in range(3):
            X, y = util.rand(g, 4 + i, D), util.randn(g, 4 + i)
            m = models.ExactModel(X, y, ["exact", "matern_ard", "sumprod"][i], seed)
            distinct_params_(m, g)
            ms.append(m)
        ml = gpytorch.models.IndependentModelList(*ms)
        ll = gpytorch.likelihoods.LikelihoodList(*[m.likelihood for m in ms])
        ml.eval()
        Xs = [util.rand(g, 3, D) for _ in ms]
        with torch.no_grad():
            outs = ml(*Xs)
            marg = ll(*outs)
            for m, o, mo, x in zip(ms, outs, marg, Xs):
                r = m(x)
                fails.check_close("model-list", o.mean, r.mean, 0, 0)
                fails.check_close("model-list", o.covariance_matrix, r.covariance_matrix, 0, 0)
                fails.check_close("likelihood-list", mo.covariance_matrix, m.likelihood(r).covariance_matrix, 0, 0)
        ml.train()
        mll = gpytorch.mlls.SumMarginalLogLikelihood(ll, ml)
        val = mll(ml(*ml.train_inputs), ml.train_targets)
        parts = [gpytorch.mlls.ExactMarginalLogLikelihood(m.likelihood, m)(m(*m.train_inputs), m.train_targets) for m in ms]
        fails.check_close("sum-mll", val, sum(parts) / len(parts), 1e-12, 1e-12, "SumMarginalLogLikelihood != mean of the members' MLLs")
    # pass-through arguments: every member must receive ITS OWN entry (fixed-noise members of different sizes make the routing visible)
    with fails.guard("sum-mll-params"):
        fs = []
        for i in range(3):
            X, y = util.rand(g, 3 + 2 * i, D), util.randn(g, 3 + 2 * i)
            m = models.ExactModel(X, y, "fixednoise_learn" if i else "fixednoise", seed, noise=0.05 + util.rand(g, 3 + 2 * i))
            distinct_params_(m, g)
            fs.append(m)
        fl = gpytorch.models.IndependentModelList(*fs)
        fll = gpytorch.likelihoods.LikelihoodList(*[m.likelihood for m in fs])
        fl.train()
        smll = gpytorch.mlls.SumMarginalLogLikelihood(fll, fl)
        val = smll(fl(*fl.train_inputs), fl.train_targets, *fl.train_inputs)
        parts = [gpytorch.mlls.ExactMarginalLogLikelihood(m.likelihood, m)(m(*m.train_inputs), m.train_targets, *m.train_inputs) for m in fs]
        fails.check_close("sum-mll-params", val, sum(parts) / len(parts), 1e-12, 1e-12,
                          "SumMarginalLogLikelihood(outputs, targets, *train_inputs) != mean of the members' MLLs called with their own inputs")
    # members that are themselves batched: the list objective stays one value per batch element (the members' per-element MLLs averaged)
    with fails.guard("sum-mll-batched-members"):
        bm = []
        for i in range(2):
            X, y = util.rand(g, 2, 4 + i, D), util.randn(g, 2, 4 + i)
            m = models.ExactModel(X, y, "exact", seed, batch_shape=(2,))
            distinct_params_(m, g)
            bm.append(m)
        bl = gpytorch.models.IndependentModelList(*bm)
        bll = gpytorch.likelihoods.LikelihoodList(*[m.likelihood for m in bm])
        bl.train()
        val = gpytorch.mlls.SumMarginalLogLikelihood(bll, bl)(bl(*bl.train_inputs), bl.train_targets)
        parts = [gpytorch.mlls.ExactMarginalLogLikelihood(m.likelihood, m)(m(*m.train_inputs), m.train_targets) for m in bm]
        want = sum(parts) / len(parts)
        if tuple(val.shape) != tuple(want.shape):
            fails.add("sum-mll-batched-members", f"shape {tuple(val.shape)} != {tuple(want.shape)} (one value per batch element)")
        else:
            fails.check_close("sum-mll-batched-members", val, want, 1e-12, 1e-12)
    return 10
