"""C19 — hand-written derivatives are the true derivatives (Engine G, full Jacobians).

Every torch.autograd.Function with a hand-written backward is driven with EVERY basis upstream gradient e_ij (backward is linear in
grad_output, so the basis pins the whole vector-Jacobian map) on a value lattice that visits both sides of every piecewise definition.
Oracles: (a) torch.autograd of an independent plain-torch float64 re-implementation of the forward formula (1e-9); (b) central finite
differences of the library's own forward (step 1e-6, 1e-5 relative). Natural parameterisations: the reference is the gradient of the
composed function with respect to the expectation parameters (eta1 = mu, eta2 = mu mu^T + Sigma) by autograd through the explicit map
eta -> (mu, chol Sigma); tril-natural: that gradient pushed forward through theta_mat -> tril factor (documented in the code);
CIQ NGD terms: the documented gradients (interp_term: ordinary; natural params: w.r.t. expectation params; KL term: of the KL formula
in the comments although forward returns 0). Kernel level: fast path vs generic paths (requires_grad inputs, trace_mode, diag=True)
vs reference, values and raw_lengthscale gradients. Predictions: autograd d mean/dx*, d var/dx* vs finite differences.
"""
import contextlib
import itertools
import math

import numpy as np
import torch

import gpytorch
from gpytorch.functions import MaternCovariance, RBFCovariance, log_normal_cdf
from gpytorch.kernels import MaternKernel, RBFKernel
from gpytorch.variational.ciq_variational_strategy import _NgdInterpTerms
from gpytorch.variational.natural_variational_distribution import NaturalVariationalDistribution, _NaturalToMuVarSqrt
from gpytorch.variational.tril_natural_variational_distribution import (TrilNaturalVariationalDistribution,
                                                                         _TrilNaturalToMuVarSqrt)

from gpmc import models, util
from gpmc.util import Fails, F64

PROPERTY = "C19"
RULE = ("cells = function {RBFCovariance, MaternCovariance nu .5/1.5/2.5} x geometry {generic, coincident rows, x2 is x1, x2 is x1 with a "
        "duplicated row, 1e-9 apart, far} x lengthscale {0.1,1,10} x lengthscale batch x input batch x d, every basis upstream gradient; "
        "LogNormalCDF: z groups on each side of z^2 = 0.04 and z = -1, interior, tails to -40 / +10, as 0-dim, vector, matrix and mixed tensors, "
        "every basis upstream gradient (+ strided / exhaustive float32 sweep); _NaturalToMuVarSqrt / _TrilNaturalToMuVarSqrt: M x batch x "
        "conditioning, every basis upstream gradient of mu and L + random linear-quadratic losses + module-level loss; _NgdInterpTerms: M x N x "
        "(interp batch, natural batch) x conditioning, every basis upstream gradient of mean / var / kl; kernel paths: kernel x ARD x batch x "
        "geometry x lengthscale x size (basis upstream for n<=3, generic upstream for larger); prediction gradients: family x settings x batch "
        "x test geometry x d. distinct = distinct cell; non-trivial = cell in which at least one gradient was compared")
ASSUMPTIONS = ["real-valued inputs: finite value lattice per cell (generic members perturbed by VERIF_SEED), not all reals",
               "only first derivatives (the statement says gradient); double backward through the hand-written functions is not decided",
               "raw_lengthscale -> lengthscale is softplus (Positive constraint, C17's subject); asserted against kernel.lengthscale",
               "_NgdInterpTerms.forward returns kl = 0 by documented design; its kl gradient is compared with the gradient of the KL formula in the code comments",
               "tril-natural: lower-triangular parameter with positive diagonal (the domain in which theta_mat -> tril factor is a function)",
               "reference phi/Phi from scipy.special.log_ndtr",
               "_NgdInterpTerms finite-difference cross-check only with CG tolerance 1e-14 and a generic precision (an early-stopped / eps-safeguarded CG solve is not smooth at the FD scale); the autograd oracle runs in every cell"]

H = 1e-6
FD_ATOL, FD_RTOL = 1e-7, 1e-5
KERNS = ["rbf", 0.5, 1.5, 2.5]
GEOMS = ["generic", "coincident", "same", "samedup", "near", "far"]
LSS = [1.0, 0.1, 10.0]
BATCHES = [(), (2,)]


# ------------------------------------------------------------------------------------------------ cells
def cells(tier, seed):
    out = []
    # A. covariance functions
    for kern, geom, ls, lb, xb, d in itertools.product(KERNS, GEOMS, LSS, BATCHES, BATCHES, [1, 2]):
        out.append({"what": "rbf-cov" if kern == "rbf" else "matern-cov", "kern": kern, "geometry": geom, "ls": ls, "lb": list(lb),
                    "xb": list(xb), "d": d, "form": "scalar"})
    for kern, lb in itertools.product(KERNS, BATCHES):  # documented refusals: ARD lengthscale, inputs requiring grad
        for form in ("ard", "xgrad"):
            out.append({"what": "rbf-cov" if kern == "rbf" else "matern-cov", "kern": kern, "geometry": "generic", "ls": 1.0, "lb": list(lb),
                        "xb": [], "d": 2, "form": form})
    # B. log normal cdf
    for grp in LN_GROUPS:
        for form in ("scalar", "vector", "matrix"):
            out.append({"what": "lncdf", "group": grp, "form": form})
    out.append({"what": "lncdf", "group": "mixed", "form": "vector"})
    out.append({"what": "lncdf", "group": "mixed", "form": "matrix"})
    if tier == "quick":
        out.append({"what": "lncdf-f32", "lo": 0, "hi": F32_TOTAL, "stride": 1021})
    else:
        step = 1 << 24
        for lo in range(0, F32_TOTAL, step):
            out.append({"what": "lncdf-f32", "lo": lo, "hi": min(lo + step, F32_TOTAL), "stride": 1})
    # C. natural parameterisations
    for what, M, b, cond in itertools.product(["natural", "tril-natural"], [1, 2, 3] if tier == "quick" else [1, 2, 3, 4], BATCHES + [(2, 2)],
                                              ["init", "generic", "illcond"]):
        out.append({"what": what, "M": M, "b": list(b), "cond": cond})
    # D. CIQ NGD terms
    for M, N, ib, nb, cond, cg in itertools.product([1, 2, 3], [1, 3], BATCHES, BATCHES, ["init", "generic"], ["default", "tight"]):
        out.append({"what": "ngd-interp", "M": M, "N": N, "ib": list(ib), "nb": list(nb), "cond": cond, "cg": cg})
    # E. kernel paths
    for kern, ard, kb, geom, ls, size in itertools.product(KERNS, ["off", "ard1", "ard2", "ard3"], BATCHES, GEOMS, LSS, ["small", "large"]):
        xbs = BATCHES if tier == "thorough" else [kb]
        for xb in xbs:
            out.append({"what": "kernel-paths", "kern": kern, "ard": ard, "kb": list(kb), "xb": list(xb), "geometry": geom, "ls": ls,
                        "size": size})
    # F. prediction gradients
    for fam, setting, mb, geom, d in itertools.product(["exact", "matern_ard", "sumprod"], ["default", "fast_pred_var"], BATCHES,
                                                       ["generic", "attrain", "near"], [1, 2]):
        out.append({"what": "pred-grad", "fam": fam, "setting": setting, "mb": list(mb), "geometry": geom, "d": d})
    return out


# ------------------------------------------------------------------------------------------------ helpers
def onehots(shape):
    n = int(math.prod(shape))
    for i in range(n):
        e = torch.zeros(n, dtype=F64)
        e[i] = 1.0
        yield i, e.reshape(shape)


def jac(outs, inps, only=None):
    """full vector-Jacobian map by basis upstream gradients: list (one per input) of tensors (numel(outs), *inp.shape)"""
    outs = list(outs)
    rows = [[] for _ in inps]
    for k, o in enumerate(outs):
        for _, e in onehots(o.shape):
            gs = torch.autograd.grad([o], inps, [e], retain_graph=True, allow_unused=True)
            for r, gi, inp in zip(rows, gs, inps):
                r.append(torch.zeros_like(inp) if gi is None else gi.detach())
    return [torch.stack(r) for r in rows]


def fd_jac(fn, inp, dirs=None):
    """central differences of fn (returns a list of tensors) along every entry (or given directions) of inp: (numel(outs), ndirs)"""
    cols = []
    if dirs is None:
        dirs = [e for _, e in onehots(inp.shape)]
    with torch.no_grad():
        for e in dirs:
            p = torch.cat([o.reshape(-1) for o in fn(inp + H * e)])
            m = torch.cat([o.reshape(-1) for o in fn(inp - H * e)])
            cols.append((p - m) / (2 * H))
    return torch.stack(cols, -1)


def worst(a, b):
    d = (a - b).abs()
    d = torch.where(torch.isnan(d), torch.full_like(d, float("inf")), d)
    i = int(d.reshape(-1).argmax())
    return f"worst at flat index {i}: got {a.reshape(-1)[i].item():.6e} want {b.reshape(-1)[i].item():.6e}"


def cmp(fails, sub, got, want, atol=1e-9, rtol=1e-9, detail="", feats=None):
    ok, msg = util.close(got, want, atol, rtol)
    if not ok:
        extra = worst(got, want) if tuple(got.shape) == tuple(want.shape) and got.numel() else ""
        fails.add(sub, f"mismatch err={msg}", (detail + " | " + extra)[:600])
        if feats is not None:
            fails[-1]["features"] = feats
    return ok


def dedupe(fails, per=2):
    seen, out = {}, Fails()
    for f in fails:
        k = (f["sub"], f["symptom"][:24])
        seen[k] = seen.get(k, 0) + 1
        if seen[k] <= per:
            out.append(f)
    return out


def geometry(g, geom, xb, n1, n2, d):
    """x1 (.., n1, d), x2 (.., n2, d); returns (x1, x2, same_object)"""
    x1 = util.randn(g, *xb, n1, d)
    if geom == "generic":
        return x1, util.randn(g, *xb, n2, d), False
    if geom == "coincident":  # rows of x2 equal rows of x1 (r = 0 exactly), one generic row if room
        x2 = torch.cat([x1[..., : n2 - 1, :].clone(), util.randn(g, *xb, 1, d)], -2) if n2 > 1 else x1[..., :1, :].clone()
        return x1, x2, False
    if geom == "same":
        return x1, x1, True
    if geom == "samedup":  # x2 is x1 and x1 has a duplicated row: r = 0 off the diagonal too
        x1 = x1.clone()
        x1[..., -1, :] = x1[..., 0, :]
        return x1, x1, True
    if geom == "near":  # 1e-9 apart
        k = min(n1, n2)
        x2 = util.randn(g, *xb, n2, d)
        x2[..., :k, :] = x1[..., :k, :] + 1e-9 * torch.sign(util.randn(g, *xb, k, d))
        return x1, x2, False
    if geom == "far":
        return x1, util.randn(g, *xb, n2, d) + 50.0, False
    raise AssertionError(geom)


def ref_cov(kern, x1, x2, ls):
    """plain torch: ls of shape (*lb, 1, 1|d). Differences first, then scaling (no cancellation)."""
    diff = x1.unsqueeze(-2) - x2.unsqueeze(-3)
    q = (diff / ls.unsqueeze(-2)).pow(2).sum(-1)
    if kern == "rbf":
        return torch.exp(-0.5 * q)
    # sqrt at exactly coincident points: the function of the lengthscale is identically k(0) there -> zero derivative
    r = q.clamp_min(1e-300).sqrt()
    s = math.sqrt(2 * kern) * r
    if kern == 0.5:
        c = 1.0
    elif kern == 1.5:
        c = 1.0 + s
    else:
        c = 1.0 + s + s * s / 3.0
    return c * torch.exp(-s)


# ------------------------------------------------------------------------------------------------ A. covariance functions
def run_cov(cell, g, fails, feats):
    kern, d, lb, xb = cell["kern"], cell["d"], tuple(cell["lb"]), tuple(cell["xb"])
    same_n = cell["geometry"] in ("same", "samedup")
    n1, n2 = (3, 3) if same_n else (3, 2)
    x1, x2, same = geometry(g, cell["geometry"], xb, n1, n2, d)
    helper = RBFKernel()  # only its covar_dist, exactly as RBFKernel / MaternKernel pass it
    scale = torch.tensor([1.0, 1.7], dtype=F64)[: (lb[0] if lb else 1)].reshape(*lb, 1, 1)
    ls0 = cell["ls"] * scale * (1.0 + 0.1 * util.rand(g, 1))
    if cell["form"] == "ard":
        ls0 = ls0 * torch.tensor([1.0, 2.5], dtype=F64)

    def call(l, a=x1, b=None):
        b = (a if same else x2) if b is None else b
        if kern == "rbf":
            return RBFCovariance.apply(a, b, l, lambda u, v: helper.covar_dist(u, v, square_dist=True, diag=False))
        return MaternCovariance.apply(a, b, l, kern, lambda u, v: helper.covar_dist(u, v))

    ncmp = 0
    l = ls0.clone().requires_grad_(True)
    if cell["form"] in ("ard", "xgrad"):
        # documented refusals; if the function does answer, the answer has to be right
        try:
            if cell["form"] == "xgrad":
                xa = x1.clone().requires_grad_(True)
                out = call(l, xa, x2)
            else:
                out = call(l)
        except (RuntimeError, ValueError):
            return "refused", 0
        with fails.guard("cov-jacobian"):
            lr = ls0.clone().requires_grad_(True)
            ref = ref_cov(kern, x1, x2, lr)
            cmp(fails, "cov-value", out, ref, 1e-9, 1e-9, "function answered instead of refusing; value")
            cmp(fails, "cov-jacobian", jac([out], [l])[0], jac([ref], [lr])[0], 1e-9, 1e-9, "function answered instead of refusing")
        return "answered", 1
    with fails.guard("cov-jacobian"):
        out = call(l)
        lr = ls0.clone().requires_grad_(True)
        ref = ref_cov(kern, x1, x2, lr)
        cmp(fails, "cov-value", out, ref, 1e-9, 1e-9, "forward value (lengthscale requires grad) vs closed form")
        with torch.no_grad():
            out_ng = call(ls0.clone())
        cmp(fails, "cov-value-nograd", out_ng, ref, 1e-9, 1e-9, "forward value (no grad needed branch) vs closed form")
        J = jac([out], [l])[0]
        Jr = jac([ref], [lr])[0]
        cmp(fails, "cov-jacobian", J, Jr, 1e-9, 1e-9, "d K_ij / d lengthscale for every basis upstream gradient vs autograd of the closed form")
        ncmp += J.shape[0]
    with fails.guard("cov-fd"):
        Jfd = fd_jac(lambda t: [call(t)], ls0)
        cmp(fails, "cov-fd", J.reshape(J.shape[0], -1), Jfd, FD_ATOL, FD_RTOL, "vs central differences of the library's own forward")
    with fails.guard("cov-upstream"):
        # realistic upstream gradients: expanded ones (sum), generic, non-contiguous
        G = util.randn(g, *out.shape)
        for name, up in (("ones", torch.ones((), dtype=F64).expand(out.shape)), ("generic", G), ("noncontig", G.mT.contiguous().mT)):
            got, = torch.autograd.grad([out], [l], [up], retain_graph=True)
            want = (J * up.reshape(-1, *[1] * l.dim())).sum(0)
            cmp(fails, "cov-upstream", got, want, 1e-12, 1e-12, f"upstream {name}: backward is not the linear map pinned by the basis")
    return "ok", ncmp


# ------------------------------------------------------------------------------------------------ B. log normal cdf
def _nx(v, to):
    return float(np.nextafter(v, to))


LN_GROUPS = {
    "near0-in": [0.0, -0.0, 1e-300, -1e-300, 1e-12, -1e-12, 0.05, -0.05, 0.1, -0.1, 0.19, -0.19, 0.199, -0.199],
    "near0-edge": [s * v for s in (1, -1) for v in (0.2, _nx(0.2, 0), _nx(0.2, 1), 0.2 - 1e-9, 0.2 + 1e-9, 0.2 - 1e-3, 0.2 + 1e-3)],
    "minus1-edge": [-1.0, _nx(-1.0, 0), _nx(-1.0, -2), -1 + 1e-9, -1 - 1e-9, -1 + 1e-3, -1 - 1e-3],
    "ordinary-neg": [-0.999, -0.9, -0.7, -0.5, -0.3, -0.21],
    "ordinary-pos": [0.21, 0.5, 1.0, 2.0, 3.0, 5.0, 6.0, 8.0, 10.0],
    "tail": [-1.001, -1.5, -2.0, -3.0, -5.0, -8.0, -10.0, -20.0, -30.0, -38.0, -40.0],
    "far-tail": [-1e2, -1e3, -1e4, -1e5, -1e6, -1e8, -1e12],  # phi/Phi ~ |z|: a backward that forms exp(-z^2/2 - log Phi) cancels here
}
LN_EDGES = (-1.0, -0.2, 0.2)
F32_POS = 0x41200000 + 1  # bit patterns of +0.0 .. +10.0
F32_NEG = 0xC2200000 - 0x80000000 + 1  # bit patterns of -0.0 .. -40.0
F32_TOTAL = F32_POS + F32_NEG


def ln_branch(z):
    return "near0" if z * z < 0.04 else ("small" if z < -1 else "ordinary")


def ln_feats(feats, z):
    return dict(feats, branch=ln_branch(z), zfloor=int(math.floor(z)))


def ref_ratio(z64):
    """phi(z) / Phi(z) in float64"""
    from scipy.special import log_ndtr

    from scipy.special import erfcx

    z = z64.detach().numpy()
    with np.errstate(over="ignore"):
        return torch.from_numpy(math.sqrt(2.0 / math.pi) / erfcx(-z / math.sqrt(2.0)))  # stable in both tails


def run_lncdf(cell, g, fails, feats):
    grp, form = cell["group"], cell["form"]
    if grp == "mixed":
        zs = [v for k in LN_GROUPS for v in LN_GROUPS[k]]
        zs = zs[::2] + zs[1::2]  # branches interleaved in memory
    else:
        zs = list(LN_GROUPS[grp])
    if form == "matrix":
        if len(zs) % 2:
            zs = zs + [zs[0]]
        tensors = [torch.tensor(zs, dtype=F64).reshape(2, -1)]
    elif form == "vector":
        tensors = [torch.tensor(zs, dtype=F64)]
    else:
        tensors = [torch.tensor(v, dtype=F64) for v in zs]
    ncmp = 0
    for z0 in tensors:
        with fails.guard("lncdf-jacobian"):
            z = z0.clone().requires_grad_(True)
            out = log_normal_cdf(z)
            J = jac([out], [z])[0].reshape(z0.numel(), z0.numel())
            diag = J.diagonal().clone()
            off = J - torch.diag(diag)
            if float(off.abs().max()) != 0.0:
                fails.add("lncdf-elementwise", f"upstream e_i produced a gradient at another element: err={float(off.abs().max()):.3e}")
            want = ref_ratio(z0.reshape(-1))
            rel = ((diag - want).abs() / want)
            rel = torch.where(torch.isnan(rel), torch.full_like(rel, float("inf")), rel)
            i = int(rel.argmax())
            ncmp += z0.numel()
            if float(rel[i]) > 2e-3:
                zi = float(z0.reshape(-1)[i])
                fails.add("lncdf-ratio", f"gradient != phi/Phi: rel err={float(rel[i]):.3e}",
                          f"z={zi!r}: got {float(diag[i]):.9e} want {float(want[i]):.9e}")
                fails[-1]["features"] = ln_feats(feats, zi)
            # the function actually computed: central differences of the implementation's own forward, away from the branch edges
            zf = z0.reshape(-1)
            with torch.no_grad():
                fd = (log_normal_cdf((zf + H).reshape(z0.shape)) - log_normal_cdf((zf - H).reshape(z0.shape))).reshape(-1) / (2 * H)
            away = torch.stack([(zf - e).abs() > 1e-5 for e in LN_EDGES]).all(0) & (zf.abs() < 1e3)  # FD of values ~ z^2/2 is noise beyond
            err = ((diag - fd).abs() - 1e-9).clamp_min(0) / fd.abs().clamp_min(1e-300)
            err = torch.where(away, err, torch.zeros_like(err))
            err = torch.where(torch.isnan(err), torch.full_like(err, float("inf")), err)
            i = int(err.argmax())
            if float(err[i]) > 1e-4:
                zi = float(zf[i])
                from scipy.special import log_ndtr
                verr = float(out.reshape(-1)[i]) - float(log_ndtr(zi))
                fails.add("lncdf-fd", f"gradient != derivative of the computed forward: rel err={float(err[i]):.3e}",
                          f"z={zi!r}: got {float(diag[i]):.9e} central difference of forward {float(fd[i]):.9e}; true phi/Phi {float(want[i]):.9e} "
                          f"(delivered gradient is the closer one: it is phi/Phi evaluated with the approximant's value); forward value error "
                          f"vs log Phi here {verr:.3e}")
                fails[-1]["features"] = ln_feats(feats, zi)
            # generic / expanded upstream gradients
            G = util.randn(g, *z0.shape) if z0.dim() else util.randn(g, 1)[0]
            for name, up in (("generic", G), ("ones", torch.ones((), dtype=F64).expand(z0.shape))):
                got, = torch.autograd.grad([out], [z], [up], retain_graph=True)
                cmp(fails, "lncdf-upstream", got, (diag.reshape(z0.shape) * up), 1e-13, 1e-13, f"upstream {name}")
    return "ok", ncmp


def f32_block(lo, hi, stride):
    """float32 values for the positions lo..hi (stride) of the enumeration [+0..+10] ++ [-0..-40] by bit pattern"""
    idx = torch.arange(lo, hi, stride, dtype=torch.int64)
    bits = torch.where(idx < F32_POS, idx, idx - F32_POS + 0x80000000)
    bits = torch.where(bits >= 2 ** 31, bits - 2 ** 32, bits)
    return bits.to(torch.int32).view(torch.float32)


def run_lncdf_f32(cell, g, fails, feats):
    lo, hi, stride = cell["lo"], cell["hi"], cell["stride"]
    blk = (1 << 20) * stride
    n = 0
    worst_rel, worst_z, worst_pair = 0.0, None, None
    with fails.guard("lncdf-f32"):
        for a in range(lo, hi, blk):
            z32 = f32_block(a, min(a + blk, hi), stride).requires_grad_(True)
            out = log_normal_cdf(z32)
            gz, = torch.autograd.grad(out.sum(), z32)
            want = ref_ratio(z32.detach().to(F64))
            rel = (gz.to(F64) - want).abs() / want
            rel = torch.where(torch.isnan(rel), torch.full_like(rel, float("inf")), rel)
            i = int(rel.argmax())
            n += z32.numel()
            if float(rel[i]) > worst_rel:
                worst_rel, worst_z, worst_pair = float(rel[i]), float(z32[i]), (float(gz[i]), float(want[i]))
        if worst_rel > 2e-3 + 1e-5:
            fails.add("lncdf-f32", f"float32 gradient != phi/Phi: rel err={worst_rel:.3e}",
                      f"z={worst_z!r}: got {worst_pair[0]:.9e} want {worst_pair[1]:.9e}")
            fails[-1]["features"] = ln_feats(feats, worst_z)
    return "ok", n


# ------------------------------------------------------------------------------------------------ C. natural parameterisations
def nat_params(g, M, b, cond):
    if cond == "init":
        P = torch.eye(M, dtype=F64).expand(*b, M, M).clone()
    else:
        P = util.spd(g, *b, M)
        if cond == "illcond" and M > 1:
            Q, _ = torch.linalg.qr(util.randn(g, *b, M, M))
            ev = torch.logspace(-2, 2, M, dtype=F64)
            P = Q @ torch.diag_embed(ev.expand(*b, M)) @ Q.mT
            P = 0.5 * (P + P.mT)
    th1 = util.randn(g, *b, M)
    return th1, P


def eta_to_mu_L(e1, e2):
    S = e2 - e1.unsqueeze(-1) * e1.unsqueeze(-2)
    return e1, torch.linalg.cholesky(S)


def theta_to_eta(th1, th2):
    S = torch.linalg.inv(-2.0 * th2)
    m = (S @ th1.unsqueeze(-1)).squeeze(-1)
    return m, S + m.unsqueeze(-1) * m.unsqueeze(-2)


def theta_to_tril(th2):
    """C lower triangular, positive diagonal, C^T C = -2 theta_mat  (C = inv(chol(inv(-2 theta_mat))))"""
    return torch.linalg.inv(torch.linalg.cholesky(torch.linalg.inv(-2.0 * th2)))


def sym(a):
    return 0.5 * (a + a.mT)


def quad_losses(g, b, M, k=3):
    """k random linear + quadratic losses of v = [mu, vec L], different per batch element"""
    n = M + M * M
    out = []
    for _ in range(k):
        c = util.randn(g, *b, n)
        Hm = sym(util.randn(g, *b, n, n))

        def loss(mu, L, c=c, Hm=Hm):
            v = torch.cat([mu, L.reshape(*L.shape[:-2], -1)], -1)
            return (c * v).sum() + 0.5 * (v.unsqueeze(-2) @ Hm @ v.unsqueeze(-1)).sum()
        out.append(loss)
    return out


def run_natural(cell, g, fails, feats):
    tril = cell["what"] == "tril-natural"
    M, b, cond = cell["M"], tuple(cell["b"]), cell["cond"]
    th1_0, P = nat_params(g, M, b, cond)
    th2_0 = -0.5 * P
    if tril:
        par2_0 = theta_to_tril(th2_0)
        fn = _TrilNaturalToMuVarSqrt
    else:
        par2_0 = th2_0
        fn = _NaturalToMuVarSqrt
    ncmp = 0
    Sigma = torch.linalg.inv(P)
    mu_want = (Sigma @ th1_0.unsqueeze(-1)).squeeze(-1)

    def reference(up_mu, up_L, loss=None):
        """gradient of the composed function w.r.t. the expectation parameters; tril: eta2-part pushed forward to the tril factor"""
        e1 = mu_want.clone().requires_grad_(True)
        e2 = (Sigma + mu_want.unsqueeze(-1) * mu_want.unsqueeze(-2)).clone().requires_grad_(True)
        m2, L2 = eta_to_mu_L(e1, e2)
        f = loss(m2, L2) if loss is not None else (up_mu * m2).sum() + (up_L * L2).sum()
        r1, r2 = torch.autograd.grad(f, [e1, e2], allow_unused=True)
        r1 = torch.zeros_like(e1) if r1 is None else r1
        r2 = torch.zeros_like(e2) if r2 is None else sym(r2)
        if tril:
            _, r2 = torch.func.jvp(theta_to_tril, (th2_0,), (r2,))
        return r1, r2

    with fails.guard("nat-forward"):
        p1 = th1_0.clone().requires_grad_(True)
        p2 = par2_0.clone().requires_grad_(True)
        mu, L = fn.apply(p1, p2)
        cmp(fails, "nat-forward", mu, mu_want, 1e-9, 1e-9, "mu != Sigma theta_vec")
        cmp(fails, "nat-forward", L @ L.mT, Sigma, 1e-9, 1e-9, "L L^T != (-2 theta_mat)^-1")
        cmp(fails, "nat-forward", L, torch.linalg.cholesky(Sigma), 1e-9, 1e-9, "L != chol(Sigma)")
    with fails.guard("nat-jacobian"):
        G1, G2, R1, R2 = [], [], [], []
        for which, shape in (("mu", mu.shape), ("L", L.shape)):
            for _, e in onehots(shape):
                up_mu = e if which == "mu" else torch.zeros_like(mu)
                up_L = e if which == "L" else torch.zeros_like(L)
                g1, g2 = torch.autograd.grad([mu, L], [p1, p2], [up_mu, up_L], retain_graph=True)
                r1, r2 = reference(up_mu, up_L)
                G1.append(g1), G2.append(g2), R1.append(r1), R2.append(r2)
        ncmp += len(G1)
        what2 = "natural gradient pushed forward to the tril factor" if tril else "d/d eta2 (symmetrised)"
        cmp(fails, "nat-jacobian-vec", torch.stack(G1), torch.stack(R1), 1e-9, 1e-9,
            "gradient delivered for natural_vec vs d/d eta1 of the composed function, all basis upstream gradients of (mu, L)")
        cmp(fails, "nat-jacobian-mat", torch.stack(G2), torch.stack(R2), 1e-9, 1e-9,
            f"gradient delivered for the matrix parameter vs {what2}, all basis upstream gradients of (mu, L)")
    with fails.guard("nat-loss"):
        for k, loss in enumerate(quad_losses(g, b, M)):
            g1, g2 = torch.autograd.grad(loss(mu, L), [p1, p2], retain_graph=True)
            r1, r2 = reference(None, None, loss)
            cmp(fails, "nat-loss", g1, r1, 1e-9, 1e-9, f"random linear+quadratic loss {k}: natural_vec gradient")
            cmp(fails, "nat-loss", g2, r2, 1e-9, 1e-9, f"random linear+quadratic loss {k}: matrix-parameter gradient")
            ncmp += 1
    with fails.guard("nat-fd"):
        # finite-difference cross-check that does not use autograd through the reference map
        loss = quad_losses(g, b, M, 1)[0]
        g1, g2 = torch.autograd.grad(loss(mu, L), [p1, p2], retain_graph=True)
        if tril:
            # (i) eta1 part and (ii) tril part = d/dt C(theta_mat + t * g_eta2): recover g_eta2 by FD of the loss in eta
            e1 = mu_want.clone()
            e2 = Sigma + mu_want.unsqueeze(-1) * mu_want.unsqueeze(-2)
            fd1 = fd_jac(lambda t: [loss(*eta_to_mu_L(t, e2)).reshape(1)], e1).reshape(e1.shape)
            sdirs = [sym(e) * (1.0 if bool((e == e.mT).all()) else 2.0) for _, e in onehots(e2.shape)]
            fd2 = 0.5 * fd_jac(lambda t: [loss(*eta_to_mu_L(e1, t)).reshape(1)], e2, sdirs).reshape(e2.shape)
            fd2 = torch.where(torch.eye(M, dtype=torch.bool).expand(e2.shape), 2 * fd2, fd2)
            with torch.no_grad():
                push = (theta_to_tril(th2_0 + H * fd2) - theta_to_tril(th2_0 - H * fd2)) / (2 * H)
            cmp(fails, "nat-fd", g1, fd1, 1e-5, 1e-5, "natural_vec gradient vs central differences of the loss in eta1")
            cmp(fails, "nat-fd", g2, push, 1e-5 * max(1.0, float(fd2.abs().max())), 1e-4,
                "tril gradient vs central difference of theta_mat -> tril factor along the finite-difference eta2 gradient")
        else:
            # ordinary gradient of loss(forward(theta)) by FD  ==  (d eta / d theta)^T (delivered gradient)
            def lib_loss(t1, t2):
                return loss(*fn.apply(t1, t2)).reshape(1)

            def pulled(t1, t2):
                e1, e2 = theta_to_eta(t1, t2)
                return ((g1 * e1).sum() + (g2 * e2).sum()).reshape(1)
            sdirs = [sym(e) * (1.0 if bool((e == e.mT).all()) else 2.0) for _, e in onehots(th2_0.shape)]
            lhs1 = fd_jac(lambda t: [lib_loss(t, th2_0)], th1_0)
            rhs1 = fd_jac(lambda t: [pulled(t, th2_0)], th1_0)
            lhs2 = fd_jac(lambda t: [lib_loss(th1_0, t)], th2_0, sdirs)
            rhs2 = fd_jac(lambda t: [pulled(th1_0, t)], th2_0, sdirs)
            sc = max(1.0, float(rhs1.abs().max()), float(rhs2.abs().max()))
            cmp(fails, "nat-fd", lhs1, rhs1, 1e-6 * sc, 1e-4, "FD ordinary gradient in theta_vec vs (d eta/d theta)^T delivered gradient")
            cmp(fails, "nat-fd", lhs2, rhs2, 1e-6 * sc, 1e-4, "FD ordinary gradient in theta_mat (symmetric directions) vs (d eta/d theta)^T delivered gradient")
    with fails.guard("nat-module"):
        # through the public module: loss of the MultivariateNormal q(u)
        cls = TrilNaturalVariationalDistribution if tril else NaturalVariationalDistribution
        vd = cls(M, batch_shape=torch.Size(b)).to(F64)
        with torch.no_grad():
            vd.natural_vec.copy_(th1_0)
            (vd.natural_tril_mat if tril else vd.natural_mat).copy_(par2_0)
        Wm = util.randn(g, *b, M)
        Wc = util.randn(g, *b, M, M)

        def mloss(m, C):
            return (Wm * m).sum() + (m * m).sum() + (Wc * C).sum() + 0.5 * (C * C).sum()
        q = vd()
        mloss(q.mean, q.covariance_matrix).backward()
        r1, r2 = reference(None, None, lambda m, Lc: mloss(m, Lc @ Lc.mT))
        cmp(fails, "nat-module", vd.natural_vec.grad, r1, 1e-9, 1e-9, "param.grad of natural_vec after loss(q.mean, q.covariance_matrix).backward()")
        cmp(fails, "nat-module", (vd.natural_tril_mat if tril else vd.natural_mat).grad, r2, 1e-9, 1e-9,
            "param.grad of the matrix parameter after loss(q.mean, q.covariance_matrix).backward()")
        ncmp += 1
    return "ok", ncmp


# ------------------------------------------------------------------------------------------------ D. CIQ NGD terms
def run_ngd(cell, g, fails, feats):
    with contextlib.ExitStack() as st:
        if cell["cg"] == "tight":  # the solves inside forward are CG solves
            st.enter_context(gpytorch.settings.cg_tolerance(1e-14))
            st.enter_context(gpytorch.settings.eval_cg_tolerance(1e-14))
        return _run_ngd(cell, g, fails, feats)


def _run_ngd(cell, g, fails, feats):
    M, N, ib, nb, cond = cell["M"], cell["N"], tuple(cell["ib"]), tuple(cell["nb"]), cell["cond"]
    B = torch.broadcast_shapes(ib, nb)
    A0 = util.randn(g, *ib, M, N)
    th1_0, P = nat_params(g, M, nb, cond)
    if cond == "init":
        th1_0 = 1e-3 * th1_0  # as CiqVariationalStrategy initialises
    th2_0 = -0.5 * P
    ncmp = 0

    def dense(A, e1, e2):
        """documented outputs as a function of (interp_term, expectation parameters)"""
        S = e2 - e1.unsqueeze(-1) * e1.unsqueeze(-2)
        mean = (A.mT @ e1.unsqueeze(-1)).squeeze(-1)
        var = (A * (S @ A)).sum(-2)
        kl = 0.5 * (-torch.logdet(S) + e2.diagonal(dim1=-1, dim2=-2).sum(-1) - M)
        return mean.expand(*B, N), var.expand(*B, N), kl.expand(B)

    with torch.no_grad():
        e1_0, e2_0 = theta_to_eta(th1_0, th2_0)
    with fails.guard("ngd-jacobian"):
        A = A0.clone().requires_grad_(True)
        p1 = th1_0.clone().requires_grad_(True)
        p2 = th2_0.clone().requires_grad_(True)
        mean, var, kl = _NgdInterpTerms.apply(A, p1, p2)
        Ar = A0.clone().requires_grad_(True)
        e1 = e1_0.clone().requires_grad_(True)
        e2 = e2_0.clone().requires_grad_(True)
        rmean, rvar, rkl = dense(Ar, e1, e2)
        cmp(fails, "ngd-forward", mean, rmean, 1e-6, 1e-6, "interp_mean != A^T m")
        cmp(fails, "ngd-forward", var, rvar, 1e-6, 1e-6, "interp_var != diag(A^T S A)")
        for name, o, r in (("mean", mean, rmean), ("var", var, rvar), ("kl", kl, rkl)):
            if tuple(o.shape) != tuple(r.shape):
                fails.add("ngd-forward", f"shape of {name} {tuple(o.shape)} != {tuple(r.shape)}")
                continue
            J = jac([o], [A, p1, p2])
            Jr = jac([r], [Ar, e1, e2])
            ncmp += J[0].shape[0]
            for pname, a, c_ in zip(("interp_term (ordinary gradient)", "natural_vec (d/d eta1)", "natural_mat (d/d eta2)"), J, Jr):
                cmp(fails, f"ngd-jacobian-{name}", a, c_, 1e-6, 1e-6,
                    f"upstream = every basis gradient of {name}; gradient delivered for {pname} vs autograd of the dense computation",
                    feats=dict(feats, out=name, wrt=pname.split(" ")[0]))
    with fails.guard("ngd-fd"):
        # FD of the library's own forward (mean and var; kl is 0 in forward by design); only meaningful when the CG solves are
        # converged far below the FD step (an early-stopped solve is not a differentiable function of its inputs)
        # P = I ("init") is left out as well: linear_cg's eps-safeguarded second iteration makes the computed solve itself
        # non-smooth at the FD scale there (measured 0.5 % error of d solve / d theta_mat, h-independent); oracle (a) still applies
        if cell["cg"] != "tight" or cond == "init":
            raise util.Skip()
        Gm, Gv = util.randn(g, *B, N), util.randn(g, *B, N)

        def lib(Ax, t1, t2):
            m, v, _ = _NgdInterpTerms.apply(Ax, t1, t2)
            return ((Gm * m).sum() + (Gv * v).sum()).reshape(1)
        gA, g1, g2 = torch.autograd.grad((Gm * mean).sum() + (Gv * var).sum(), [A, p1, p2], retain_graph=True)

        def pulled(t1, t2):
            x1, x2 = theta_to_eta(t1, t2)
            return ((g1 * x1).sum() + (g2 * x2).sum()).reshape(1)
        sdirs = [sym(e) * (1.0 if bool((e == e.mT).all()) else 2.0) for _, e in onehots(th2_0.shape)]
        cmp(fails, "ngd-fd", gA.reshape(1, -1), fd_jac(lambda t: [lib(t, th1_0, th2_0)], A0), FD_ATOL, FD_RTOL,
            "interp_term gradient vs central differences of the library's forward")
        lhs1, rhs1 = fd_jac(lambda t: [lib(A0, t, th2_0)], th1_0), fd_jac(lambda t: [pulled(t, th2_0)], th1_0)
        lhs2, rhs2 = fd_jac(lambda t: [lib(A0, th1_0, t)], th2_0, sdirs), fd_jac(lambda t: [pulled(th1_0, t)], th2_0, sdirs)
        sc = max(1.0, float(rhs1.abs().max()), float(rhs2.abs().max()))
        cmp(fails, "ngd-fd", lhs1, rhs1, 1e-6 * sc, 1e-4, "FD ordinary gradient in natural_vec vs (d eta/d theta)^T delivered gradient")
        cmp(fails, "ngd-fd", lhs2, rhs2, 1e-6 * sc, 1e-4, "FD ordinary gradient in natural_mat vs (d eta/d theta)^T delivered gradient")
    return "ok", ncmp


# ------------------------------------------------------------------------------------------------ E. kernel paths
def run_kernel(cell, g, fails, feats):
    kern, ard, kb, xb, geom = cell["kern"], cell["ard"], tuple(cell["kb"]), tuple(cell["xb"]), cell["geometry"]
    d = {"off": 2, "ard1": 1, "ard2": 2, "ard3": 3}[ard]
    ard_dims = None if ard == "off" else d
    small = cell["size"] == "small"
    same_n = geom in ("same", "samedup")
    n1, n2 = ((3, 3) if same_n else (3, 2)) if small else ((9, 9) if same_n else (9, 7))
    x1, x2, same = geometry(g, geom, xb, n1, n2, d)
    kw = dict(ard_num_dims=ard_dims, batch_shape=torch.Size(kb))
    k = RBFKernel(**kw) if kern == "rbf" else MaternKernel(nu=kern, **kw)
    k = k.to(F64)
    nl = d if ard_dims else 1
    ls = cell["ls"] * torch.tensor([1.0, 2.5, 0.4], dtype=F64)[:nl].reshape(1, nl) * (1.0 + 0.1 * util.rand(g, 1))
    if kb:
        ls = ls * torch.tensor([1.0, 1.7], dtype=F64).reshape(2, 1, 1)
    k.lengthscale = ls
    raw = k.raw_lengthscale
    B = torch.broadcast_shapes(kb, xb)
    ncmp = 0
    # entries with r = 0 exactly (used only to characterise a mismatch, never to excuse it)
    mask0 = (x1.unsqueeze(-2) == (x1 if same else x2).unsqueeze(-3)).all(-1).expand(*B, n1, n2)
    Gup = util.randn(util.gen(0, "c19-up|" + util.jdump(cell)), *B, n1, n2)

    def grads(out, inp=None):
        # small: every basis upstream gradient; large: a generic upstream gradient and the same with the r = 0 entries zeroed
        inp = raw if inp is None else inp
        if small:
            return jac([out], [inp])[0]
        return torch.stack([torch.autograd.grad([out], [inp], [G], retain_graph=True)[0] for G in (Gup, Gup * (~mask0))])

    clean_rows = (~mask0).reshape(-1) if small else torch.tensor([not bool(mask0.any()), True])

    def kcmp(sub, got, want, detail, versus, clean):
        ok, msg = util.close(got, want, 1e-9, 1e-9)
        if not ok:
            r0_only = bool(clean.any()) and util.close(got[clean], want[clean], 1e-9, 1e-9)[0] or not bool(clean.any())
            if kern == 0.5 and r0_only:
                # Matern-1/2 is |.|-shaped at r = 0: the generic path computes r = sqrt(|a|^2 - 2ab + |b|^2), whose rounding error at
                # coincident points is ~ sqrt((D+2) eps) |x / l| (sqrt amplifies cancellation noise); k = exp(-r) and its lengthscale
                # gradient inherit exactly that error. This is rounding of an ill-conditioned expression, not a wrong derivative.
                scale = float((x1 / k.lengthscale.detach()).norm(dim=-1).max())
                bound = 1e-9 + 8 * (float(torch.finfo(F64).eps) * (d + 2)) ** 0.5 * scale * max(1.0, float(Gup.abs().sum()))
                if util.maxerr(got, want) <= bound:
                    return True
            fails.add(sub, f"mismatch err={msg}" + ("; confined to entries with r = 0 exactly" if r0_only else ""),
                      (detail + " | " + worst(got, want))[:600])
            fails[-1]["features"] = dict(feats, versus=versus, r0_only=r0_only)
        return ok

    res = {}
    with fails.guard("kernel-fast"):
        a, b_ = x1, (x1 if same else x2)
        o = util.dense(k(a, b_))
        res["fast"] = (o.detach(), grads(o))
        if same:
            o = util.dense(k(a))
            res["fast-x2none"] = (o.detach(), grads(o))
            o = util.dense(k(a, a.clone()))
            res["fast-x2clone"] = (o.detach(), grads(o))
    with fails.guard("kernel-reqgrad"):
        a = x1.clone().requires_grad_(True)
        o = util.dense(k(a, a if same else x2))
        res["reqgrad"] = (o.detach(), grads(o))
    with fails.guard("kernel-reqgrad"):
        b2 = (x1 if same else x2).clone().requires_grad_(True)
        o = util.dense(k(x1, b2))
        res["reqgrad-x2"] = (o.detach(), grads(o))
    with fails.guard("kernel-trace"):
        with gpytorch.settings.trace_mode(True):
            o = util.dense(k(x1, x1 if same else x2))
            res["trace"] = (o.detach(), grads(o))
    with fails.guard("kernel-ref"):
        rr = raw.detach().clone().requires_grad_(True)
        lsr = torch.nn.functional.softplus(rr)
        assert util.close(lsr, k.lengthscale, 1e-12, 1e-12)[0], "reference constraint transform is not the kernel's"
        o = ref_cov(kern, x1, x2, lsr).expand(*B, n1, n2)
        res["ref"] = (o.detach(), grads(o, rr))
    if "fast" not in res:
        return "nofast", 0
    names = [n for n in res if n != "fast"]
    for n in names:
        v, gr = res[n]
        ncmp += gr.shape[0]
        kcmp("kernel-value", res["fast"][0], v, f"kernel matrix: fast path vs {n}", n, ~mask0)
        kcmp("kernel-grad", res["fast"][1], gr,
             f"d K / d raw_lengthscale ({'every basis' if small else 'generic'} upstream gradient): fast path vs {n}", n, clean_rows)
    if "ref" in res:
        for n in names:
            if n == "ref" or n.startswith("fast"):
                continue
            kcmp("kernel-value", res[n][0], res["ref"][0], f"kernel matrix: {n} path vs closed form", n + "-vs-ref", ~mask0)
            kcmp("kernel-grad", res[n][1], res["ref"][1], f"d K / d raw_lengthscale: {n} path vs closed form", n + "-vs-ref", clean_rows)
    if same_n:
        with fails.guard("kernel-diag"):
            o = util.dense(k(x1, x1 if same else x2, diag=True))
            # at x1 == x2 the diagonal is identically k(0): the library may return a constant (no graph) = zero gradient
            J = (jac([o], [raw])[0] if o.requires_grad else torch.zeros(o.numel(), *raw.shape, dtype=F64)) if small else None
            allr0 = torch.zeros(o.numel(), dtype=torch.bool)  # every diagonal entry has r = 0 here
            kcmp("kernel-value", o.detach().reshape(-1), res["fast"][0].diagonal(dim1=-1, dim2=-2).reshape(-1),
                 "diag=True vs diagonal of the fast path", "diag", allr0)
            if small:
                # rows of the fast Jacobian that belong to diagonal entries
                Jf = res["fast"][1].reshape(*B, n1, n2, *raw.shape).diagonal(dim1=len(B), dim2=len(B) + 1)
                Jf = Jf.movedim(-1, len(B)).reshape(-1, *raw.shape)
                kcmp("kernel-grad", J, Jf, "diag=True gradients vs fast path", "diag", allr0)
    return "ok", ncmp


# ------------------------------------------------------------------------------------------------ F. prediction gradients
def run_pred(cell, g, fails, feats, seed):
    fam, setting, mb, geom, d = cell["fam"], cell["setting"], tuple(cell["mb"]), cell["geometry"], cell["d"]
    n, m = 5, 3
    X = util.rand(g, n, d)
    y = util.randn(g, *mb, n)
    xs = util.rand(g, m, d)
    if geom == "attrain":
        xs[0] = X[1]
    elif geom == "near":
        xs[0] = X[1] + 1e-9
    model = models.ExactModel(X, y, fam, seed, batch_shape=mb)
    models.perturb_(model, seed, f"c19|{fam}|{mb}")
    with torch.no_grad():
        for name, p in model.likelihood.named_parameters():
            if "raw_noise" in name:
                p.clamp_(min=-2.5)
    model.eval()

    def ctxs():
        st = contextlib.ExitStack()
        if setting == "fast_pred_var":
            st.enter_context(gpytorch.settings.fast_pred_var())
        return st

    def pred(x):
        with ctxs():
            out = model(x)
            return [out.mean, out.variance]

    ncmp = 0
    with fails.guard("pred-grad"):
        xr = xs.clone().requires_grad_(True)
        mean, var = pred(xr)
        Jm, = jac([mean], [xr])
        Jv, = jac([var], [xr])
        with torch.no_grad():
            m0, v0 = pred(xs)
        cmp(fails, "pred-value", mean, m0, 1e-9, 1e-9, "mean with x* requiring grad vs without")
        cmp(fails, "pred-value", var, v0, 1e-9, 1e-9, "variance with x* requiring grad vs without")
        F = fd_jac(pred, xs)
        nm = mean.numel()
        ncmp += F.shape[0]
        cmp(fails, "pred-grad-mean", Jm.reshape(nm, -1), F[:nm], FD_ATOL, FD_RTOL, "d mean / d x* (autograd) vs central differences")
        cmp(fails, "pred-grad-var", Jv.reshape(var.numel(), -1), F[nm:], FD_ATOL, FD_RTOL, "d variance / d x* (autograd) vs central differences")
    return "ok", ncmp


# ------------------------------------------------------------------------------------------------ dispatch
def run_cell(cell, seed):
    what = cell["what"]
    fails = Fails()
    feats = {"what": what}
    for k_ in ("kern", "geometry", "ls", "d", "form", "group", "M", "N", "cond", "ard", "size", "fam", "setting", "stride", "cg"):
        if k_ in cell:
            feats[k_] = cell[k_]
    if "kern" in cell:
        feats["nu"] = "rbf" if cell["kern"] == "rbf" else cell["kern"]
    for k_ in ("lb", "xb", "kb", "b", "ib", "nb", "mb"):
        if k_ in cell:
            feats[k_] = len(cell[k_])
    feats["batch"] = max([len(cell[k_]) for k_ in ("lb", "xb", "kb", "b", "ib", "nb", "mb") if k_ in cell] or [0])
    g = util.gen(seed, "c19|" + util.jdump(cell))
    if what in ("rbf-cov", "matern-cov"):
        res, n = run_cov(cell, g, fails, feats)
    elif what == "lncdf":
        res, n = run_lncdf(cell, g, fails, feats)
    elif what == "lncdf-f32":
        res, n = run_lncdf_f32(cell, g, fails, feats)
    elif what in ("natural", "tril-natural"):
        res, n = run_natural(cell, g, fails, feats)
    elif what == "ngd-interp":
        res, n = run_ngd(cell, g, fails, feats)
    elif what == "kernel-paths":
        res, n = run_kernel(cell, g, fails, feats)
    elif what == "pred-grad":
        res, n = run_pred(cell, g, fails, feats, seed)
    else:
        raise AssertionError(what)
    fails = dedupe(fails)
    for f in fails:
        f.setdefault("features", feats)
    return {"fails": fails, "sig": f"{what}:{res}:" + ",".join(sorted({f['sub'] for f in fails})), "features": feats, "ops": max(1, n),
            "nontrivial": n > 0, "notes": {"jacobian_rows_compared": n, "refusals": int(res == "refused")}}
