"""C02 — exact MLL / LOO / SumMLL equal their dense definitions in value AND gradient (Engine G).

Completeness: every prior handed to a constructor of a module of the model is among the priors the model reports (prior-registered).
Reference (per batch element): [ log N(y; m, K+S) + sum of log prior densities of the constrained values + added loss terms ] / n,
built densely in plain torch from one eager evaluation of the model's kernel / mean / likelihood with autograd switched on, so
that torch.autograd of the reference gives the reference gradient w.r.t. every raw parameter. Prior terms are evaluated entry by
entry (one scalar at a time) so that the library's batch/event conventions cannot leak into the reference. LOO by n brute-force
leave-one-out conditionals.
"""
import itertools
import math

import torch

import gpytorch
from gpytorch import settings as S

from gpmc import models, util
from gpmc.refs import dense
from gpmc.util import Fails, F64

PROPERTY = "C02"
RULE = ("cells = objective {ExactMLL, LOO, SumMLL} x family {RBF, Matern-ARD, sum/product, linear mean, fixed noise(+learned), multitask rank 0/1, "
        "SGPR (added loss)} x prior assignment {none, lengthscale Gamma, constant Normal, noise LogNormal, outputscale HalfCauchy, outputscale "
        "SmoothedBox, all} x (model batch, data batch) patterns x (n,d) x path {Cholesky, CG value with skip_logdet_forward}; value and "
        "gradient w.r.t. every raw parameter compared; distinct/non-trivial = distinct cell whose objective evaluated")
ASSUMPTIONS = ["kernel / mean / constraint forward passes are trusted here (C05, C17 decide them); the check decides the assembly: log density, "
               "prior terms, added losses, division by the number of observations, batching, and the gradient of all of it",
               "stochastic Lanczos log-determinant is NOT decided (statistical estimator); on the CG path only the deterministic value with "
               "skip_logdet_forward is compared"]

FAMS = ["exact", "matern_ard", "sumprod", "linearmean", "fixednoise", "fixednoise_learn", "multitask", "multitask_r0", "sgpr", "sgpr2", "fixednoise_sgpr", "sharedbase"]
PRIORS = [(), ("ls",), ("const",), ("noise",), ("os",), ("os_box",), ("ls", "const", "noise", "os"), ("task",), ("shared",)]
BATCHES = [((), ()), ((2,), (2,)), ((2,), ()), ((), (2,)), ((3, 2), (3, 2)), ((2,), (3, 2)), ((2,), (1,)), ((2,), (2, 2))]
SHAPES = [(1, 1), (4, 2), (5, 1)]


def cells(tier, seed):
    out = []
    priors, batches, shapes = PRIORS, BATCHES, SHAPES
    if tier == "thorough":
        # every subset of the four independent prior sites, more shapes (n = d, n < d), more broadcast patterns between model and data batch
        four = ("ls", "const", "noise", "os")
        subsets = [tuple(x for x, b in zip(four, bits) if b) for bits in itertools.product([0, 1], repeat=4)]
        priors = subsets + [p for p in PRIORS if p not in subsets]
        shapes = SHAPES + [(2, 1), (3, 3), (2, 3), (6, 2)]
        batches = BATCHES + [((1,), (2,)), ((2, 1), (1, 2)), ((3, 2), ()), ((), (3, 2)), ((1, 2), (3, 1))]
    for obj, fam, pri, bt, shp in itertools.product(["mll", "loo"], FAMS, priors, batches, shapes):
        mb, db = bt
        if pri == ("task",):
            if fam != "multitask" or mb or db:
                continue
        elif pri and fam not in ("exact", "fixednoise_learn", "sgpr", "linearmean", "sharedbase"):
            continue
        if "noise" in pri and fam.startswith("fixednoise"):
            continue
        if fam.startswith("multitask") and (len(mb) > 1 or len(db) > 1):
            continue
        if fam in ("sgpr", "sgpr2", "fixednoise_sgpr") and (mb or db):
            continue
        if obj == "loo" and (fam.startswith("multitask") or fam in ("sgpr", "sgpr2", "fixednoise_sgpr")):
            continue
        if shp == (1, 1) and obj == "loo":
            continue
        if tier == "quick":
            if shp == SHAPES[2] and fam != "exact":
                continue
            if len(mb) > 1 and fam != "exact":
                continue
        for path in ("chol", "cgval", "nofast_lowchol"):
            if path == "cgval" and (obj != "mll" or pri or tier == "quick" and fam not in ("exact", "multitask", "fixednoise")):
                continue
            if path == "nofast_lowchol" and (pri or (tier == "quick" and (fam not in ("exact", "multitask", "fixednoise") or mb or db))):
                continue
            out.append({"obj": obj, "fam": fam, "priors": list(pri), "mb": list(mb), "db": list(db), "shape": list(shp), "path": path})
    for k in (2, 3):
        for pri in [(), ("ls", "const", "noise", "os")]:
            out.append({"obj": "summll", "fam": "exact", "priors": list(pri), "mb": [], "db": [], "shape": [4, 2], "path": "chol", "members": k})
    return out


def build(cell, seed, tag=""):
    n, d = cell["shape"]
    fam, mb, db = cell["fam"], tuple(cell["mb"]), tuple(cell["db"])
    g = util.gen(seed, "c02|" + util.jdump({k: cell[k] for k in ("shape", "db", "fam")}) + tag)
    X = util.rand(g, *db, n, d)
    yb = torch.broadcast_shapes(mb, db)
    mt = fam.startswith("multitask")
    y = util.randn(g, *yb, n, 2) if mt else util.randn(g, *yb, n)
    noise = (0.05 + 0.2 * util.rand(g, *yb, n)) if fam.startswith("fixednoise") else None
    model = models.ExactModel(X, y, fam, seed, batch_shape=mb, noise=noise, priors=tuple(cell["priors"]))
    models.perturb_(model, seed, "c02" + fam + tag)
    with torch.no_grad():
        for name, p in model.named_parameters():
            if "raw_noise" in name:
                p.clamp_(min=-2.0)
    model.train()
    model.likelihood.train()
    return model, X, y


def prior_terms(model, B, mb):
    """sum over registered priors of log p(constrained value), per batch element, scalar by scalar.
    mb = the model's own batch shape: a prior value of shape (*mb, ...) belongs elementwise to the model batch, which is
    right-aligned in the broadcast batch B."""
    total = torch.zeros(torch.Size(B), dtype=F64)
    nb, k = len(B), len(mb)
    # enumerate the registered priors independently of Module.named_priors (the code under test): walk every module's registry
    registered = []
    for _, module in model.named_modules():
        for pname, entry in (getattr(module, "_priors", None) or {}).items():
            if entry[0] is not None:
                registered.append((module, entry[0], entry[1]))
    if not registered and list(model.named_priors()):
        registered = [(m_, p_, c_) for _, m_, p_, c_, _ in model.named_priors()]  # registry attribute renamed: fall back
    for module, prior, closure in registered:
        val = closure(module)
        if val.dim() >= 2 and "LKJ" in type(prior).__name__:  # matrix-valued prior: one density per (non-batched) matrix
            total = total + prior.log_prob(val).reshape(()).expand(torch.Size(B))
            continue
        kk = k if (k and tuple(val.shape[:k]) == tuple(mb)) else 0
        flat = val.reshape(*val.shape[:kk], -1) if kk else val.reshape(1, -1)
        it = flat.reshape(-1)
        vals = [prior.log_prob(it[i].reshape(1)).reshape(()) for i in range(it.numel())]
        lp = torch.stack(vals).reshape(flat.shape).sum(-1)  # shape = mb (or (1,) if not batched)
        if kk:
            total = total + lp.reshape(*([1] * (nb - kk)), *mb).expand(torch.Size(B))
        else:
            total = total + lp.reshape(()).expand(torch.Size(B))
    return total


def dense_objective(model, X, y, obj, mb=(), with_priors=True):
    fam = model.fam
    mt = fam.startswith("multitask")
    prior = model.forward(X)
    marg = model.likelihood(prior, X)
    C = marg.covariance_matrix  # K + S (one eager evaluation)
    mean = marg.mean
    if mt:
        mean = mean.reshape(*mean.shape[:-2], -1)
        yv = y.reshape(*y.shape[:-2], -1)
    else:
        yv = y
    B = torch.broadcast_shapes(C.shape[:-2], yv.shape[:-1], mean.shape[:-1])
    C = C.expand(*B, *C.shape[-2:])
    mean = mean.expand(*B, mean.shape[-1])
    yv = yv.expand(*B, yv.shape[-1])
    N = yv.shape[-1]
    if obj == "loo":
        terms = []
        for i in range(N):
            idx = [j for j in range(N) if j != i]
            Coo = C[..., idx, :][..., :, idx]
            cio = C[..., i, idx]
            sol = torch.linalg.solve(Coo, (yv[..., idx] - mean[..., idx]).unsqueeze(-1)).squeeze(-1)
            mi = mean[..., i] + (cio * sol).sum(-1)
            vi = C[..., i, i] - (cio * torch.linalg.solve(Coo, cio.unsqueeze(-1)).squeeze(-1)).sum(-1)
            terms.append(-0.5 * torch.log(2 * math.pi * vi) - 0.5 * (yv[..., i] - mi) ** 2 / vi)
        ll = torch.stack(terms, -1).sum(-1)
    else:
        ll = dense.gauss_logpdf(yv, mean, C)
    total = ll + (prior_terms(model, B, mb) if with_priors else 0.0)
    # added loss terms: an independent walk over the module tree (every registered term object once), not the library's own traversal;
    # the inducing-point term is written out: -0.5 tr(K_xx - Q_xx) / sigma^2
    seen = set()
    for mod in model.modules():
        for term in getattr(mod, "_added_loss_terms", {}).values():
            if id(term) in seen:
                continue
            seen.add(id(term))
            if isinstance(mod, gpytorch.kernels.InducingPointKernel):
                Z = mod.inducing_points
                bk = mod.base_kernel
                with S.lazily_evaluate_kernels(False):
                    Kxx, Kxz, Kzz = bk(X, X).to_dense(), bk(X, Z).to_dense(), bk(Z, Z).to_dense()
                Q = Kxz @ torch.linalg.solve(Kzz, Kxz.mT)
                # the noise of each training point, read off the likelihood (constant for a homoskedastic one, per point for fixed noise)
                nn = X.shape[-2]
                eye = torch.eye(nn, dtype=F64)
                s2 = (model.likelihood(type(prior)(torch.zeros(nn, dtype=F64), eye), X).covariance_matrix - eye).diagonal(dim1=-1, dim2=-2)
                total = total - 0.5 * ((Kxx - Q).diagonal(dim1=-1, dim2=-2) / s2).sum(-1)
            else:
                total = total + term.loss(X)
    n_obs = prior.event_shape.numel() if obj != "loo" else y.shape[-1]
    return total / n_obs, B


def missing_priors(cell, model):
    """Priors the harness handed to a constructor whose module is part of the model, but which the model does not report
    (the reference above enumerates the registry, so a registration that is silently dropped would otherwise be invisible to it).
    Only the unambiguous sites are judged: the likelihood's noise / task prior, the ConstantMean prior, and the lengthscale / outputscale
    priors of the families that use the ScaleKernel(RBF) they were given to."""
    have = [type(p_).__name__ for _, _, p_, _, _ in model.named_priors()]
    want = []
    pri, fam = cell["priors"], cell["fam"]
    if "noise" in pri and type(model.likelihood).__name__ == "GaussianLikelihood":
        want.append("LogNormalPrior")
    if "task" in pri and fam in ("multitask", "multitask_r0", "multitask_notask"):
        want.append("LKJCovariancePrior")
    if "const" in pri and type(model.mean_module).__name__ == "ConstantMean":
        want.append("NormalPrior")
    if fam in ("exact", "fixednoise", "fixednoise_learn", "fwdkw"):
        if "shared" in pri:
            want += ["GammaPrior", "GammaPrior"]
        else:
            want += ["GammaPrior"] * ("ls" in pri) + (["SmoothedBoxPrior"] if "os_box" in pri else ["HalfCauchyPrior"] if "os" in pri else [])
    miss = []
    for w in want:
        if w in have:
            have.remove(w)
        else:
            miss.append(w)
    return miss


def run_cell(cell, seed):
    fails = Fails()
    feats = {k: cell[k] for k in ("obj", "fam", "path")}
    feats.update(priors="+".join(cell["priors"]) or "none", mb=len(cell["mb"]), db=len(cell["db"]), bt=f"{cell['mb']}/{cell['db']}",
                 shape="x".join(map(str, cell["shape"])))
    if cell["obj"] == "summll":
        return run_summll(cell, seed, feats)
    model, X, y = build(cell, seed)
    miss = missing_priors(cell, model)
    if miss:
        fails.append({"sub": "prior-registered", "symptom": "a prior given to a constructor is not among the model's priors: " + ", ".join(miss),
                      "detail": "", "features": feats})
    cls = gpytorch.mlls.ExactMarginalLogLikelihood if cell["obj"] == "mll" else gpytorch.mlls.LeaveOneOutPseudoLikelihood
    mll = cls(model.likelihood, model)
    params = [p for _, p in sorted(model.named_parameters())]
    names = [k for k, _ in sorted(model.named_parameters())]
    try:
        if cell["path"] == "cgval":
            with S.max_cholesky_size(0), S.skip_logdet_forward(True), S.cg_tolerance(1e-12), S.max_cg_iterations(500), torch.no_grad():
                torch.manual_seed(3)
                val = mll(model(X), y, X) if model.fam.startswith("fixednoise") else mll(model(X), y)
        elif cell["path"] == "nofast_lowchol":
            # fast_computations(log_prob=False) selects the deterministic Cholesky path whatever max_cholesky_size says
            with S.fast_computations(log_prob=False), S.max_cholesky_size(2):
                val = mll(model(X), y, X) if model.fam.startswith("fixednoise") else mll(model(X), y)
        else:
            val = mll(model(X), y, X) if model.fam.startswith("fixednoise") else mll(model(X), y)
    except Exception as e:
        fails.append({"sub": "objective", "symptom": util.exc_str(e), "detail": "", "features": feats})
        return {"fails": fails, "sig": "raises", "features": feats, "nontrivial": False}
    model2, X2, y2 = build(cell, seed)  # identical fresh model for the reference graph
    ref, B = dense_objective(model2, X2, y2, cell["obj"], tuple(cell["mb"]))
    if cell["path"] == "cgval":
        # forward value without the log-determinant: subtract it from the dense reference
        prior = model2.forward(X2)
        C = model2.likelihood(prior, X2).covariance_matrix
        full = ref.detach()
        ref = full + 0.5 * torch.logdet(C.detach()).expand(torch.Size(B)) / prior.event_shape.numel()
        ok, msg = util.close(val, ref, 1e-6, 1e-6)
        if not ok and util.close(val, full, 1e-6, 1e-6)[0]:
            ok = True  # structured operators (Kronecker + diagonal) compute the log-determinant exactly and ignore the flag
        if not ok:
            fails.append({"sub": "value-cg", "symptom": f"CG inv-quad value (skip_logdet_forward) != dense: err={msg}", "detail": "", "features": feats})
        return {"fails": fails, "sig": "cgval", "features": feats, "ops": 1}
    if tuple(val.shape) != tuple(B):
        fails.append({"sub": "value", "symptom": f"objective shape {tuple(val.shape)} != broadcast batch {tuple(B)}", "detail": "", "features": feats})
        return {"fails": fails, "sig": "shape", "features": feats}
    ok, msg = util.close(val, ref, 1e-9, 1e-9)
    if not ok:
        # characterise a known wrong value: the prior terms added with their leading dims aligned from the LEFT of the batch shape
        note = ""
        try:
            if cell["priors"] and len(B):
                nopri, _ = dense_objective(model2, X2, y2, cell["obj"], tuple(cell["mb"]), with_priors=False)
                n_obs = (model2.forward(X2).event_shape.numel() if cell["obj"] != "loo" else y2.shape[-1])
                alt = nopri.detach().clone() * n_obs
                for _, mod_, prior_, clos_, _ in model2.named_priors():
                    lp = prior_.log_prob(clos_(mod_)).detach()
                    alt = alt + lp.view(*lp.shape[: len(B)], -1).sum(-1)
                if util.close(val.detach(), alt / n_obs, 1e-9, 1e-9)[0]:
                    note = " (= prior terms aligned from the left of the batch shape)"
        except Exception:
            pass
        fails.append({"sub": "value", "symptom": f"objective != dense definition: err={msg}{note}", "detail": f"got {val.detach().reshape(-1)[:4].tolist()} want {ref.detach().reshape(-1)[:4].tolist()}", "features": feats})
    # gradients w.r.t. every raw parameter, for a generic weighting of the batch elements (so cross-talk cannot cancel)
    w = (util.rand(util.gen(seed, "c02w"), *B) + 0.5) if len(B) else torch.tensor(1.0, dtype=F64)
    try:
        g = torch.autograd.grad((val * w).sum(), params, allow_unused=True)
        params2 = [p for _, p in sorted(model2.named_parameters())]
        gr = torch.autograd.grad((ref * w).sum(), params2, allow_unused=True)
        for nm, a, b in zip(names, g, gr):
            a = torch.zeros(1, dtype=F64) if a is None else a
            b = torch.zeros(1, dtype=F64) if b is None else b
            if a.shape != b.shape:
                a, b = a.reshape(-1), b.reshape(-1)
                if a.numel() != b.numel():
                    a = a.sum().reshape(1)
                    b = b.sum().reshape(1)
            ok, msg = util.close(a, b, 1e-8, 1e-7)
            if not ok:
                fails.append({"sub": "gradient", "symptom": f"d objective / d {nm} != gradient of the dense definition: err={msg}", "detail": "", "features": feats})
    except Exception as e:
        fails.append({"sub": "gradient", "symptom": util.exc_str(e), "detail": "", "features": feats})
    ops = 2
    if cell["path"] == "chol" and not fails:
        # the objective holds no state: the SAME model / objective objects, evaluated again after an optimiser-like parameter update
        # (training mode throughout), give the dense definition for the new parameters
        try:
            models.perturb_(model, seed, "c02-again")
            models.perturb_(model2, seed, "c02-again")
            with torch.no_grad():
                for mm in (model, model2):
                    for name, p in mm.named_parameters():
                        if "raw_noise" in name:
                            p.clamp_(min=-2.0)
                val2 = mll(model(X), y, X) if model.fam.startswith("fixednoise") else mll(model(X), y)
                ref2, _ = dense_objective(model2, X2, y2, cell["obj"], tuple(cell["mb"]))
            ops += 2
            ok, msg = util.close(val2, ref2, 1e-9, 1e-9)
            if not ok:
                fails.append({"sub": "value-after-update", "symptom": f"objective re-evaluated after a parameter update != dense definition: err={msg}",
                              "detail": "", "features": feats})
        except Exception as e:
            fails.append({"sub": "value-after-update", "symptom": util.exc_str(e), "detail": "", "features": feats})
    return {"fails": fails, "sig": "ok" if not fails else "mismatch", "features": feats, "ops": ops}


def run_summll(cell, seed, feats):
    fails = Fails()
    k = cell["members"]
    ms, refs = [], []
    for i in range(k):
        c = dict(cell, obj="mll", shape=[4 + i, 2])
        m, X, y = build(c, seed, tag=f"m{i}")
        ms.append(m)
        m2, X2, y2 = build(c, seed, tag=f"m{i}")
        refs.append(dense_objective(m2, X2, y2, "mll")[0])
    ml = gpytorch.models.IndependentModelList(*ms)
    ll = gpytorch.likelihoods.LikelihoodList(*[m.likelihood for m in ms])
    ml.train()
    mll = gpytorch.mlls.SumMarginalLogLikelihood(ll, ml)
    with fails.guard("summll"):
        outs = ml(*ml.train_inputs)
        val = mll(outs, ml.train_targets)
        want = sum(refs) / k
        fails.check_close("summll", val, want, 1e-9, 1e-9, "SumMarginalLogLikelihood != mean of the members' dense MLLs")
        # IndependentModelList returns exactly its members' outputs
        for m, o in zip(ms, outs):
            o2 = m(*m.train_inputs)
            fails.check_close("modellist-outputs", o.mean, o2.mean, 0, 0)
            fails.check_close("modellist-outputs", o.covariance_matrix, o2.covariance_matrix, 0, 0)
    for f in fails:
        f["features"] = feats
    return {"fails": fails, "sig": "summll", "features": feats, "ops": k}
