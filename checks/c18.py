"""C18 — persistence round trips reproduce the model exactly (Engine S: save points along histories x 3 mechanisms).

cell = (catalogue entry, history reaching the save point, mechanism). Mechanisms: state_dict -> a freshly constructed model of
the same architecture built with PERTURBED constructor details (constraint bounds, prior parameters, random features, grids'
seeds) -> load_state_dict; pickle; torch.save/torch.load; deepcopy; and state_dict loaded into a model that has already
predicted (no stale cache). Oracle: restored vs original — prior at x*, posterior / q(f) at x*, training objective incl. priors.
"""
import copy
import io
import itertools
import pickle

import torch

import gpytorch
from gpytorch import kernels as K
from gpytorch import likelihoods as L
from gpytorch import priors as P
from gpytorch import settings as S
from gpytorch import variational as V
from gpytorch.constraints import GreaterThan, Interval, Positive
from gpytorch.distributions import MultitaskMultivariateNormal, MultivariateNormal

from gpmc import util
from gpmc.util import Fails, F64

PROPERTY = "C18"
RULE = ("cells = catalogue entry (exact GP x kernel x likelihood x prior class; SGPR, KISS-GP, grid, RFF, spectral kernels; variational x "
        "strategy x distribution; model list) x save point (every history up to depth 2/3 over {predict, predict under fast_pred_var, train, "
        "eval, optimiser step}) x mechanism {state_dict into a perturbed fresh model, state_dict into a used model, pickle, torch.save, "
        "deepcopy}; distinct/non-trivial = distinct cell whose round trip ran")
ASSUMPTIONS = ["the fresh target of load_state_dict is built by the same factory with perturbed bounds / prior parameters / RNG seed, and the "
               "same training data (training data is constructor data, not state)",
               "comparison at 1e-12 (bit-for-bit where the mechanism copies tensors)"]

n, d = 5, 2


def data(seed):
    g = util.gen(seed, "c18data")
    return util.rand(g, n, d), util.randn(g, n), util.rand(g, 3, d)


def kernel_catalogue(v, seed):
    """v = 0 original constructor details, v = 1 perturbed (bounds, prior parameters, RNG seed)"""
    lo, hi = (0.05, 5.0) if v == 0 else (0.01, 50.0)
    pa = 2.0 + v
    sd = util.seed_for(seed, f"c18k{v}")

    def seeded(f):
        def g():
            torch.manual_seed(sd)
            return f()
        return g
    return {
        "rbf_interval_gamma": lambda: K.ScaleKernel(K.RBFKernel(lengthscale_constraint=Interval(lo, hi), lengthscale_prior=P.GammaPrior(pa, 3.0)),
                                                    outputscale_prior=P.LogNormalPrior(0.1 * pa, 1.0)),
        "matern_smoothedbox": lambda: K.ScaleKernel(K.MaternKernel(nu=1.5, ard_num_dims=d, lengthscale_prior=P.SmoothedBoxPrior(lo, hi))),
        "rq_halfcauchy": lambda: K.RQKernel(lengthscale_prior=P.HalfCauchyPrior(pa), alpha_constraint=Interval(lo, hi)),
        "rbf_uniform": lambda: K.RBFKernel(lengthscale_prior=P.UniformPrior(lo, hi)),
        "rbf_halfnormal": lambda: K.ScaleKernel(K.RBFKernel(), outputscale_prior=P.HalfNormalPrior(pa), outputscale_constraint=GreaterThan(lo / 10)),
        "rbf_normal_lognormal": lambda: K.ScaleKernel(K.RBFKernel(lengthscale_prior=P.LogNormalPrior(0.1 * pa, 0.5 * pa)),
                                                      outputscale_prior=P.NormalPrior(pa, 1.0 + v)),
        "periodic_normal": lambda: K.PeriodicKernel(period_length_prior=P.NormalPrior(pa, 1.0), period_length_constraint=GreaterThan(lo)),
        "linear_horseshoe": lambda: K.LinearKernel(variance_prior=P.HorseshoePrior(pa)) + K.RBFKernel(),
        "poly": lambda: K.PolynomialKernel(power=2, offset_constraint=Interval(lo, hi)),
        "pp": lambda: K.PiecewisePolynomialKernel(q=1, lengthscale_constraint=Interval(lo, hi)),
        "cosine_product": lambda: K.CosineKernel(period_length_constraint=Interval(lo, hi)) * K.RBFKernel(),
        "sm": seeded(lambda: K.SpectralMixtureKernel(num_mixtures=2, ard_num_dims=d)),
        "rff": seeded(lambda: K.ScaleKernel(K.RFFKernel(num_samples=4, num_dims=d))),
        "sd": seeded(lambda: K.SpectralDeltaKernel(num_dims=d, num_deltas=5)),
        "kiss": lambda: K.ScaleKernel(K.GridInterpolationKernel(K.RBFKernel(lengthscale_constraint=Interval(lo, hi)), grid_size=6, grid_bounds=[(-0.5, 1.5)] * d)),
        "arc": lambda: K.ScaleKernel(K.ArcKernel(K.MaternKernel(nu=2.5), ard_num_dims=d)),
        "cyl": lambda: K.CylindricalKernel(3, K.RBFKernel()),
        "constant_rbf": lambda: K.ConstantKernel(constant_constraint=Interval(lo, hi)) + K.RBFKernel(),
        "kiss_auto": lambda: K.ScaleKernel(K.GridInterpolationKernel(K.RBFKernel(lengthscale_constraint=Interval(lo, hi)), grid_size=8, num_dims=d)),
        "rff_lazy": seeded(lambda: K.ScaleKernel(K.RFFKernel(num_samples=4))),  # num_dims omitted: the random weights are drawn at the first call
        "rbf_prior_by_name": lambda: _prior_by_name(K.RBFKernel(lengthscale_constraint=Interval(lo, hi)), P.GammaPrior(pa, 3.0)),
    }


def _prior_by_name(kern, prior):
    """a prior registered after construction by the NAME of the parameter it acts on (the documented register_prior(name, prior, 'param') form)"""
    kern.register_prior("extra_lengthscale_prior", prior, "lengthscale")
    return kern


class Exact(gpytorch.models.ExactGP):
    def __init__(self, X, y, kern, lik, mean=None, mt=False):
        super().__init__(X, y, lik)
        self.mean_module = mean if mean is not None else gpytorch.means.ConstantMean()
        self.covar_module = kern
        self.mt = mt

    def forward(self, x):
        m, c = self.mean_module(x), self.covar_module(x)
        return MultitaskMultivariateNormal(m, c) if self.mt else MultivariateNormal(m, c)


class Var(gpytorch.models.ApproximateGP):
    def __init__(self, strat_name, dist_name, v, seed):
        g = util.gen(seed, f"c18Z{v}")
        M = 3
        Z = util.rand(g, M, d)
        dist_cls = {"chol": V.CholeskyVariationalDistribution, "mf": V.MeanFieldVariationalDistribution, "delta": V.DeltaVariationalDistribution,
                    "nat": V.NaturalVariationalDistribution, "trilnat": V.TrilNaturalVariationalDistribution}[dist_name]
        vd = dist_cls(M, mean_init_std=1e-3 * (1 + v))
        if strat_name == "vs":
            strat = V.VariationalStrategy(self, Z, vd, learn_inducing_locations=True, jitter_val=None)
        elif strat_name == "vs_fixedz":   # fixed inducing locations are state as well (a buffer, different in the model the state is loaded into)
            strat = V.VariationalStrategy(self, Z, vd, learn_inducing_locations=False)
        elif strat_name == "uvs_fixedz":
            strat = V.UnwhitenedVariationalStrategy(self, Z, vd, learn_inducing_locations=False)
        elif strat_name == "uvs":
            strat = V.UnwhitenedVariationalStrategy(self, Z, vd, learn_inducing_locations=True)
        elif strat_name == "bdvs":
            strat = V.BatchDecoupledVariationalStrategy(self, Z, vd, learn_inducing_locations=True)
        elif strat_name == "ciq":
            strat = V.CiqVariationalStrategy(self, Z, vd, learn_inducing_locations=True)
        elif strat_name == "vnn":
            # VNNGP: the inducing points ARE the training inputs; the model the state is loaded into was built with placeholder points of the
            # same shape (the usual way to rebuild a variational model before load_state_dict)
            Xtr = data(seed)[0]
            Z = Xtr.clone() if v == 0 else util.rand(g, n, d)
            vd = dist_cls(n, mean_init_std=1e-3 * (1 + v))
            strat = V.NNVariationalStrategy(self, Z, vd, k=2, training_batch_size=n)
        elif strat_name == "grid":
            vd = dist_cls(16)
            strat = V.GridInterpolationVariationalStrategy(self, grid_size=4, grid_bounds=[(-0.5, 1.5)] * d, variational_distribution=vd)
        elif strat_name == "orth":
            cov = V.VariationalStrategy(self, Z, V.CholeskyVariationalDistribution(M), learn_inducing_locations=True)
            strat = V.OrthogonallyDecoupledVariationalStrategy(cov, util.rand(g, 4, d), V.DeltaVariationalDistribution(4))
        else:
            raise AssertionError(strat_name)
        super().__init__(strat)
        lo, hi = (0.05, 5.0) if v == 0 else (0.01, 50.0)
        bs = torch.Size([2]) if strat_name == "bdvs" else torch.Size([])
        self.mean_module = gpytorch.means.ConstantMean(batch_shape=bs)
        self.covar_module = K.ScaleKernel(K.RBFKernel(lengthscale_constraint=Interval(lo, hi), batch_shape=bs), batch_shape=bs)
        self.likelihood = L.GaussianLikelihood(noise_prior=P.GammaPrior(1.5 + v, 2.0))

    def forward(self, x):
        return MultivariateNormal(self.mean_module(x), self.covar_module(x))


EXACT_SPECS = [(k, "gaussian") for k in kernel_catalogue(0, 0)] + [("rbf_interval_gamma", "fixed"), ("rbf_interval_gamma", "fixed_learn"),
                                                                   ("mt", "multitask"), ("mt_lkj", "multitask"), ("rff_lazy", "gaussian"), ("sgpr", "gaussian"), ("gridk", "gaussian"),
                                                                   ("rbf_interval_gamma", "gaussian_noiseprior"), ("lcm", "multitask")]
VAR_SPECS = [("vs", "chol"), ("vs", "mf"), ("vs", "delta"), ("vs", "nat"), ("vs", "trilnat"), ("uvs", "chol"), ("bdvs", "chol"), ("bdvs", "mf"),
             ("grid", "chol"), ("orth", "delta"), ("ciq", "nat"), ("vs_fixedz", "chol"), ("uvs_fixedz", "chol"), ("vnn", "mf")]


def make(spec, v, seed):
    X, y, Xs = data(seed)
    kind = spec[0]
    torch.manual_seed(util.seed_for(seed, f"c18init{v}"))
    if kind == "var":
        return Var(spec[1], spec[2], v, seed), X, y, Xs
    if kind == "list":
        ms = [make(("exact", "rbf_interval_gamma", "gaussian"), v, seed)[0], make(("exact", "rq_halfcauchy", "gaussian"), v, seed)[0]]
        return gpytorch.models.IndependentModelList(*ms), X, y, Xs
    _, kname, lname = spec
    lo, hi = (1e-4, 3.0) if v == 0 else (1e-3, 30.0)
    mt = lname == "multitask"
    if lname == "gaussian":
        lik = L.GaussianLikelihood(noise_constraint=Interval(lo, hi))
    elif lname == "gaussian_noiseprior":
        lik = L.GaussianLikelihood(noise_prior=P.GammaPrior(1.1 + v, 0.5 + v))
    elif lname == "fixed":
        lik = L.FixedNoiseGaussianLikelihood(noise=0.05 + 0.1 * torch.arange(n, dtype=F64) / n)
    elif lname == "fixed_learn":
        lik = L.FixedNoiseGaussianLikelihood(noise=0.05 + 0.1 * torch.arange(n, dtype=F64) / n, learn_additional_noise=True)
    else:
        lik = L.MultitaskGaussianLikelihood(num_tasks=2, rank=1)
    mean = None
    if kname == "mt_lkj":  # an LKJ prior on the task covariance: its shape parameter eta is prior state like any other prior parameter
        kern = K.MultitaskKernel(K.RBFKernel(), num_tasks=2, rank=1,
                                 task_covar_prior=P.LKJCovariancePrior(2, 1.5 + v, P.SmoothedBoxPrior(0.05, 3.0 + v)))
        mean = gpytorch.means.MultitaskMean(gpytorch.means.ConstantMean(), num_tasks=2)
    elif kname == "mt":
        kern = K.MultitaskKernel(K.RBFKernel(), num_tasks=2, rank=1)
        mean = gpytorch.means.MultitaskMean(gpytorch.means.ConstantMean(), num_tasks=2)
    elif kname == "lcm":
        kern = K.LCMKernel([K.RBFKernel(), K.MaternKernel(nu=1.5)], num_tasks=2, rank=1)
        mean = gpytorch.means.MultitaskMean(gpytorch.means.ZeroMean(), num_tasks=2)
    elif kname == "sgpr":
        g = util.gen(seed, f"c18sgpr{v}")
        kern = K.InducingPointKernel(K.ScaleKernel(K.RBFKernel()), inducing_points=util.rand(g, 3, d), likelihood=lik)
    elif kname == "gridk":
        X = torch.cartesian_prod(torch.linspace(0, 1, 3, dtype=F64), torch.linspace(0, 1, 2, dtype=F64))
        y = y[:1].expand(6).clone() + torch.arange(6, dtype=F64) * 0.1
        kern = K.ScaleKernel(K.GridKernel(K.RBFKernel(), grid=[torch.linspace(0, 1, 3, dtype=F64), torch.linspace(0, 1, 2, dtype=F64)]))
    else:
        kern = kernel_catalogue(v, seed)[kname]()
    if kname == "cyl":  # documented domain: inside the unit ball
        X, Xs = X * 0.5, Xs * 0.5
    if mt:
        g = util.gen(seed, "c18mty")
        y = util.randn(g, X.shape[0], 2)
    return Exact(X, y, kern, lik, mean=mean, mt=mt), X, y, Xs


def perturb(model, seed):
    g = util.gen(seed, "c18perturb")
    with torch.no_grad():
        for k, p in sorted(model.named_parameters()):
            if "natural_mat" in k or "natural_tril_mat" in k:
                continue
            if "chol_variational_covar" in k:
                p.copy_(torch.tril(p + 0.05 * util.randn(g, *p.shape)) + 0.3 * torch.eye(p.shape[-1], dtype=F64))
            elif "_variational_stddev" in k:
                p.copy_((p + 0.05 * util.randn(g, *p.shape)).abs() + 0.2)
            else:
                p.add_(0.3 * util.randn(g, *p.shape) if p.dim() else 0.3 * util.randn(g, 1)[0])
            if "raw_noise" in k:
                p.clamp_(min=-2.0)


HOPS = ["predict", "predict_fpv", "predict_grad", "train", "eval", "step"]


def _plain(v):
    if isinstance(v, (bool, int, float, str, type(None))):
        return True
    return isinstance(v, (tuple, list)) and all(_plain(x) for x in v)


def _same_plain(v, w):
    """equal; floats up to single-precision resolution (an attribute recovered from a float32 buffer is the same attribute)"""
    if isinstance(v, (tuple, list)) and isinstance(w, (tuple, list)):
        return len(v) == len(w) and all(_same_plain(x, y) for x, y in zip(v, w))
    if isinstance(v, float) and isinstance(w, float):
        return v == w or abs(v - w) <= 4e-6 * max(1.0, abs(v), abs(w))
    return v == w


def plain_attribute_diff(a, b):
    """{'<module path>.<attr>': (original, restored)} over public plain-valued instance attributes of all sub-modules (mode flag excluded)"""
    out = {}
    mb = dict(b.named_modules())
    for name, ma in a.named_modules():
        m2 = mb.get(name)
        if m2 is None:
            continue
        for k, v in vars(ma).items():
            if k.startswith("_") or k == "training" or not _plain(v):
                continue
            w = vars(m2).get(k, "<missing>")
            if _plain(w) and not _same_plain(v, w):
                out[(name + "." if name else "") + k] = (v, w)
    return out


def observables(model, spec, X, y, Xs):
    """(prior at x*, posterior/q(f) at x*, training objective); leaves the model in eval mode"""
    out = {}
    kind = spec[0]
    if kind == "list":
        model.eval()
        with torch.no_grad():
            outs = model(Xs, Xs)
        out["posterior_mean"] = torch.cat([o.mean.reshape(-1) for o in outs])
        out["posterior_cov"] = torch.cat([o.covariance_matrix.reshape(-1) for o in outs])
        model.train()
        mll = gpytorch.mlls.SumMarginalLogLikelihood(model.likelihood, model)
        out["objective"] = mll(model(*model.train_inputs), model.train_targets).detach()
        model.eval()
        return out
    model.eval()
    with torch.no_grad():
        if kind == "var":
            pr = model.forward(Xs)  # the prior of a variational GP is its forward() on the inputs
        else:
            with S.prior_mode(True):
                pr = model(Xs)
        out["prior_mean"], out["prior_cov"] = pr.mean.detach().clone(), pr.covariance_matrix.detach().clone()
        torch.manual_seed(3)
        po = model(Xs)
        out["posterior_mean"], out["posterior_cov"] = po.mean.detach().clone(), po.covariance_matrix.detach().clone()
    model.train()
    if kind == "var":
        mll = gpytorch.mlls.VariationalELBO(model.likelihood, model, num_data=X.shape[0])
        yy = y if model.variational_strategy.__class__.__name__ != "BatchDecoupledVariationalStrategy" else y
        out["objective"] = mll(model(X), yy).detach().sum()
    else:
        mll = gpytorch.mlls.ExactMarginalLogLikelihood(model.likelihood, model)
        args = (X,) if spec[2].startswith("fixed") else ()
        out["objective"] = mll(model(X), y, *args).detach()
    model.eval()
    return out


def apply_hop(model, spec, op, X, y, Xs):
    kind = spec[0]
    if op == "predict":
        if not model.training:
            with torch.no_grad():
                model(Xs, Xs) if kind == "list" else model(Xs)
    elif op == "predict_grad":  # outside no_grad: eval caches stay attached to the autograd graph
        if not model.training:
            model(Xs, Xs) if kind == "list" else model(Xs)
    elif op == "predict_fpv":
        if not model.training:
            with torch.no_grad(), S.fast_pred_var():
                model(Xs, Xs) if kind == "list" else model(Xs)
    elif op == "train":
        model.train()
    elif op == "eval":
        model.eval()
    elif op == "step":
        if model.training:
            opt = torch.optim.SGD(model.parameters(), lr=0.02)
            opt.zero_grad()
            if kind == "var":
                loss = -gpytorch.mlls.VariationalELBO(model.likelihood, model, num_data=X.shape[0])(model(X), y).sum()
            elif kind == "list":
                loss = -gpytorch.mlls.SumMarginalLogLikelihood(model.likelihood, model)(model(*model.train_inputs), model.train_targets)
            else:
                args = (X,) if spec[2].startswith("fixed") else ()
                loss = -gpytorch.mlls.ExactMarginalLogLikelihood(model.likelihood, model)(model(X), y, *args).sum()
            loss.backward()
            opt.step()


def cells(tier, seed):
    hists = [[]] + [[a] for a in HOPS] + [[a, b] for a in HOPS for b in HOPS]
    if tier == "thorough":
        hists += [[a, b, c] for a in HOPS for b in HOPS for c in HOPS]
    # drop histories that are no-ops by construction (predict in train mode etc. are skipped inside apply_hop, keep a canonical subset)
    def useful(h):
        mode = "eval"
        for op in h:
            if op in ("predict", "predict_fpv", "predict_grad") and mode != "eval":
                return False
            if op == "step" and mode != "train":
                return False
            if op == "train":
                if mode == "train":
                    return False
                mode = "train"
            if op == "eval":
                if mode == "eval":
                    return False
                mode = "eval"
        return True
    hists = [h for h in hists if useful(h)]
    specs = [("exact",) + s for s in EXACT_SPECS] + [("var",) + s for s in VAR_SPECS] + [("list", "rbf+rq", "gaussian")]
    out = []
    for spec in specs:
        hs = hists if (tier == "thorough" or spec[1] in ("rbf_interval_gamma", "vs", "sgpr", "kiss")) else [h for h in hists if len(h) <= 1] + [["train", "step"]]
        for h in hs:
            out.append({"spec": list(spec), "hist": h})
    return out


MECHS = ["state_dict_fresh", "state_dict_used", "state_dict_cast", "state_dict_direct_nonstrict", "pickle", "torch_save", "deepcopy", "deepcopy_float"]


def run_cell(cell, seed):
    spec, hist = tuple(cell["spec"]), cell["hist"]
    fails = Fails()
    feats = {"kind": spec[0], "entry": spec[1], "lik": spec[2], "hist": "-".join(hist) or "init", "hlen": len(hist)}
    try:
        model, X, y, Xs = make(spec, 0, seed)
        if spec[1] == "kiss_auto":
            # test inputs inside the range of the training inputs: an automatically fitted grid is re-fitted when it sees points outside
            # its range (a known finding of C09), which is not what this cell is about
            lo_, hi_ = X.min(0)[0], X.max(0)[0]
            Xs = lo_ + (hi_ - lo_) * (0.1 + 0.8 * Xs)
            model.train()
            with torch.no_grad():
                model(X).covariance_matrix  # the grid is fitted by the first EVALUATED call (to the training inputs, as in any training run); save points come after it
        if spec[1] == "rff_lazy":
            model.train()
            with torch.no_grad():
                model(X).covariance_matrix  # the random features are drawn by the first evaluation; save points come after it
        if spec[0] == "var":
            model.eval()
            with torch.no_grad():
                model(Xs)  # initialise the variational parameters
            if spec[1] == "vnn":  # the nearest-neighbour strategy initialises them at its first TRAINING-mode call
                model.train()
                with torch.no_grad():
                    model(X)
                model.eval()
        perturb(model, seed)
        for mod in model.modules():
            if hasattr(mod, "_clear_cache"):
                mod._clear_cache()
        model.eval()
        for op in hist:
            apply_hop(model, spec, op, X, y, Xs)
    except Exception as e:
        return {"fails": [{"sub": "build", "symptom": util.exc_str(e), "detail": "", "features": feats}], "sig": "build-raises", "features": feats,
                "nontrivial": False}
    ops = len(hist)
    ran = 0
    was_training = model.training
    kept = []
    for mech in MECHS:
        f2 = dict(feats, mech=mech)
        try:
            if mech.startswith("state_dict"):
                sd = {k: v.detach().clone() for k, v in model.state_dict().items()}
                target, _, _, _ = make(spec, 1, seed)
                if mech == "state_dict_cast":
                    # the receiving model went through a dtype / device conversion before loading: every parameter and buffer is replaced
                    # by a new tensor (what .to(device) / .double() do through Module._apply; same values, so nothing is rounded)
                    target = target._apply(lambda t: t.clone())
                if mech == "state_dict_used":
                    target.eval()
                    with torch.no_grad():
                        target(Xs, Xs) if spec[0] == "list" else target(Xs)  # the target has predicted with ITS OWN parameters
                if mech == "state_dict_direct_nonstrict":
                    # in-memory transfer b.load_state_dict(a.state_dict()) (the dict's tensors ARE a's parameters) into a model that
                    # accepts differently shaped entries (load_strict_shapes(False))
                    sd = model.state_dict()
                    target.load_strict_shapes(False)
                target.load_state_dict(sd)
                restored = target
            elif mech == "pickle":
                restored = pickle.loads(pickle.dumps(model))
            elif mech == "torch_save":
                buf = io.BytesIO()
                torch.save(model, buf)
                buf.seek(0)
                restored = torch.load(buf, weights_only=False)
            elif mech == "deepcopy_float":
                # a dtype conversion of a USED model (caches filled by the history): the converted copy is a legal float32 model
                model.eval()
                apply_hop(model, spec, "predict", X, y, Xs)   # (the observations made for the earlier mechanisms went through train(): refill)
                restored = copy.deepcopy(model).float()
                model.train(was_training)
            else:
                restored = copy.deepcopy(model)
            ops += 1
        except Exception as e:
            fails.append({"sub": "roundtrip", "symptom": util.exc_str(e), "detail": "", "features": f2})
            continue
        try:
            # (taken right after the round trip, before anything is evaluated on the restored object)
            attr_diff = plain_attribute_diff(model, restored)
            # only state that EVOLVED since construction counts (constructor arguments of the receiving model may legitimately differ)
            evolved = set(plain_attribute_diff(model, make(spec, 0, seed)[0]))
            attr_diff = {k: v for k, v in attr_diff.items() if k in evolved}
            if not mech.startswith("state_dict"):
                # a copy / unpickled object is in the same mode, sub-module by sub-module, and learns the same parameters
                mb_ = dict(restored.named_modules())
                for nm, mo in model.named_modules():
                    if nm in mb_ and mb_[nm].training != mo.training:
                        attr_diff[(nm + "." if nm else "") + "training"] = (mo.training, mb_[nm].training)
                pb_ = dict(restored.named_parameters())
                for nm, pa_ in model.named_parameters():
                    if nm in pb_ and pb_[nm].requires_grad != pa_.requires_grad:
                        attr_diff[nm + ".requires_grad"] = (pa_.requires_grad, pb_[nm].requires_grad)
            a = observables(model, spec, X, y, Xs)
            if mech == "deepcopy_float":
                b = {k: v.double() for k, v in observables(restored, spec, X.float(), y.float(), Xs.float()).items()}
                attr_diff = {}
            else:
                b = observables(restored, spec, X, y, Xs)
            ran += 1
            model.train(was_training)
            for mod in model.modules():  # observing the original must not become part of the next mechanism's save point
                pass
        except Exception as e:
            fails.append({"sub": "observe-restored", "symptom": util.exc_str(e), "detail": "", "features": f2})
            continue
        for k in a:
            if mech == "deepcopy_float":
                # only "the converted copy is a working model" is judged: float32 values are not comparable with the float64 original at
                # any sound tolerance (the documented default jitters differ by dtype: 1e-4 vs 1e-6; a first version compared at 5e-2 and
                # raised a false alarm on the unwhitened strategy for VERIF_SEED=1)
                if not torch.isfinite(b[k]).all():
                    fails.append({"sub": "restored-" + k.split("_")[0], "symptom": f"{k} of the float32 copy is not finite", "detail": "", "features": f2})
                continue
            ok, msg = util.close(b[k], a[k], 1e-12, 1e-12)
            if not ok:
                fails.append({"sub": "restored-" + k.split("_")[0], "symptom": f"{k} of the restored model differs from the original: err={msg}", "detail": "", "features": f2})
        # "no prediction-relevant state lives outside what these mechanisms carry": plain (non-tensor) public attributes of every sub-module
        # that hold a number / flag / string / tuple of those must agree between the original and the restored model
        diff = attr_diff
        if diff:
            fails.append({"sub": "restored-attributes", "symptom": "plain attributes differ after the round trip: " + ", ".join(sorted(diff)),
                          "detail": "; ".join(f"{k}: {v}" for k, v in sorted(diff.items()))[:600], "features": f2})
        if mech != "deepcopy_float":
            kept.append((f2, restored, b))
    # the restored objects are independent of the original: changing the ORIGINAL's parameters afterwards changes nothing in them
    try:
        perturb(model, seed + 17)
        for mod in model.modules():
            if hasattr(mod, "_clear_cache"):
                mod._clear_cache()
        for f2, restored, b in kept:
            try:
                b2 = observables(restored, spec, X, y, Xs)
            except Exception as e:
                fails.append({"sub": "restored-independent", "symptom": util.exc_str(e), "detail": "", "features": f2})
                continue
            ops += 1
            for k in b:
                ok, msg = util.close(b2[k], b[k], 1e-12, 1e-12)
                if not ok:
                    fails.append({"sub": "restored-independent", "symptom": f"{k} of the restored model changed when the ORIGINAL's parameters were modified "
                                  f"afterwards: err={msg}", "detail": "", "features": f2})
    except Exception as e:
        fails.append({"sub": "restored-independent", "symptom": util.exc_str(e), "detail": "", "features": feats})
    return {"fails": fails, "sig": ",".join(sorted({f["sub"] + ":" + f["features"]["mech"] for f in fails if "mech" in f["features"]})) or "ok",
            "features": feats, "ops": ops, "nontrivial": ran > 0}
