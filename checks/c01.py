"""C01 — exact GP posterior == closed-form Gaussian conditional on every settings-selected path (Engine G).

cell = (model family, (n,d,m) shape, (model batch, train batch, test batch) triple, parameter valuation); inside a cell every
combination of the prediction-relevant settings within the tier's Hamming distance of the default (thorough: all 2^8).
K, m come from ONE eager evaluation of the model's own kernel/mean on [train; test] in a clean context, S from one eager
evaluation of its likelihood (as the property fixes the oracle); everything else is dense float64 torch.linalg.
"""
import contextlib
import itertools

import torch

import gpytorch
from gpytorch import settings as S

from gpmc import models, util
from gpmc.refs import dense
from gpmc.util import Fails, F64

PROPERTY = "C01"
RULE = ("cells = family {RBF, Matern 0.5/1.5-ARD/2.5-ARD, sum/product kernel, zero/linear mean, fixed noise (+learned), multitask rank 0/1} "
        "x (n,d,m) in {(1,1,1),(2,1,3),(5,2,3),(6,3,1)} x broadcastable (model, train, test) batch triples x 2 parameter valuations; "
        "per cell every settings combination over 8 binary switches within Hamming distance 2 of the default (thorough: all 256); "
        "a fresh model per combination; distinct/non-trivial = distinct (cell, combination) whose prediction ran")
ASSUMPTIONS = ["K, m: one eager evaluation of the model's kernel/mean; S: one eager evaluation of its likelihood on a unit covariance",
               "CG at eval_cg_tolerance 1e-12 and Lanczos at full rank compared at 1e-5, direct paths at 1e-8",
               "noise >= 0.05 keeps K+S well conditioned on the lattice"]

SWITCHES = {
    "nolazy": lambda: [S.lazily_evaluate_kernels(False)],
    "eager0": lambda: [S.max_eager_kernel_size(0)],
    "cg": lambda: [S.max_cholesky_size(0), S.eval_cg_tolerance(1e-12), S.max_cg_iterations(400)],
    "fpv": lambda: [S.fast_pred_var()],
    "attach": lambda: [S.detach_test_caches(False)],
    "skip": lambda: [S.skip_posterior_variances()],
    "noroot": lambda: [S.fast_computations(covar_root_decomposition=False)],
    "nosolve": lambda: [S.fast_computations(solves=False)],
}
NAMES = list(SWITCHES)
FAMS = ["exact", "matern05", "matern_ard", "matern25_ard", "sumprod", "zeromean", "linearmean", "fixednoise", "fixednoise_learn",
        "multitask", "multitask_r0"]
SHAPES = [(1, 1, 1), (2, 1, 3), (5, 2, 3), (6, 3, 1), (3, 1, 3)]  # last: as many test as training points
BATCHES = [((), (), ()), ((2,), (2,), (2,)), ((), (), (2,)), ((2,), (), ()), ((), (2,), ()), ((2,), (2,), ()), ((2,), (), (2,)),
           ((), (2,), (3, 2)), ((2,), (1,), (2,)), ((3, 2), (3, 2), (3, 2)), ((2,), (2,), (3, 2))]


def combos(tier):
    k = len(NAMES)
    maxd = k if tier == "thorough" else 2
    out = []
    for r in range(0, maxd + 1):
        for sub in itertools.combinations(range(k), r):
            names = [NAMES[i] for i in sub]
            if "noroot" in names and "nosolve" in names:
                names = [n for n in names if n not in ("noroot", "nosolve")] + ["noroot+nosolve"]
            out.append(names)
    return out


@contextlib.contextmanager
def settings_ctx(names):
    with contextlib.ExitStack() as st:
        for nm in names:
            if nm == "noroot+nosolve":
                st.enter_context(S.fast_computations(covar_root_decomposition=False, solves=False))
            else:
                for c in SWITCHES[nm]():
                    st.enter_context(c)
        yield


def cells(tier, seed):
    out = []
    for fam, shp, bt, val in itertools.product(FAMS, SHAPES, BATCHES, [0, 1]):
        mb, trb, teb = bt
        try:
            torch.broadcast_shapes(mb, trb, teb)
        except RuntimeError:
            continue
        if fam.startswith("multitask") and (len(mb) > 1 or len(trb) > 1 or len(teb) > 1):
            continue
        if tier == "quick":
            # quick: every family x every batch triple on two shapes; every shape and both valuations on the base family
            if fam != "exact" and (shp not in (SHAPES[1], SHAPES[2], SHAPES[4]) or val == 1):
                continue
        out.append({"fam": fam, "shape": list(shp), "mb": list(mb), "trb": list(trb), "teb": list(teb), "val": val, "tier": tier})
        if fam == "exact" and not (mb or trb or teb) and val == 0:
            # several target vectors for ONE shared set of inputs and hyperparameters (the batch enters through the targets only)
            out.append({"fam": fam, "shape": list(shp), "mb": [], "trb": [], "teb": [], "val": val, "tier": tier, "yb": [2]})
            # ... or only by the noise / only by the mean (inputs and kernel shared)
            out.append({"fam": fam, "shape": list(shp), "mb": [], "trb": [], "teb": [], "val": val, "tier": tier, "yb": [2], "bonly": "noise"})
            out.append({"fam": fam, "shape": list(shp), "mb": [], "trb": [], "teb": [], "val": val, "tier": tier, "yb": [2], "bonly": "mean"})
        if shp[1] == 1 and not (mb or trb or teb) and val == 0:
            # the documented shorthand for d = 1: training and test inputs given as vectors of length n (the library adds the last dimension)
            out.append({"fam": fam, "shape": list(shp), "mb": [], "trb": [], "teb": [], "val": val, "tier": tier, "form": "vec"})
    return out


def make(cell, seed):
    fam = cell["fam"]
    n, d, m = cell["shape"]
    mb, trb, teb = tuple(cell["mb"]), tuple(cell["trb"]), tuple(cell["teb"])
    g = util.gen(seed, "c01|" + util.jdump({k: cell[k] for k in ("shape", "trb", "teb")}))
    X = util.rand(g, *trb, n, d)
    t = 2 if fam.startswith("multitask") else None
    yb = torch.broadcast_shapes(mb, trb, tuple(cell.get("yb", ())))
    y = util.randn(g, *yb, n, t) if t else util.randn(g, *yb, n)
    Xs = util.rand(g, *teb, m, d)
    noise = (0.05 + 0.2 * util.rand(g, *yb, n)) if fam.startswith("fixednoise") else None
    return X, y, Xs, noise, mb


def build(cell, seed, X, y, noise, mb):
    model = models.ExactModel(X, y, cell["fam"], seed, batch_shape=mb, noise=noise)
    if cell.get("bonly") == "noise":
        model.likelihood = gpytorch.likelihoods.GaussianLikelihood(batch_shape=torch.Size(cell["yb"]))
    elif cell.get("bonly") == "mean":
        model.mean_module = gpytorch.means.ConstantMean(batch_shape=torch.Size(cell["yb"]))
    models.perturb_(model, seed, f"c01|{cell['fam']}|{cell['val']}|{mb}")
    with torch.no_grad():  # keep noise >= ~0.05 (conditioning under control)
        for name, p in model.likelihood.named_parameters():
            if "raw_noise" in name:
                p.clamp_(min=-2.5)
    model.eval()
    return model


def reference(model, X, y, Xs, fam, noise_test):
    """dense conditional from one eager evaluation of kernel / mean / likelihood"""
    n, m = X.shape[-2], Xs.shape[-2]
    mt = fam.startswith("multitask")
    B = torch.broadcast_shapes(X.shape[:-2], Xs.shape[:-2], y.shape[: y.dim() - (2 if mt else 1)])
    Xall = torch.cat([X.expand(*B, *X.shape[-2:]), Xs.expand(*B, *Xs.shape[-2:])], -2)
    with torch.no_grad():
        prior = model.forward(Xall)
        Kall = prior.covariance_matrix
        mall = prior.mean
        t = 2 if mt else 1
        nt, mt_ = n * t, m * t
        Kxx, Kxs, Kss = Kall[..., :nt, :nt], Kall[..., :nt, nt:], Kall[..., nt:, nt:]
        mflat = mall.reshape(*mall.shape[: mall.dim() - (2 if mt else 1)], -1)
        mx, ms = mflat[..., :nt], mflat[..., nt:]
        # S on the training points and S* on the test points, from the likelihood itself
        I_n = torch.eye(nt, dtype=F64).expand(*Kxx.shape[:-2], nt, nt)
        zero_n = torch.zeros(*Kxx.shape[:-2], n, t, dtype=F64) if mt else torch.zeros(*Kxx.shape[:-2], n, dtype=F64)
        cls = type(prior)
        Strain = model.likelihood(cls(zero_n, I_n), X).covariance_matrix - I_n
        I_m = torch.eye(mt_, dtype=F64).expand(*Kss.shape[:-2], mt_, mt_)
        zero_m = torch.zeros(*Kss.shape[:-2], m, t, dtype=F64) if mt else torch.zeros(*Kss.shape[:-2], m, dtype=F64)
        kw = {"noise": noise_test} if noise_test is not None else {}
        Stest = model.likelihood(cls(zero_m, I_m), Xs, **kw).covariance_matrix - I_m
        if noise_test is not None:
            # an explicit call-time noise is documented to be used IN PLACE OF the stored fixed noise: known independently
            Stest = torch.diag_embed(noise_test.expand(*Kss.shape[:-2], m))
            if fam == "fixednoise_learn":
                Stest = Stest + model.likelihood.second_noise.reshape(*model.likelihood.second_noise.shape[:-1], 1, 1) * torch.eye(m, dtype=F64)
    yflat = y.reshape(*y.shape[: y.dim() - (2 if mt else 1)], -1)
    mean, cov = dense.conditional(Kxx + Strain, Kxs.mT, Kss, mx, ms, yflat)
    reference.prior = (ms, Kss)   # the prior at the test inputs (for the prior_mode comparison)
    return mean, cov, Stest


def run_cell(cell, seed):
    fam = cell["fam"]
    fails = Fails()
    feats = {"fam": fam, "shape": "x".join(map(str, cell["shape"])), "mb": len(cell["mb"]), "trb": len(cell["trb"]), "teb": len(cell["teb"]),
             "bt": f"{cell['mb']}/{cell['trb']}/{cell['teb']}"}
    X, y, Xs, noise, mb = make(cell, seed)
    mt = fam.startswith("multitask")
    g = util.gen(seed, "c01n|" + util.jdump(cell))
    noise_test = (0.05 + 0.2 * util.rand(g, *Xs.shape[:-1])) if fam.startswith("fixednoise") else None
    ops = 0
    states = []
    try:
        base = build(cell, seed, X, y, noise, mb)
        want_mean, want_cov, Stest = reference(base, X, y, Xs, fam, noise_test)
    except Exception as e:
        return {"fails": [{"sub": "reference", "symptom": util.exc_str(e), "detail": "", "features": feats}], "sig": "ref-raises",
                "features": feats, "nontrivial": False}
    m = Xs.shape[-2]
    sigs = set()
    for names in combos(cell["tier"]):
        f2 = dict(feats, settings="+".join(names) or "default", nsw=len(names))
        loose = any(x in names for x in ("cg", "fpv"))
        atol = 1e-5 if loose else 1e-8
        try:
            vec = cell.get("form") == "vec"
            model = build(cell, seed, X.squeeze(-1) if vec else X, y, noise, mb)
            with settings_ctx(names), (contextlib.nullcontext() if "attach" in names else torch.no_grad()):
                torch.manual_seed(7)
                out = model(Xs.squeeze(-1) if vec else Xs)
                mean = out.mean.reshape(*out.mean.shape[: out.mean.dim() - (2 if mt else 1)], -1)
                cov = out.covariance_matrix
                var = out.variance.reshape(mean.shape)
                kw = {"noise": noise_test} if noise_test is not None else {}
                obs = model.likelihood(out, Xs, **kw)
                obs_cov = obs.covariance_matrix
                obs_mean = obs.mean.reshape(mean.shape)
            ops += 2
        except Exception as e:
            fails.append({"sub": "predict", "symptom": util.exc_str(e), "detail": "", "features": f2})
            sigs.add("raises")
            continue
        states.append(util.digest([cell, names]))
        wm = want_mean.expand(mean.shape) if mean.dim() >= want_mean.dim() else want_mean
        ok, msg = util.close(mean, wm, atol, atol)
        if not ok:
            fails.append({"sub": "mean", "symptom": f"posterior mean != closed form: err={msg}", "detail": "", "features": f2})
        if "skip" in names:
            if float(cov.abs().max()) != 0.0:
                fails.append({"sub": "skip-variances", "symptom": "covariance not the zero operator under skip_posterior_variances", "detail": "", "features": f2})
            continue
        wc = want_cov.expand(cov.shape) if cov.dim() >= want_cov.dim() else want_cov
        ok, msg = util.close(cov, wc, atol, atol)
        if not ok:
            fails.append({"sub": "covariance", "symptom": f"posterior covariance != closed form: err={msg}", "detail": "", "features": f2})
            sigs.add("cov-mismatch")
            continue
        wv = wc.diagonal(dim1=-1, dim2=-2).clamp_min(S.min_variance.value(torch.float64))
        ok, msg = util.close(var, wv, atol, atol)
        if not ok:
            fails.append({"sub": "variance", "symptom": f"variance != clamped diagonal: err={msg}", "detail": "", "features": f2})
        ws = Stest.expand(obs_cov.shape) if obs_cov.dim() >= Stest.dim() else Stest
        ok, msg = util.close(obs_cov - cov, ws, atol, atol)
        if not ok:
            fails.append({"sub": "likelihood-noise", "symptom": f"likelihood(model(x*)).cov - model(x*).cov != S*: err={msg}", "detail": "", "features": f2})
        ok, msg = util.close(obs_mean, mean, 1e-12, 0)
        if not ok:
            fails.append({"sub": "likelihood-noise", "symptom": f"likelihood changed the mean: err={msg}", "detail": "", "features": f2})
        sigs.add("ok")
    # prior_mode: the model returns its own prior at the test inputs, whatever it has been conditioned on (before and after a prediction)
    pm, pK = reference.prior
    for when in ("fresh", "after-predict"):
        f2 = dict(feats, settings="prior_mode", nsw=1)
        try:
            vec = cell.get("form") == "vec"
            model = build(cell, seed, X.squeeze(-1) if vec else X, y, noise, mb)
            xs = Xs.squeeze(-1) if vec else Xs
            with torch.no_grad():
                if when == "after-predict":
                    model(xs)
                with S.prior_mode(True):
                    out = model(xs)
                mean = out.mean.reshape(*out.mean.shape[: out.mean.dim() - (2 if mt else 1)], -1)
                cov = out.covariance_matrix
            ops += 1
            states.append(util.digest([cell, "prior_mode", when]))
            # the prior at non-batched test inputs need not carry the batch shape of the training data: compare after broadcasting
            shp = torch.broadcast_shapes(mean.shape, pm.shape)
            ok, msg = util.close(mean.expand(shp), pm.expand(shp), 1e-9, 1e-9)
            if not ok:
                fails.append({"sub": "prior-mode", "symptom": f"mean under prior_mode ({when}) != prior mean: err={msg}", "detail": "", "features": f2})
            shp = torch.broadcast_shapes(cov.shape, pK.shape)
            ok, msg = util.close(cov.expand(shp), pK.expand(shp), 1e-9, 1e-9)
            if not ok:
                fails.append({"sub": "prior-mode", "symptom": f"covariance under prior_mode ({when}) != prior covariance: err={msg}", "detail": "", "features": f2})
        except Exception as e:
            fails.append({"sub": "prior-mode", "symptom": util.exc_str(e), "detail": "", "features": f2})
    # "the conditional of its own prior on the training data": the data the model holds NOW. After a prediction the training inputs / targets /
    # both are replaced (same shapes) through set_train_data and the next prediction is compared with the closed form on the new data.
    if fam in ("exact", "fixednoise_learn") and not cell.get("form") and not cell.get("yb") and not mt:
        g2 = util.gen(seed, "c01|newdata|" + util.jdump({k: cell[k] for k in ("shape", "trb")}))
        X2, y2 = X + 0.3 * util.rand(g2, *X.shape), y + util.randn(g2, *y.shape)
        for which in ("inputs", "targets", "both"):
            f2 = dict(feats, settings="set_train_data:" + which, nsw=1)
            Xn, yn = (X2 if which != "targets" else X), (y2 if which != "inputs" else y)
            try:
                model = build(cell, seed, X, y, noise, mb)
                with torch.no_grad():
                    model(Xs)
                    model.set_train_data(**({"inputs": Xn} if which != "targets" else {}), **({"targets": yn} if which != "inputs" else {}), strict=True)
                    out = model(Xs)
                    mean, cov = out.mean, out.covariance_matrix
                ref_model = build(cell, seed, Xn, yn, noise, mb)
                wm2, wc2, _ = reference(ref_model, Xn, yn, Xs, fam, noise_test)
                ops += 2
                states.append(util.digest([cell, "set_train_data", which]))
                for name, a_, b_ in (("mean", mean, wm2), ("covariance", cov, wc2)):
                    b_ = b_.expand(a_.shape) if a_.dim() >= b_.dim() else b_
                    ok, msg = util.close(a_, b_, 1e-8, 1e-8)
                    if not ok:
                        fails.append({"sub": "new-train-data", "symptom": f"posterior {name} after set_train_data({which}) != closed form on the data the model now holds: err={msg}",
                                      "detail": "", "features": f2})
            except Exception as e:
                fails.append({"sub": "new-train-data", "symptom": util.exc_str(e), "detail": "", "features": f2})
    # one representative failure per (sub, settings-size) to keep reports readable
    seen, kept = set(), []
    for f in fails:
        key = (f["sub"], f["symptom"][:40], f["features"].get("nsw"))
        if key not in seen:
            seen.add(key)
            kept.append(f)
    return {"fails": kept, "sig": ",".join(sorted(sigs)) + "|" + ",".join(sorted({f["sub"] for f in kept})), "features": feats, "ops": ops,
            "state_digests": states, "notes": {"settings_combinations_run": len(states)}}
