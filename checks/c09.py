"""C09 — structure-exploiting kernels and prediction strategies equal their dense meaning (Engine G).

Three groups of cells (feature `what`):
  kernel formulas   multitask-kernel, index-kernel, lcm-kernel, grid-kernel, kiss-kernel, nystrom-kernel, sgpr-objective, rff-kernel:
                    `kernel(x1, x2).to_dense()` (and the diag / eval-mode cached paths) against the explicit dense formula in
                    gpmc/refs/structured.py (plain torch loops / torch.kron, closed-form base kernels from gpmc/refs/kernels.py).
  strategies        kiss-strategy (+ kiss-fantasy = WISKI), sgpr-strategy, rff-strategy: eval-mode `model(x*)` of a FRESH model per settings
                    combination against the default dense conditional on the same approximate matrix (taken from a twin model's
                    `kernel(X_all).to_dense()`), for SGPR against the SGPR predictive equations.
  interpolation     interp-weights (sum to one, exact at every node, monomials of degree <= 2 at offsets {1/4,1/2,3/4} of every interior cell,
                    documented snapping in boundary cells, independent Keys reconstruction of W), interp-refine (chain g = 8,16,32,64).
"""
import contextlib
import itertools
import math

import torch

import gpytorch
from gpytorch import kernels as K
from gpytorch import settings as S
from gpytorch.utils.grid import create_data_from_grid, create_grid
from gpytorch.utils.interpolation import Interpolation

from gpmc import util
from gpmc.refs import dense
from gpmc.refs import kernels as RK
from gpmc.refs import structured as ST
from gpmc.util import Fails, F64

PROPERTY = "C09"
RULE = ("cells = kernel formulas {Multitask rank 0..t x t x n1,n2 ; Index rank 0..t ; LCM 1..3 terms x ranks ; GridKernel sizes (1-d, 2-d, 3-d, ragged) "
        "x use_toeplitz x base kernel x train/eval ; GridInterpolationKernel grid x d x ARD/isotropic x Scale inside/outside x toeplitz x bounds "
        "given (same / different per dimension) / automatic x grid dtype ; InducingPointKernel n x d x M x train/eval x sgpr_diagonal_correction ; "
        "SGPR objective (+ gradient w.r.t. inducing points) ; RFF n x d x D x ARD} + strategies {KISS-GP (+ WISKI fantasies q=1, q=2, chained), SGPR, "
        "RFF} x data lattice n{4,7} x d{1,2} x m{1,3} x grid / inducing / feature counts x settings {CG, fast_pred_var, fast_pred_samples, "
        "detach_test_caches off, sgpr_diagonal_correction off, use_toeplitz off} (quick: all combinations within Hamming distance 2 of the defaults; "
        "thorough: all), every prediction once with autograd enabled and once under no_grad, each on a FRESH model, first and second call; KISS-GP "
        "with automatic grid bounds x test points inside / outside the training range; + interpolation weights at every node and at offsets "
        "{1/4,1/2,3/4} of every cell of 1-d / 2-d (thorough: 3-d) grids + refinement chains g = 8,16,32,64; distinct = distinct (cell features, "
        "outcome signature)")
ASSUMPTIONS = [
    "base kernels (RBF, Matern-3/2, ScaleKernel) are trusted here (C05 decides them); the references evaluate their closed forms on explicit points",
    "SGPR oracle = the SGPR predictive equations written out densely: mean = Q*x (Qxx + D + s2 I)^-1 (y - m), cov = K** - Q*x (Qxx + D + s2 I)^-1 "
    "Qx* with the EXACT base kernel in the test-test block (Titsias 2009 eq. 6 / the comments of SGPRPredictionStrategy; NOT the dense conditional "
    "on kernel(X_all), whose test-test block would be Q** + correction); D = 0 with sgpr_diagonal_correction off (then also compared with Titsias' "
    "eq. 6 literally), D = diag(Kxx - Qxx) (the documented eval-mode variance correction of the training block) when on",
    "KISS-GP / RFF oracle = dense conditional on kernel(X_all).to_dense() of a twin model built from the same values (taken under the cell's "
    "use_toeplitz setting, because the Toeplitz and the dense K_uu differ at the rounding level of the float32 grid)",
    "CG cells run with max_cholesky_size(0), (eval_)cg_tolerance 1e-12, max_cg_iterations 500 and are compared at 1e-4: linear_operator's "
    "linear_cg stops updating a column once p^T A p < eps = 1e-10 whatever the requested tolerance (measured residual 8e-6 on a 7 x 7 system), "
    "so the 1e-6 of the design is not attainable; direct paths are compared at 1e-9",
    "paths that take a Cholesky root of a numerically singular matrix with the documented jitter (cholesky_jitter 1e-8, raised to 1e-6 by "
    "psd_safe_cholesky) are compared at 1e-5 (fast_pred_samples in KISS-GP) resp. 1e-6 (WISKI fantasy caches)",
    "GridInterpolationKernel creates its grid in float32 whatever the default dtype; with use_toeplitz on, the as-constructed grid is equispaced "
    "only to float32 rounding, so those kernel-formula cells are compared at 2e-6 (cells with a float64 grid via update_grid at 1e-9)",
    "KISS-GP fantasies are made under torch.no_grad() (DESIGN section 5 row 10); InducingPointKernel models are never reused across settings (row 11)",
    "boundary cells of the interpolation grid: only the snapping read from the code comments (weight 1 on a nearest node) is demanded",
    "'converges as the grid is refined' is a limit and is NOT decided: only error(g=64) < error(g=8) and error(g=64) < 1e-3 on a fixed test set",
    "fast_pred_samples: the returned distribution (mean, covariance) must be unchanged; sample statistics are not examined",
    "with automatic grid bounds the oracle is the dense conditional on ONE kernel(X_all) matrix (one grid fitted to train and test points together)",
]

TOL = (1e-9, 1e-9)
TOL_CG = (1e-4, 1e-4)      # linear_operator's linear_cg stops updating once p^T A p < eps = 1e-10: measured floor 1e-6 .. 6e-5 on this lattice
TOL_JIT = (1e-5, 1e-5)     # fast_pred_samples: Cholesky root of a numerically singular matrix with the documented jitter (1e-8 .. 1e-6)
TOL_CG_WISKI = (2e-3, 2e-3)  # WISKI caches built from CG solves and updated twice (fantasy of a fantasy): the CG floor above is amplified by
#                            the jittered root of the rank-deficient W D^-1 W^T; measured 3.1e-4 in one cell of the quick lattice (Cholesky path of the same cell: 2e-7)
TOL_WISKI = (1e-6, 1e-6)   # WISKI caches: jittered Cholesky root of the rank-deficient W D^-1 W^T (measured 1e-9 .. 2e-7)


# =================================================================================================================== settings
ALL_SETTINGS = ["cg", "fpv", "fps", "nodetach", "nocorr", "notoep"]


def settings_combos(names, tier):
    out = []
    for bits in itertools.product([0, 1], repeat=len(names)):
        if tier != "thorough" and sum(bits) > 2:
            continue
        out.append([n for n, b in zip(names, bits) if b])
    out.sort(key=lambda c: (len(c), [names.index(x) for x in c]))
    return ["+".join(c) if c else "default" for c in out]


@contextlib.contextmanager
def apply_settings(spec):
    on = set() if spec == "default" else set(spec.split("+"))
    with contextlib.ExitStack() as st:
        if "cg" in on:
            st.enter_context(S.max_cholesky_size(0))
            st.enter_context(S.eval_cg_tolerance(1e-12))
            st.enter_context(S.cg_tolerance(1e-12))
            st.enter_context(S.max_cg_iterations(500))
        if "fpv" in on:
            st.enter_context(S.fast_pred_var(True))
        if "fps" in on:
            st.enter_context(S.fast_pred_samples(True))
        if "nodetach" in on:
            st.enter_context(S.detach_test_caches(False))
        if "nocorr" in on:
            st.enter_context(S.sgpr_diagonal_correction(False))
        if "notoep" in on:
            st.enter_context(S.use_toeplitz(False))
        yield on


def tol_for(spec, what=""):
    on = spec.split("+")
    if "cg" in on:
        return TOL_CG_WISKI if what == "kiss-fantasy" else TOL_CG
    if what.startswith("kiss") and "fps" in on:
        return TOL_JIT
    if what == "kiss-fantasy":
        return TOL_WISKI
    return TOL


# =================================================================================================================== cells
GRIDS = {1: [[8], [12]], 2: [[8, 8], [12, 12], [8, 12]]}


def cells(tier, seed):
    out = []
    thorough = tier == "thorough"
    # ---------------------------------------------------------------- kernel formulas
    for t in ((2, 3, 4) if thorough else (2, 3)):
        for rank in range(0, t + 1):
            for n1, n2, d in ((1, 1, 1), (3, 2, 2), (2, 3, 1)) + (((4, 4, 3),) if thorough else ()):
                out.append({"what": "multitask-kernel", "t": t, "rank": rank, "n1": n1, "n2": n2, "d": d})
            out.append({"what": "index-kernel", "t": t, "rank": rank})
    for nk in (1, 2, 3):
        for ranks in ([0, 1, 2], [1, 1, 1], [2, 0, 1]):
            for t in (2, 3):
                out.append({"what": "lcm-kernel", "t": t, "nk": nk, "ranks": ranks[:nk], "d": 2})
    for sizes in [[4], [5], [3, 3], [4, 3], [3, 4], [2, 3, 4]] + ([[2], [6], [2, 5], [5, 2], [2, 2, 2], [3, 2, 3]] if thorough else []):
        for toep in (True, False):
            for base in ("rbf", "matern"):
                out.append({"what": "grid-kernel", "sizes": sizes, "d": len(sizes), "toeplitz": toep, "base": base})
    for d in (1, 2):
        for grid in GRIDS[d] + ([[12, 8]] if d == 2 else []):
            for toep, ard, scale, bounds, grid64 in itertools.product((True, False), (False, True), ("inner", "outer"), ("given", "auto"),
                                                                      (True, False)):
                if d == 1 and ard:
                    continue
                if bounds == "auto" and grid64:
                    continue  # the automatically sized grid is kept as the library creates it
                for sym in ((False,) if d == 1 or bounds == "auto" else (False, True)):
                    out.append({"what": "kiss-kernel", "d": d, "grid": grid, "toeplitz": toep, "ard": ard, "scale": scale, "bounds": bounds,
                                "grid64": grid64, "sym": sym})
    for n, d, M in itertools.product((4, 7), (1, 2), (1, 3)):
        for mode, corr in (("train", True), ("eval", True), ("eval", False)):
            out.append({"what": "nystrom-kernel", "n": n, "d": d, "M": M, "mode": mode, "corr": corr})
        for st in ("default", "cg"):
            out.append({"what": "sgpr-objective", "n": n, "d": d, "M": M, "settings": st})
    for n, d, D, ard in itertools.product((4, 7), (1, 2), (1, 3, 5), (False, True)):
        if d == 1 and ard:
            continue
        out.append({"what": "rff-kernel", "n": n, "d": d, "D": D, "ard": ard})
    # ---------------------------------------------------------------- interpolation
    for grid in [[8], [12], [5], [8, 8], [8, 12], [12, 8], [5, 7]] + ([[4], [16], [4, 4], [6, 5], [5, 6, 5]] if thorough else []):
        out.append({"what": "interp-weights", "d": len(grid), "grid": grid})
    for d, ard, sym in ((1, False, True), (2, False, True), (2, False, False), (2, True, True), (2, True, False)):
        for base in ("rbf", "matern"):
            out.append({"what": "interp-refine", "d": d, "ard": ard, "base": base, "sym": sym})
    # ---------------------------------------------------------------- strategies
    lattice = list(itertools.product((4, 7), (1, 2), (1, 3)))
    for st in settings_combos(["cg", "fpv", "fps", "nodetach", "notoep"], tier):
        for n, d, m in lattice:
            for grid in GRIDS[d]:
                for scale in ("inner", "outer"):
                    out.append({"what": "kiss-strategy", "settings": st, "n": n, "d": d, "m": m, "grid": grid, "scale": scale})
    for st in (["default"] if not thorough else ["default", "cg", "fpv", "notoep"]):
        for n, d, m in lattice:
            for grid in GRIDS[d][:2]:
                for xs in ("inside", "outside"):
                    out.append({"what": "kiss-strategy", "settings": st, "n": n, "d": d, "m": m, "grid": grid, "scale": "outer", "bounds": "auto",
                                "xs": xs})
    for st in settings_combos(["cg", "fpv", "fps", "nodetach", "nocorr"], tier):
        for n, d, m in lattice:
            for M in (1, 3):
                out.append({"what": "sgpr-strategy", "settings": st, "n": n, "d": d, "m": m, "M": M})
                if m == 1 or tier == "thorough":   # (m is replaced by n: one such cell per (n, d, M) in the quick tier)
                    # the model evaluated at its own training inputs (residuals, calibration plots): x* is X itself
                    out.append({"what": "sgpr-strategy", "settings": st, "n": n, "d": d, "m": n, "M": M, "xs": "train"})
    for st in settings_combos(["cg", "fpv", "fps", "nodetach"], tier):
        for n, d, m in lattice:
            for D in (1, 3, 5):
                for scale in ("none", "outer"):
                    out.append({"what": "rff-strategy", "settings": st, "n": n, "d": d, "m": m, "D": D, "scale": scale})
    out.sort(key=lambda c: 0 if c.get("settings", "default") == "default" else 1 + c["settings"].count("+"))
    return out


# =================================================================================================================== helpers
LS = [0.35, 0.6, 0.45]


def base_kernel(d, ard, name="rbf", ls=None):
    ls = ls or LS
    if name == "rbf":
        k = K.RBFKernel(ard_num_dims=d if ard else None)
    else:
        k = K.MaternKernel(nu=1.5, ard_num_dims=d if ard else None)
    k.lengthscale = torch.tensor(ls[:d] if ard else ls[:1], dtype=F64)
    return k


def _stationary(name, l):
    """vectorised closed forms (plain torch): RBF exp(-r^2/2), Matern-3/2 (1 + sqrt3 r) exp(-sqrt3 r), r = |(a - b) / l|;
    verified against the loop references of gpmc/refs/kernels.py at import (_selftest)"""
    def f(a, b):
        diff = (a.unsqueeze(-2) - b.unsqueeze(-3)) / l
        r2 = (diff * diff).sum(-1)
        if name == "rbf":
            return torch.exp(-0.5 * r2)
        r = r2.clamp_min(0).sqrt()
        return (1.0 + math.sqrt(3.0) * r) * torch.exp(-math.sqrt(3.0) * r)
    return f


def base_ref(d, ard, name="rbf", outputscale=1.0, ls=None):
    """closed-form reference of base_kernel (optionally times an outputscale): n1 x n2 matrix function"""
    ls = ls or LS
    l = torch.tensor(ls[:d] if ard else ls[:1], dtype=F64)
    f = _stationary(name, l)
    return lambda a, b: outputscale * f(a, b)


def perdim_ref(d, ard, name="rbf", outputscale=1.0, ls=None, swap_h=None):
    """what a Kronecker assembly over the dimensions computes: prod_i [outputscale * k(a_i, b_i)] with the 1-d base kernel of dimension i.
    Equals base_ref only for kernels that are products over the dimensions with k(0) = 1 (e.g. RBF without an inner outputscale)."""
    ls = ls or LS
    fs = [_stationary(name, torch.tensor([ls[i] if ard else ls[0]], dtype=F64)) for i in range(d)]

    def f(a, b):
        tot = torch.ones(a.shape[0], b.shape[0], dtype=F64)
        for i in range(d):
            if swap_h is None:
                tot = tot * outputscale * fs[i](a[:, i:i + 1], b[:, i:i + 1])
            else:  # d = 2, dimensions exchanged: factor of dimension 1-i, in units of grid steps
                c = swap_h[1 - i] / swap_h[i]
                tot = tot * outputscale * fs[1 - i](c * a[:, i:i + 1], c * b[:, i:i + 1])
        return tot
    return f


def _selftest():
    g = util.gen(0, "c09-selftest")
    a, b = util.randn(g, 4, 2), util.randn(g, 3, 2)
    for name in ("rbf", "matern"):
        for l in (torch.tensor([0.35, 0.6], dtype=F64), torch.tensor([0.35], dtype=F64)):
            loop = RK.pairwise(RK.rbf(l) if name == "rbf" else RK.matern(l, 1.5), a, b)
            assert util.maxerr(_stationary(name, l)(a, b), loop) < 1e-14, name


_selftest()


PERDIM_MSG = "K_uu = per-dimension product prod_i k(x_i, x'_i) of the base kernel (incl. any inner outputscale) instead of k(x, x')"
ORDER_MSG = "grid dimensions exchanged (K_uu is laid out first-dimension-fastest, the interpolation indices last-dimension-fastest)"


class GP(gpytorch.models.ExactGP):
    def __init__(self, X, y, lik, kern, const):
        super().__init__(X, y, lik)
        self.mean_module = gpytorch.means.ConstantMean()
        self.mean_module.constant.data.fill_(const)
        self.covar_module = kern

    def forward(self, x):
        return gpytorch.distributions.MultivariateNormal(self.mean_module(x), self.covar_module(x))


def set_params(module, g, scale=0.5):
    with torch.no_grad():
        for p in module.parameters():
            p.copy_(util.randn(g, *p.shape) * scale)


def finish(cell, fails, feats, ops, tag="ok"):
    seen, kept = set(), []
    for f in fails:
        key = (f["sub"], f["symptom"][:40])
        if key in seen:
            continue
        seen.add(key)
        f.setdefault("features", dict(feats))
        kept.append(f)
    return {"fails": kept, "sig": tag + ":" + ",".join(sorted({f["sub"] for f in kept})), "features": feats, "ops": ops, "nontrivial": True}


def feats_of(cell):
    f = {}
    for k, v in cell.items():
        f[k] = "x".join(map(str, v)) if isinstance(v, list) else v
    f.setdefault("settings", "default")
    if "grid" in cell:
        f["square"] = len(set(cell["grid"])) == 1
    return f


# =================================================================================================================== kernel formulas
def run_multitask(cell, g, fails):
    t, rank, n1, n2, d = cell["t"], cell["rank"], cell["n1"], cell["n2"], cell["d"]
    x1, x2 = util.randn(g, n1, d), util.randn(g, n2, d)
    with fails.guard("multitask-construct"):
        k = K.MultitaskKernel(base_kernel(d, d > 1), num_tasks=t, rank=rank)
        set_params(k.task_covar_module, g)
        B = ST.task_cov(k.task_covar_module.covar_factor.detach(), k.task_covar_module.var.detach())
        ref = base_ref(d, d > 1)
        with torch.no_grad():
            with fails.guard("multitask-cross"):
                fails.check_close("multitask-cross", k(x1, x2).to_dense(), ST.kron_interleaved(ref(x1, x2), B), *TOL,
                                  "K(x1,x2) != K_x (x) (W W^T + diag v) in the interleaved layout")
            with fails.guard("multitask-square"):
                want = ST.kron_interleaved(ref(x1, x1), B)
                fails.check_close("multitask-square", k(x1).to_dense(), want, *TOL)
                fails.check_close("multitask-diag", k(x1, diag=True), want.diagonal(), *TOL)
                if tuple(k(x1, x2).shape) != (n1 * t, n2 * t):
                    fails.add("multitask-shape", f"shape {tuple(k(x1, x2).shape)}")
            with fails.guard("multitask-task-matrix"):
                fails.check_close("multitask-task-matrix", k.task_covar_module.covar_matrix.to_dense(), B, *TOL)
    return 5


def run_index(cell, g, fails):
    t, rank = cell["t"], cell["rank"]
    with fails.guard("index-construct"):
        k = K.IndexKernel(num_tasks=t, rank=rank)
        set_params(k, g)
        B = ST.task_cov(k.covar_factor.detach(), k.var.detach())
        # every ordered pair of task indices occurs, with repeats
        i1 = torch.tensor([a for a in range(t)] + [t - 1, 0]).unsqueeze(-1)
        i2 = torch.tensor([b for b in reversed(range(t))] + [0]).unsqueeze(-1)
        with torch.no_grad():
            with fails.guard("index-cross"):
                fails.check_close("index-cross", k(i1, i2).to_dense(), ST.hadamard_index(B, i1.squeeze(-1), i2.squeeze(-1)), *TOL,
                                  "K[i,j] != B[t_i, t_j]")
            with fails.guard("index-square"):
                want = ST.hadamard_index(B, i1.squeeze(-1), i1.squeeze(-1))
                fails.check_close("index-square", k(i1).to_dense(), want, *TOL)
                fails.check_close("index-diag", k(i1, diag=True), want.diagonal(), *TOL)
            with fails.guard("index-hadamard"):
                # the Hadamard multitask construction: data kernel (.) task kernel
                x = util.randn(g, len(i1), 2)
                bk = base_kernel(2, True)
                got = bk(x).mul(k(i1)).to_dense()
                fails.check_close("index-hadamard", got, base_ref(2, True)(x, x) * want, *TOL, "(K_x o K_task)[i,j] != K_x[i,j] B[t_i,t_j]")
    return 4


def run_lcm(cell, g, fails):
    t, nk, ranks, d = cell["t"], cell["nk"], cell["ranks"], cell["d"]
    ranks = [min(r, t) for r in ranks]
    names = ["rbf", "matern", "rbf"][:nk]
    lss = [[0.35, 0.6], [0.8, 0.5], [1.3, 0.9]]
    x1, x2 = util.randn(g, 3, d), util.randn(g, 2, d)
    with fails.guard("lcm-construct"):
        k = K.LCMKernel([base_kernel(d, True, nm, ls) for nm, ls in zip(names, lss)], num_tasks=t, rank=ranks)
        for mk in k.covar_module_list:
            set_params(mk.task_covar_module, g)
        with torch.no_grad():
            def ref(a, b):
                tot = 0
                for mk, nm, ls in zip(k.covar_module_list, names, lss):
                    B = ST.task_cov(mk.task_covar_module.covar_factor, mk.task_covar_module.var)
                    tot = tot + ST.kron_interleaved(base_ref(d, True, nm, ls=ls)(a, b), B)
                return tot
            with fails.guard("lcm-cross"):
                fails.check_close("lcm-cross", k(x1, x2).to_dense(), ref(x1, x2), *TOL, "K != sum_q K_q (x) B_q")
            with fails.guard("lcm-square"):
                fails.check_close("lcm-square", k(x1).to_dense(), ref(x1, x1), *TOL)
                fails.check_close("lcm-diag", k(x1, diag=True), ref(x1, x1).diagonal(), *TOL)
    return 3


def run_gridkernel(cell, g, fails):
    sizes, toep, name = cell["sizes"], cell["toeplitz"], cell["base"]
    d = len(sizes)
    lo = [0.0, -0.5, 0.3]
    hi = [1.0, 1.5, 1.1]
    grid = [torch.linspace(lo[i], hi[i], s, dtype=F64) for i, s in enumerate(sizes)]
    P = ST.grid_points(grid, "colmajor")
    ref = base_ref(d, True, name)
    ops = 0
    with torch.no_grad(), S.use_toeplitz(toep):
        with fails.guard("grid-order"):
            fails.check_close("grid-order", create_data_from_grid(grid), P, 0, 0,
                              "create_data_from_grid is not the documented column-major order (first dimension fastest)")
        for mode in ("train", "eval"):
            with fails.guard("grid-" + mode):
                k = K.GridKernel(base_kernel(d, True, name), grid)
                k.train(mode == "train")
                want = ref(P, P)
                got = k(P, P).to_dense()
                if not fails.check_close("grid-" + mode, got, want, *TOL,
                                         "K(grid, grid) != base kernel on the full Cartesian grid in the documented point order"):
                    if util.close(got, perdim_ref(d, True, name)(P, P), *TOL)[0]:
                        fails[-1]["symptom"] += "; = per-dimension product prod_i k(x_i, x'_i) of the base kernel instead of k(x, x')"
                else:
                    fails.check_close("grid-" + mode + "-second-call", k(P, P).to_dense(), want, *TOL)
                    fails.check_close("grid-" + mode + "-diag", k(P, P).to_dense().diagonal(), want.diagonal(), *TOL)
                # not the grid: must fall back to the base kernel
                x = util.rand(g, 3, d)
                fails.check_close("grid-offgrid", k(x, P).to_dense(), ref(x, P), *TOL)
                fails.check_close("grid-offgrid", k(x, x).to_dense(), ref(x, x), *TOL)
                Pp = P.flip(0)
                fails.check_close("grid-permuted", k(Pp, Pp).to_dense(), ref(Pp, Pp), *TOL, "grid points in another order")
                ops += 6
    return ops


def kiss_bounds(d, sym=False):
    return [(-0.2, 1.2), (-0.2, 1.2) if sym else (-0.1, 1.4)][:d]


def make_kiss_kernel(d, grid, ard, scale, bounds, outputscale, grid64=False, sym=False):
    base = base_kernel(d, ard)
    gb = kiss_bounds(d, sym) if bounds == "given" else None
    if scale == "inner":
        sk = K.ScaleKernel(base)
        sk.outputscale = outputscale
        k = K.GridInterpolationKernel(sk, grid_size=list(grid), num_dims=d, grid_bounds=gb)
        gk = k
    else:
        gk = K.GridInterpolationKernel(base, grid_size=list(grid), num_dims=d, grid_bounds=gb)
        k = K.ScaleKernel(gk)
        k.outputscale = outputscale
    k = k.double()
    if grid64:
        gk.update_grid(create_grid(list(grid), gb, dtype=F64))
    return k, gk


def run_kisskernel(cell, g, fails):
    d, grid, toep, ard, scale, bounds = cell["d"], cell["grid"], cell["toeplitz"], cell["ard"], cell["scale"], cell["bounds"]
    os_ = 1.3
    x1, x2 = util.rand(g, 5, d), util.rand(g, 3, d)
    tol = TOL if (cell["grid64"] or not toep) else (2e-6, 2e-6)
    ops = 0
    with torch.no_grad(), S.use_toeplitz(toep):
        for mode in ("train", "eval"):
            with fails.guard("kiss-" + mode):
                k, gk = make_kiss_kernel(d, grid, ard, scale, bounds, os_, cell["grid64"], cell.get("sym", False))
                k.train(mode == "train")
                G = math.prod(grid)
                kref = base_ref(d, ard, outputscale=os_)
                kprod = perdim_ref(d, ard, outputscale=os_ if scale == "inner" else 1.0)
                oscale = 1.0 if scale == "inner" else os_

                def one(sub, xa, xb, diag=False, detail=""):
                    # the grid is read right after the call: without grid_bounds the kernel re-fits it to the data of every call
                    got = k(xa, xb, diag=True) if diag else k(xa, xb).to_dense()
                    ugrid = [p.detach().clone() for p in gk.grid]
                    if [len(p) for p in ugrid] != list(grid):
                        fails.add("kiss-grid", f"grid sizes {[len(p) for p in ugrid]} != requested {list(grid)}")
                    U = ST.grid_points(ugrid, "lex")
                    Wa, Wb = ST.interp_weights(ugrid, xa), ST.interp_weights(ugrid, xb)
                    want = Wa @ kref(U, U) @ Wb.mT
                    ok = fails.check_close(sub, got, want.diagonal() if diag else want, *tol, detail)
                    if not ok and d > 1:
                        Uc = ST.grid_points(ugrid, "colmajor")
                        for msg, alt in ((ORDER_MSG, Wa @ kref(Uc, Uc) @ Wb.mT),
                                         (PERDIM_MSG, oscale * Wa @ kprod(U, U) @ Wb.mT),
                                         (PERDIM_MSG + " AND " + ORDER_MSG, oscale * Wa @ kprod(Uc, Uc) @ Wb.mT)):
                            if util.close(got, alt.diagonal() if diag else alt, *tol)[0]:
                                fails[-1]["symptom"] += "; = W K_uu W^T with " + msg
                                break
                    return ugrid, got

                one("kiss-" + mode, x1, x2, detail="K(x1,x2) != W1 K_uu W2^T (W = Keys cubic weights, K_uu = base kernel on the grid points "
                    "in W's order)")
                nb = len(fails)
                ugrid, Ksq = one("kiss-" + mode + "-square", x1, x1)
                sq_ok = len(fails) == nb
                one("kiss-" + mode + "-diag", x1, x1, diag=True)
                ops += 3
                # the same with the library's own sparse W (separates a wrong W from a wrong K_uu / assembly)
                idx, val = Interpolation().interpolate(ugrid, x1)
                Wl = ST.scatter_weights(idx, val, G)
                U = ST.grid_points(ugrid, "lex")
                if sq_ok:  # otherwise K_uu is already known to be wrong
                    fails.check_close("kiss-libW", Ksq, Wl @ kref(U, U) @ Wl.mT, *tol, "K(x,x) != W K_uu W^T with the library's own W")
    return ops


def make_sgpr(n, d, M, g):
    X, y, Z = util.rand(g, n, d), util.randn(g, n), util.rand(g, M, d)
    s2 = 0.05 + 0.2 * float(util.rand(g, 1))
    os_ = 0.7 + float(util.rand(g, 1))
    const = 0.5 * float(util.randn(g, 1))

    def build():
        lik = gpytorch.likelihoods.GaussianLikelihood()
        lik.noise = s2
        base = K.ScaleKernel(base_kernel(d, d > 1))
        base.outputscale = os_
        kern = K.InducingPointKernel(base, inducing_points=Z.clone(), likelihood=lik)
        return GP(X, y, lik, kern, const), lik
    return X, y, Z, s2, os_, const, build


def run_nystrom(cell, g, fails):
    n, d, M, mode, corr = cell["n"], cell["d"], cell["M"], cell["mode"], cell["corr"]
    X, y, Z, s2, os_, const, build = make_sgpr(n, d, M, g)
    x2 = util.rand(g, 3, d)
    ref = base_ref(d, d > 1, outputscale=os_)
    Kzz = ref(Z, Z)
    with torch.no_grad(), S.sgpr_diagonal_correction(corr):
        with fails.guard("nystrom"):
            model, lik = build()
            k = model.covar_module
            k.train(mode == "train")
            Q = ST.nystrom(ref(X, Z), Kzz, ref(Z, X))
            want = Q
            if mode == "eval" and corr:
                want = Q + torch.diag((ref(X, X).diagonal() - Q.diagonal()).clamp_min(0))
            fails.check_close("nystrom-square", k(X).to_dense(), want, *TOL,
                              "K(X,X) != Kxz Kzz^-1 Kzx" + (" + diag(Kxx - Qxx)" if mode == "eval" and corr else ""))
            fails.check_close("nystrom-diag", k(X, diag=True), want.diagonal(), *TOL)
            if mode == "eval":
                fails.check_close("nystrom-cross", k(X, x2).to_dense(), ST.nystrom(ref(X, Z), Kzz, ref(Z, x2)), *TOL, "K(X,X2) != Kxz Kzz^-1 Kzx2")
                fails.check_close("nystrom-second-call", k(X).to_dense(), want, *TOL)
                if corr:
                    fails.check_close("nystrom-variance", k(X).to_dense().diagonal(), ref(X, X).diagonal(), *TOL,
                                      "corrected variances != variances of the exact kernel")
    return 4


def run_sgpr_objective(cell, g, fails):
    n, d, M, st = cell["n"], cell["d"], cell["M"], cell["settings"]
    X, y, Z, s2, os_, const, build = make_sgpr(n, d, M, g)
    ref = base_ref(d, d > 1, outputscale=os_)
    want = ST.titsias_bound(y, torch.full((n,), const, dtype=F64), ref(X, X).diagonal(), ref(X, Z), ref(Z, Z), s2) / n
    with apply_settings(st), S.max_lanczos_quadrature_iterations(100), S.num_trace_samples(200):
        with fails.guard("sgpr-objective"):
            model, lik = build()
            model.train()
            lik.train()
            mll = gpytorch.mlls.ExactMarginalLogLikelihood(lik, model)
            got = mll(model(X), y)
            fails.check_close("sgpr-objective", got.detach(), want, *tol_for(st),
                              "ExactMLL + added loss term != [log N(y|m, Q + s2 I) - tr(K - Q)/(2 s2)] / n")
            # gradient of the objective w.r.t. the inducing points against autograd through the dense formula
            got.backward()
            Zr = Z.clone().requires_grad_(True)
            f = RK.rbf(torch.tensor(LS[:d] if d > 1 else LS[:1], dtype=F64))
            kk = lambda a, b: os_ * RK.pairwise(f, a, b)
            wr = ST.titsias_bound(y, torch.full((n,), const, dtype=F64), ref(X, X).diagonal(), kk(X, Zr), kk(Zr, Zr), s2) / n
            wr.backward()
            atol, rtol = tol_for(st)
            fails.check_close("sgpr-objective-grad", model.covar_module.inducing_points.grad, Zr.grad, atol * 10, rtol * 10,
                              "d objective / d inducing points")
    return 3


def run_rffkernel(cell, g, fails):
    n, d, D, ard = cell["n"], cell["d"], cell["D"], cell["ard"]
    x1, x2 = util.randn(g, n, d), util.randn(g, 3, d)
    with torch.no_grad():
        with fails.guard("rff"):
            k = K.RFFKernel(num_samples=D, num_dims=d, ard_num_dims=d if ard else None)
            k.lengthscale = torch.tensor(LS[:d] if ard else LS[:1], dtype=F64)
            Wt = k.randn_weights.detach().clone()
            if tuple(Wt.shape) != (d, D):
                fails.add("rff-weights", f"randn_weights shape {tuple(Wt.shape)} != (d, D) = {(d, D)}")
            ls = k.lengthscale.detach().reshape(-1)
            P1, P2 = ST.rff_features(x1, Wt, ls), ST.rff_features(x2, Wt, ls)
            fails.check_close("rff-square", k(x1).to_dense(), P1 @ P1.mT, *TOL, "K(x,x) != Phi Phi^T, Phi = [cos(xW/l), sin(xW/l)]/sqrt(D)")
            fails.check_close("rff-cross", k(x1, x2).to_dense(), P1 @ P2.mT, *TOL)
            fails.check_close("rff-diag", k(x1, diag=True), (P1 @ P1.mT).diagonal(), *TOL)
            # = (1/D) sum_i cos(w_i^T (x - x')) as documented
            want = torch.stack([torch.stack([torch.cos(((a - b) / ls) @ Wt).mean() for b in x2]) for a in x1])
            fails.check_close("rff-cosine-form", k(x1, x2).to_dense(), want, *TOL)
    return 4


# =================================================================================================================== interpolation
def run_interp(cell, g, fails):
    sizes = cell["grid"]
    d = len(sizes)
    lo, hi = [-0.3, 0.5, 1.0][:d], [1.7, 2.0, 1.8][:d]
    grid = [torch.linspace(lo[i], hi[i], s, dtype=F64) for i, s in enumerate(sizes)]
    G = math.prod(sizes)
    U = ST.grid_points(grid, "lex")
    monos = [e for e in itertools.product(range(3), repeat=d) if sum(e) <= 2]

    def fvals(P, e):
        return torch.stack([P[:, i] ** e[i] for i in range(d)]).prod(0)

    def lib_W(x):
        idx, val = Interpolation().interpolate(grid, x)
        return idx, val, ST.scatter_weights(idx, val, G)

    ops = 0
    with torch.no_grad():
        # ---- every node
        with fails.guard("interp-nodes"):
            idx, val, W = lib_W(U)
            ops += 1
            fails.check_close("interp-sum", W.sum(-1), torch.ones(G, dtype=F64), 1e-12, 0, "weights of a target at a grid node do not sum to one")
            fails.check_close("interp-nodes", W, torch.eye(G, dtype=F64), 1e-12, 0, "interpolation is not exact at the grid nodes "
                              "(node k of the lexicographic order must get weight 1 on itself)")
        # ---- every cell, offsets 1/4, 1/2, 3/4
        per_dim = []
        for i, s in enumerate(sizes):
            h = float(grid[i][1] - grid[i][0])
            per_dim.append([(j, off, float(grid[i][0]) + (j + off) * h) for j in range(s - 1) for off in (0.25, 0.5, 0.75)])
        interior, boundary, mixed = [], [], []
        for combo in itertools.product(*per_dim):
            inner = [1 <= j <= sizes[i] - 3 for i, (j, off, x) in enumerate(combo)]
            (interior if all(inner) else boundary if not any(inner) else mixed).append(combo)
        with fails.guard("interp-interior"):
            X = torch.tensor([[c[2] for c in combo] for combo in interior], dtype=F64)
            idx, val, W = lib_W(X)
            ops += 1
            fails.check_close("interp-sum", W.sum(-1), torch.ones(len(X), dtype=F64), 1e-12, 0, "interior target: weights do not sum to one")
            for e in monos:
                fails.check_close("interp-monomial", W @ fvals(U, e), fvals(X, e), 1e-11, 1e-11,
                                  f"monomial x^{e} is not reproduced at interior targets (offsets 1/4,1/2,3/4 of every interior cell)")
            fails.check_close("interp-keys", W, ST.interp_weights(grid, X), 1e-12, 0, "W != Keys' cubic convolution weights")
            # left_interp applies the same sparse matrix
            from gpytorch.utils.interpolation import left_interp
            F = torch.stack([fvals(U, e) for e in monos], -1)
            fails.check_close("interp-left_interp", left_interp(idx, val, F), W @ F, 1e-12, 1e-12, "left_interp(idx, val, F) != W F")
            fails.check_close("interp-left_interp", left_interp(idx, val, F[:, 0]), W @ F[:, 0], 1e-12, 1e-12, "left_interp with a vector rhs")
            ops += 2
        with fails.guard("interp-boundary"):
            for name, group in (("boundary", boundary), ("mixed", mixed)):
                if not group:
                    continue
                X = torch.tensor([[c[2] for c in combo] for combo in group], dtype=F64)
                idx, val, W = lib_W(X)
                ops += 1
                fails.check_close("interp-sum", W.sum(-1), torch.ones(len(X), dtype=F64), 1e-12, 0, name + " target: weights do not sum to one")
                if name == "boundary":
                    # documented: the target takes the value of the closest grid node (per dimension)
                    for r, combo in enumerate(group):
                        nz = (W[r].abs() > 1e-12).nonzero().squeeze(-1).tolist()
                        good = len(nz) == 1 and abs(float(W[r, nz[0]]) - 1) < 1e-12
                        if good:
                            node = U[nz[0]]
                            for i, (j, off, x) in enumerate(combo):
                                dmin = min(abs(x - float(grid[i][j])), abs(x - float(grid[i][j + 1])))
                                good &= abs(abs(float(node[i]) - x) - dmin) < 1e-9
                        if not good:
                            fails.add("interp-boundary", f"boundary-cell target {[c[2] for c in combo]} is not snapped to a nearest node",
                                      f"weights {[(k, float(W[r, k])) for k in nz][:6]}")
                            break
        # ---- out of range targets are refused, not extrapolated
        with fails.guard("interp-range"):
            x = torch.tensor([[hi[i] + 0.5 for i in range(d)]], dtype=F64)
            try:
                Interpolation().interpolate(grid, x)
                fails.add("interp-range", "target outside the grid accepted silently")
            except RuntimeError:
                pass
    return ops


def run_refine(cell, g, fails):
    d, ard, name = cell["d"], cell["ard"], cell["base"]
    x = util.rand(g, 9, d)
    ls = [0.4, 0.7]
    ref = base_ref(d, ard, name, ls=ls)(x, x)
    errs = {}
    with torch.no_grad():
        for gs in (8, 16, 32, 64):
            with fails.guard("refine"):
                k = K.GridInterpolationKernel(base_kernel(d, ard, name, ls=ls), grid_size=gs, grid_bounds=kiss_bounds(d, cell["sym"])).double()
                errs[gs] = util.maxerr(k(x).to_dense(), ref)
    if len(errs) == 4:
        chain = ", ".join(f"g={k}: {v:.2e}" for k, v in errs.items())
        what = ""
        if d == 2 and not (errs[64] < 1e-3):
            got = k(x).to_dense()
            hs = [float(p[1] - p[0]) for p in k.grid]
            for msg, alt in (("the per-dimension product prod_i k(x_i, x'_i)", perdim_ref(d, ard, name, ls=ls)),
                             ("the base kernel with the grid dimensions exchanged, prod_i k_{1-i}((x_i - x'_i) h_{1-i} / h_i)",
                              perdim_ref(d, ard, name, ls=ls, swap_h=hs))):
                if util.maxerr(got, alt(x, x)) < 1e-3:
                    what = "; at g=64 within 1e-3 of " + msg
                    break
        if not errs[64] < errs[8]:
            fails.add("refine-decrease", f"error at g=64 is not smaller than at g=8 err={errs[64]:.3e}" + what, chain)
        if not errs[64] < 1e-3:
            fails.add("refine-final", f"max |K_interp - K_base| at g=64 is not < 1e-3 err={errs[64]:.3e}" + what, chain)
    return 4


# =================================================================================================================== strategies
def compare_pred(fails, sub, out, mean, cov, tol, detail=""):
    with fails.guard(sub):
        fails.check_close(sub + "-mean", out.mean, mean, *tol, detail)
        fails.check_close(sub + "-covar", out.covariance_matrix, cov, *tol, detail)
        fails.check_close(sub + "-variance", out.variance, cov.diagonal(), *tol, detail)


def predict_twice(fails, sub, build, Xs, expect_class, want, tol, detail, st, grad):
    """fresh model, eval-mode prediction (first call builds the strategy, second call reads its caches); returns the model"""
    model = None
    with apply_settings(st), (contextlib.nullcontext() if grad else torch.no_grad()):
        with fails.guard(sub):
            model, lik = build()
            out = model(Xs)
            sname = type(model.prediction_strategy).__name__
            if sname != expect_class:
                fails.add(sub + "-class", f"prediction strategy is {sname}, expected {expect_class}")
            compare_pred(fails, sub, out, *want, tol, detail)
            compare_pred(fails, sub + "-second-call", model(Xs), *want, tol, "second call on the cached strategy")
    return model


def run_kiss_strategy(cell, g, fails, seed):
    st, n, d, m, grid, scale = cell["settings"], cell["n"], cell["d"], cell["m"], cell["grid"], cell["scale"]
    bounds, xs = cell.get("bounds", "given"), cell.get("xs", "any")
    X, y, Xs = util.rand(g, n, d), util.randn(g, n), util.rand(g, m, d)
    if xs == "inside":  # every test point inside the per-dimension range of the training inputs
        lo, hi = X.min(0)[0], X.max(0)[0]
        Xs = lo + (hi - lo) * (0.05 + 0.9 * Xs)
    elif xs == "outside":  # one test point beyond the training range in every dimension
        Xs = Xs.clone()
        Xs[0] = X.max(0)[0] + 0.25
    Xf, yf = util.rand(g, 2, d), util.randn(g, 2)
    Xf2, yf2 = util.rand(g, 1, d), util.randn(g, 1)
    s2 = 0.05 + 0.2 * float(util.rand(g, 1))
    os_ = 0.7 + float(util.rand(g, 1))
    const = 0.5 * float(util.randn(g, 1))

    def build(Xt=X, yt=y):
        lik = gpytorch.likelihoods.GaussianLikelihood()
        lik.noise = s2
        kern, _ = make_kiss_kernel(d, grid, d > 1, scale, bounds, os_)
        return GP(Xt, yt, lik, kern, const).eval(), lik.eval()

    def oracle(Xt, yt):
        twin, _ = build(Xt, yt)
        # the approximate matrix depends on use_toeplitz at rounding level of the float32 grid: take it under the cell's setting
        with torch.no_grad(), S.use_toeplitz("notoep" not in st.split("+")):
            Kall = twin.covar_module(torch.cat([Xt, Xs])).to_dense()
        nt = Xt.shape[0]
        c = torch.full((nt,), const, dtype=F64)
        return dense.conditional(Kall[:nt, :nt] + s2 * torch.eye(nt, dtype=F64), Kall[nt:, :nt], Kall[nt:, nt:], c, c[:1].expand(m), yt)

    tol = tol_for(st, "kiss-strategy")
    ftol = tol_for(st, "kiss-fantasy")
    msg = "model(x*) != dense conditional on kernel(X_all).to_dense()"
    util.own_rng(seed, "kiss|" + util.jdump(cell))
    predict_twice(fails, "kiss-strategy-grad", build, Xs, "InterpolatedPredictionStrategy", oracle(X, y), tol, msg + " (autograd enabled)", st, True)
    model = predict_twice(fails, "kiss-strategy", build, Xs, "InterpolatedPredictionStrategy", oracle(X, y), tol, msg, st, False)
    ops = 4
    if model is not None and bounds == "auto" and xs == "inside":
        # non-initial state: the model has predicted; its training data is replaced by inputs that leave the fitted grid's range (so the grid
        # is re-fitted in evaluation mode) and it predicts again, inside the new range
        with fails.guard("kiss-strategy-regrid"):
            X2 = X * 1.9 - 0.4
            y2 = y + 0.5
            lo, hi = X2.min(0)[0], X2.max(0)[0]
            Xs_old, Xs2 = Xs, lo + (hi - lo) * (0.05 + 0.9 * util.rand(g, m, d))
            twin, _ = build(X2, y2)
            with torch.no_grad(), S.use_toeplitz("notoep" not in st.split("+")):
                Kall = twin.covar_module(torch.cat([X2, Xs2])).to_dense()
            c = torch.full((n,), const, dtype=F64)
            want = dense.conditional(Kall[:n, :n] + s2 * torch.eye(n, dtype=F64), Kall[n:, :n], Kall[n:, n:], c, c[:1].expand(m), y2)
            with apply_settings(st), torch.no_grad():
                model.set_train_data(X2, y2, strict=False)
                out = model(Xs2)
            ops += 1
            compare_pred(fails, "kiss-strategy-regrid", out, *want, tol, "prediction after set_train_data beyond the old grid range != dense conditional on the re-fitted grid")
    if model is None or bounds == "auto":
        return ops
    ffeat = dict(feats_of(cell), what="kiss-fantasy")
    nb = len(fails)
    with apply_settings(st), torch.no_grad():
        for q, (A, b) in (("q1", (Xf[:1], yf[:1])), ("q2", (Xf, yf))):
            with fails.guard("kiss-fantasy-" + q):
                fm = model.get_fantasy_model(A, b)
                ops += 2
                compare_pred(fails, "kiss-fantasy-" + q, fm(Xs), *oracle(torch.cat([X, A]), torch.cat([y, b])), ftol,
                             "WISKI fantasy model != dense conditional on the concatenated data")
                if q == "q2":
                    fm2 = fm.get_fantasy_model(Xf2, yf2)
                    ops += 2
                    compare_pred(fails, "kiss-fantasy-chained", fm2(Xs), *oracle(torch.cat([X, A, Xf2]), torch.cat([y, b, yf2])), ftol,
                                 "fantasy of a fantasy model != dense conditional on the concatenated data")
        with fails.guard("kiss-fantasy-source"):
            # the source model is unchanged by get_fantasy_model
            compare_pred(fails, "kiss-fantasy-source", model(Xs), *oracle(X, y), tol, "source model changed by get_fantasy_model")
    for f in fails[nb:]:
        f["features"] = ffeat
    return ops


def run_sgpr_strategy(cell, g, fails, seed):
    st, n, d, m, M = cell["settings"], cell["n"], cell["d"], cell["m"], cell["M"]
    X, y, Z, s2, os_, const, build0 = make_sgpr(n, d, M, g)
    Xs = util.rand(g, m, d)
    if cell.get("xs") == "train":
        Xs, m = X.clone(), n
    ref = base_ref(d, d > 1, outputscale=os_)
    tol = tol_for(st)
    corr = "nocorr" not in st.split("+")
    Kxz, Ksz, Kzz, Kss = ref(X, Z), ref(Xs, Z), ref(Z, Z), ref(Xs, Xs)
    cx, cs = torch.full((n,), const, dtype=F64), torch.full((m,), const, dtype=F64)
    td = None
    if corr:
        td = (ref(X, X).diagonal() - ST.nystrom(Kxz, Kzz, Kxz.mT).diagonal()).clamp_min(0)
    mean, cov = ST.sgpr_predict(y, cx, cs, Kxz, Ksz, Kzz, Kss, s2, td)

    def build():
        model, lik = build0()
        return model.eval(), lik.eval()

    msg = "model(x*) != SGPR predictive equations"
    predict_twice(fails, "sgpr-strategy-grad", build, Xs, "SGPRPredictionStrategy", (mean, cov), tol, msg + " (autograd enabled)", st, True)
    model = predict_twice(fails, "sgpr-strategy", build, Xs, "SGPRPredictionStrategy", (mean, cov), tol, msg, st, False)
    if model is not None:
        with apply_settings(st), torch.no_grad():
            with fails.guard("sgpr-strategy-extra"):
                out = model(Xs)
                if not corr:
                    mt, ct = ST.sgpr_predict_titsias(y, cx, cs, Kxz, Ksz, Kzz, Kss, s2)
                    compare_pred(fails, "sgpr-strategy-titsias", out, mt, ct, (1e-7, 1e-7) if tol == TOL else tol, "Titsias 2009 eq. (6) literally")
                # observation-level prediction adds the noise once
                fails.check_close("sgpr-strategy-likelihood", model.likelihood(out).covariance_matrix, cov + s2 * torch.eye(m, dtype=F64), *tol)
            # start from a non-initial state: the model that has just predicted (warm K_zz / K_zz^-1/2 / strategy caches) receives other
            # inducing points and hyperparameters through load_state_dict while staying in eval mode; the SGPR equations hold for the new ones
            with fails.guard("sgpr-strategy-reloaded"):
                _, _, Z2, s2b, os2, const2, build2 = make_sgpr(n, d, M, g)
                donor, _ = build2()
                model.load_state_dict(donor.state_dict())
                ref2 = base_ref(d, d > 1, outputscale=os2)
                Kxz2, Ksz2, Kzz2, Kss2 = ref2(X, Z2), ref2(Xs, Z2), ref2(Z2, Z2), ref2(Xs, Xs)
                td2 = (ref2(X, X).diagonal() - ST.nystrom(Kxz2, Kzz2, Kxz2.mT).diagonal()).clamp_min(0) if corr else None
                c2x, c2s = torch.full((n,), const2, dtype=F64), torch.full((m,), const2, dtype=F64)
                compare_pred(fails, "sgpr-strategy-reloaded", model(Xs), *ST.sgpr_predict(y, c2x, c2s, Kxz2, Ksz2, Kzz2, Kss2, s2b, td2), tol,
                             "prediction after load_state_dict (eval mode, warm caches) != SGPR predictive equations for the loaded parameters")
    return 7


def run_rff_strategy(cell, g, fails, seed):
    st, n, d, m, D, scale = cell["settings"], cell["n"], cell["d"], cell["m"], cell["D"], cell["scale"]
    X, y, Xs = util.randn(g, n, d), util.randn(g, n), util.randn(g, m, d)
    s2 = 0.05 + 0.2 * float(util.rand(g, 1))
    os_ = 0.7 + float(util.rand(g, 1))
    const = 0.5 * float(util.randn(g, 1))
    Wt = util.randn(g, d, D)

    def build():
        lik = gpytorch.likelihoods.GaussianLikelihood()
        lik.noise = s2
        kern = K.RFFKernel(num_samples=D, num_dims=d, ard_num_dims=d)
        kern.lengthscale = torch.tensor(LS[:d], dtype=F64)
        kern.randn_weights.copy_(Wt)
        if scale == "outer":
            kern = K.ScaleKernel(kern)
            kern.outputscale = os_
        return GP(X, y, lik, kern, const).eval(), lik.eval()

    tol = tol_for(st)
    twin, _ = build()
    with torch.no_grad():
        Kall = twin.covar_module(torch.cat([X, Xs])).to_dense()
    cx, cs = torch.full((n,), const, dtype=F64), torch.full((m,), const, dtype=F64)
    want = dense.conditional(Kall[:n, :n] + s2 * torch.eye(n, dtype=F64), Kall[n:, :n], Kall[n:, n:], cx, cs, y)
    # the approximate matrix itself, independently (Phi Phi^T from the stored weights)
    Phi = ST.rff_features(torch.cat([X, Xs]), Wt, torch.tensor(LS[:d], dtype=F64))
    fails.check_close("rff-strategy-matrix", Kall, (os_ if scale == "outer" else 1.0) * Phi @ Phi.mT, *TOL, "kernel(X_all) != c Phi Phi^T")
    msg = "model(x*) != dense conditional on kernel(X_all).to_dense()"
    predict_twice(fails, "rff-strategy-grad", build, Xs, "RFFPredictionStrategy", want, tol, msg + " (autograd enabled)", st, True)
    predict_twice(fails, "rff-strategy", build, Xs, "RFFPredictionStrategy", want, tol, msg, st, False)
    return 4


# =================================================================================================================== dispatch
RUNNERS = {"multitask-kernel": run_multitask, "index-kernel": run_index, "lcm-kernel": run_lcm, "grid-kernel": run_gridkernel,
           "kiss-kernel": run_kisskernel, "nystrom-kernel": run_nystrom, "sgpr-objective": run_sgpr_objective, "rff-kernel": run_rffkernel,
           "interp-weights": run_interp, "interp-refine": run_refine}
STRATS = {"kiss-strategy": run_kiss_strategy, "sgpr-strategy": run_sgpr_strategy, "rff-strategy": run_rff_strategy}


def run_cell(cell, seed):
    fails = Fails()
    feats = feats_of(cell)
    data_key = util.jdump({k: v for k, v in cell.items() if k != "settings"})  # the same data under every settings combination
    g = util.gen(seed, "c09|" + data_key)
    util.own_rng(seed, "c09-lib|" + data_key)
    what = cell["what"]
    if what in RUNNERS:
        ops = RUNNERS[what](cell, g, fails)
    else:
        ops = STRATS[what](cell, g, fails, seed)
    return finish(cell, fails, feats, ops or 1, what)
