"""C14 — variational predictive q(f) and KL(q(u) || p(u)) equal their closed forms for every strategy (Engine G).

cell = strategy x variational distribution x batch pattern of (inducing points, variational parameters, kernel/mean parameters, data)
x (M, n, d) x q(u) in {the prior, generic} x mode {eval: full mean + covariance, train: mean + variances}.

Protocol of a cell (every step on the real code): own the RNG, build the model, set hyper-parameters, ONE first call in training mode
(it (re)initialises the variational parameters from the prior and sets `variational_params_initialized`), then set the variational
parameters deterministically, switch to the cell's mode (`train()` / `eval()` clear the memoised distributions), call the model and
`kl_divergence()`.

Oracle (gpmc/refs/variational.py, plain float64 torch): K and m come from ONE eager evaluation of the model's own kernel / mean on
[Z; X]; mean mX + Kxz Ktz^-1 (m_u - mz), covariance Kxx - Kxz Ktz^-1 (Ktz - S_u) Ktz^-1 Kzx with Ktz = Kzz + jitter I (jitter = the documented
`variational_cholesky_jitter` default 1e-6 for float64, or the `jitter_val` argument), whitened strategies u = mz + L e, and the documented
per-strategy conventions:
  * Variational / BatchDecoupled / CIQ / (bases of OrthogonallyDecoupled, LMC, IndependentMultitask): + jitter on the diagonal of Kxx;
    p(e) = N(0, I); CIQ whitens with the symmetric square root;
  * Unwhitened: p(u) = N(mz, Kzz + jitter I) in both modes;
  * BatchDecoupled: mean from inducing set 0, covariance from set 1, KL = -log p(m) + KL(N(0, S) || p);
  * OrthogonallyDecoupled: mean + Cov_q(x, Zb) a, KL_base + 1/2 a^T Cov_q(Zb, Zb) a (+ jitter in eval mode as `prior_distribution` is coded);
  * GridInterpolation: f = W u with Keys' cubic convolution weights W (interior points), p(u) = N(mz, Kzz + 1e-3 I);
  * LMC: sum_q K_q (x) a_q a_q^T + jitter I;  IndependentMultitask: block diagonal over tasks; KL summed over the latent / task dimension.
Derived checks needing no formula: q(u) = p(u) => q(f) = prior (mean mX, covariance Kxx [+ jitter I]) and KL = 0; whitened == unwhitened for the
same q(u); every variational distribution returns the moments its parameters encode.
"""
import contextlib
import itertools
import math

import torch

import gpytorch
from gpytorch import settings as S
from gpytorch import variational as V
from gpytorch.distributions import MultivariateNormal

from gpmc import util
from gpmc.refs import variational as RV
from gpmc.util import Fails, F64

PROPERTY = "C14"
RULE = ("cells = strategy {Variational, Unwhitened, BatchDecoupled (shared / separate mean-variance hypers), OrthogonallyDecoupled, CIQ, "
        "GridInterpolation, LMC, IndependentMultitask} x distribution {Cholesky, MeanField, Delta, Natural, TrilNatural} (legal pairs; illegal "
        "pairs are cells whose refusal is recorded) x all 16 batch patterns of (inducing, variational, kernel, data) over {(), (b,)} the class "
        "has an API for x (M,n,d) in {(1,1,1),(3,4,1),(4,3,2)} x q(u) in {prior, generic} x mode {eval, train} (thorough: b in {2,3}, jitter "
        "by default and by the jitter_val argument, two more shapes); distinct / non-trivial = distinct cell whose forward call ran")
ASSUMPTIONS = [
    "K, m: one eager evaluation of the model's own kernel / mean on [Z; X] expanded to the broadcast batch shape",
    "jitter conventions listed in the module docstring are part of the reference (documented jitter; 4e-16 agreement with, 1e-6 without)",
    "direct paths compared at 1e-9 (abs + rel), contour-integral quadrature (Q = 30, MINRES 1e-10, CG 1e-12) at 1e-5",
    "for multitask wrappers the KL is only checked when the variational batch carries the latent / task dimension (otherwise the number of "
    "independent u's is not fixed by the statement)",
    "grid interpolation: data are kept in the interior of the grid (no boundary snapping)",
]

JIT_DEFAULT = 1e-6  # documented default of settings.variational_cholesky_jitter for float64
JIT_PRIOR = 1e-3  # literal in GridInterpolation.prior_distribution
STRATS = ["Variational", "Unwhitened", "BatchDecoupled", "BatchDecoupledMV", "OrthDecoupled", "CIQ", "Grid", "LMC", "IndepMT"]
DISTS = ["Cholesky", "MeanField", "Delta", "Natural", "TrilNatural"]
SHAPES = [(1, 1, 1), (3, 4, 1), (4, 3, 2)]
DIST_CLS = {"Cholesky": V.CholeskyVariationalDistribution, "MeanField": V.MeanFieldVariationalDistribution,
            "Delta": V.DeltaVariationalDistribution, "Natural": V.NaturalVariationalDistribution,
            "TrilNatural": V.TrilNaturalVariationalDistribution}
WHITENED = {"Variational", "BatchDecoupled", "BatchDecoupledMV", "OrthDecoupled", "CIQ", "LMC", "IndepMT"}
NUM_LATENTS, LMC_TASKS = 2, 3
GRID_OF_M = {1: 4, 2: 5, 3: 5, 4: 6, 5: 7}
ILLEGAL = {("BatchDecoupled", "Delta"), ("BatchDecoupledMV", "Delta"), ("Grid", "Delta")}


def valid(c):
    bz, bv, bk, bx = c["pat"]
    M = c["shape"][0]
    s, dist = c["strategy"], c["dist"]
    if (s, dist) in ILLEGAL:
        return False
    if s == "Grid" and bz:
        return False  # the grid is built by the constructor: no API for batched inducing points
    if s == "IndepMT" and bx and not (bz or bv or bk):
        return False  # documented: one batch dimension of the base strategy is the task dimension
    if c["q"] == "prior" and dist == "MeanField" and (s == "Grid" or (s == "Unwhitened" and M > 1)):
        return False  # a dense prior is not a mean-field distribution
    if c["q"] == "prior" and not bv and ((s == "Unwhitened" and (bz or bk)) or (s == "Grid" and bk)):
        return False  # p(u) is batched through Z / the kernel: q(u) = p(u) needs batched variational parameters
    return True


def cells(tier, seed):
    bsizes = [2] if tier == "quick" else [2, 3]
    jits = ["default"] if tier == "quick" else ["default", "arg"]
    shapes = SHAPES if tier == "quick" else SHAPES + [(2, 2, 1), (5, 6, 3)]
    pats = sorted(itertools.product([0, 1], repeat=4), key=lambda p: (sum(p), p))
    out = []
    for jit, b, shape, pat in itertools.product(jits, bsizes, shapes, pats):
        if b != bsizes[0] and not any(pat):
            continue
        for s, dist, q, mode in itertools.product(STRATS, DISTS, ["prior", "generic"], ["eval", "train"]):
            c = {"strategy": s, "dist": dist, "pat": [b * p for p in pat], "shape": list(shape), "q": q, "mode": mode, "jit": jit}
            if valid(c):
                out.append(c)
    # the jitter chosen by the global setting at the time of the evaluation (the model is built and first called outside the block)
    for shape in (shapes if tier == "thorough" else shapes[:1]):
        for s, dist, q, mode in itertools.product(STRATS, DISTS, ["prior", "generic"], ["eval", "train"]):
            c = {"strategy": s, "dist": dist, "pat": [0, 0, 0, 0], "shape": list(shape), "q": q, "mode": mode, "jit": "setting"}
            if valid(c):
                out.append(c)
    for (T, b, n), mode in itertools.product([(3, 2, 4), (3, 3, 3), (2, 1, 3)], ["eval", "train"]):
        out.append({"what": "taskdim", "T": T, "b": b, "n": n, "mode": mode})
    for s, mode in itertools.product(["Grid", "Variational", "Unwhitened"], ["eval", "train"]):
        out.append({"what": "x1", "strategy": s, "mode": mode})
    for s, dist in sorted(ILLEGAL):
        out.append({"strategy": s, "dist": dist, "pat": [0, 0, 0, 0], "shape": [3, 4, 1], "q": "generic", "mode": "eval",
                    "jit": "default", "expect": "refusal"})
    return out


# ----------------------------------------------------------------------------------------------------------------------
class VModel(gpytorch.models.ApproximateGP):
    def __init__(self, make_strategy, kb, d):
        super().__init__(make_strategy(self))
        kb = torch.Size(kb)
        self.mean_module = gpytorch.means.LinearMean(d, batch_shape=kb)
        self.covar_module = gpytorch.kernels.ScaleKernel(gpytorch.kernels.RBFKernel(ard_num_dims=d, batch_shape=kb), batch_shape=kb)

    def forward(self, x):
        return MultivariateNormal(self.mean_module(x), self.covar_module(x))


def set_hypers(model, g, kb, d):
    with torch.no_grad():
        model.covar_module.base_kernel.lengthscale = 0.35 + 0.3 * util.rand(g, *kb, 1, d)
        model.covar_module.outputscale = 0.6 + torch.rand(tuple(kb), generator=g, dtype=F64)
        model.mean_module.weights.copy_(0.5 * util.randn(g, *kb, d, 1))
        model.mean_module.bias.copy_(util.randn(g, *kb, 1))


def inducing(g, batch, M, d):
    """well separated along the first coordinate (conditioning under control), generic otherwise"""
    Z = util.rand(g, *batch, M, d)
    Z[..., 0] = (torch.arange(M, dtype=F64) + 0.2 + 0.6 * Z[..., 0]) / M
    return Z


def generic_params(kind, g, batch, M):
    # off-diagonal scale shrinks with M so that triangular factors of large grids stay well conditioned
    tri = torch.tril(0.3 * min(1.0, 2.0 / math.sqrt(M)) * util.randn(g, *batch, M, M), -1)
    if kind == "Cholesky":
        # the upper triangle is documented as ignored: fill it with junk
        junk = torch.triu(util.randn(g, *batch, M, M), 1)
        return {"mean": 0.7 * util.randn(g, *batch, M), "chol": tri + torch.diag_embed(0.5 + util.rand(g, *batch, M)) + junk}
    if kind == "MeanField":
        return {"mean": 0.7 * util.randn(g, *batch, M), "std": 0.3 + util.rand(g, *batch, M)}
    if kind == "Delta":
        return {"mean": 0.7 * util.randn(g, *batch, M)}
    if kind == "Natural":
        return {"nat_vec": util.randn(g, *batch, M), "nat_mat": -0.5 * util.spd(g, *batch, M)}
    if kind == "TrilNatural":
        return {"nat_vec": util.randn(g, *batch, M), "tril": tri + torch.diag_embed(0.7 + util.rand(g, *batch, M))}
    raise AssertionError(kind)


def set_vd(vd, kind, P):
    with torch.no_grad():
        if kind == "Cholesky":
            vd.variational_mean.copy_(P["mean"])
            vd.chol_variational_covar.copy_(P["chol"])
        elif kind == "MeanField":
            vd.variational_mean.copy_(P["mean"])
            vd._variational_stddev.copy_(P["std"])
        elif kind == "Delta":
            vd.variational_mean.copy_(P["mean"])
        elif kind == "Natural":
            vd.natural_vec.copy_(P["nat_vec"])
            vd.natural_mat.copy_(P["nat_mat"])
        elif kind == "TrilNatural":
            vd.natural_vec.copy_(P["nat_vec"])
            vd.natural_tril_mat.copy_(P["tril"])
        else:
            raise AssertionError(kind)


def expand_P(P, batch):
    ev = {"chol": 2, "nat_mat": 2, "tril": 2}
    return {k: v.expand(*batch, *v.shape[-ev.get(k, 1):]).clone() for k, v in P.items()}


def bshape(*shapes):
    return tuple(torch.broadcast_shapes(*[tuple(s) for s in shapes]))


def prior_terms(model, Z, X):
    """one eager evaluation of the model's own kernel and mean on [Z; X] (same batch shape)"""
    M = Z.shape[-2]
    full = torch.cat([Z, X], -2)
    with torch.no_grad():
        K = model.covar_module(full).to_dense()
        mu = model.mean_module(full)
    return K[..., :M, :M], K[..., M:, :M], K[..., M:, M:], mu[..., :M], mu[..., M:]


def eye(n):
    return torch.eye(n, dtype=F64)


# ----------------------------------------------------------------------------------------------------------------------
class Case:
    """one cell: the real model, the sites whose variational parameters are set, and the reference"""

    def __init__(self, cell, g):
        self.cell, self.g = cell, g
        self.s, self.kind = cell["strategy"], cell["dist"]
        self.bz, self.bv, self.bk, self.bx = [((b,) if b else ()) for b in cell["pat"]]
        self.M, self.n, self.d = cell["shape"]
        self.jit = JIT_DEFAULT if cell["jit"] == "default" else 1e-4
        self.jkw = {"jitter_val": self.jit} if cell["jit"] == "arg" else {}
        self.ops = 0
        getattr(self, "build_" + {"BatchDecoupledMV": "BatchDecoupled"}.get(self.s, self.s))()

    # -- builders: self.model, self.X (call argument), self.sites = [(module, kind, batch, M, role)]
    def _plain_strategy(self, cls, model, Z, vd):
        return cls(model, Z, vd, learn_inducing_locations=True, **self.jkw)

    def build_plain(self, cls):
        g, M, n, d = self.g, self.M, self.n, self.d
        self.Z = inducing(g, self.bz, M, d)
        self.X = util.rand(g, *self.bx, n, d)
        vd = DIST_CLS[self.kind](M, batch_shape=torch.Size(self.bv))
        self.model = VModel(lambda m: self._plain_strategy(cls, m, self.Z, vd), self.bk, d)
        set_hypers(self.model, g, self.bk, d)
        self.sites = [(vd, self.kind, self.bv, M, "q")]
        self.B = bshape(self.bz, self.bv, self.bk, self.bx)

    def build_Variational(self):
        self.build_plain(V.VariationalStrategy)

    def build_Unwhitened(self):
        self.build_plain(V.UnwhitenedVariationalStrategy)

    def build_CIQ(self):
        self.build_plain(V.CiqVariationalStrategy)

    def build_BatchDecoupled(self):
        g, M, n, d = self.g, self.M, self.n, self.d
        mv = self.s == "BatchDecoupledMV"
        Z0 = inducing(g, self.bz, M, d)
        self.Zpair = torch.stack([Z0, inducing(g, self.bz, M, d)], -3)  # ... x 2 x M x d: set 0 (mean), set 1 (covariance)
        self.X = util.rand(g, *self.bx, n, d)
        vd = DIST_CLS[self.kind](M, batch_shape=torch.Size(self.bv))
        kw = dict(self.jkw, mean_var_batch_dim=-1) if mv else dict(self.jkw)
        # documented kernel batch shapes: b1 x 2 (separate mean / variance hypers), b1 x 1 or none (shared)
        self.kb = (self.bk + (2,)) if mv else ((self.bk + (1,)) if self.bk else ())
        self.model = VModel(lambda m: V.BatchDecoupledVariationalStrategy(m, Z0, vd, learn_inducing_locations=True, **kw), self.kb, d)
        set_hypers(self.model, g, self.kb, d)
        vs = self.model.variational_strategy
        assert tuple(vs.inducing_points.shape) == tuple(self.Zpair.shape), (vs.inducing_points.shape, self.Zpair.shape)
        with torch.no_grad():
            vs.inducing_points.copy_(self.Zpair)  # learnable parameter: the two inducing sets differ after training
        self.sites = [(vd, self.kind, self.bv, M, "q")]
        self.B = bshape(self.bz, self.bv, self.bk, self.bx)

    def build_OrthDecoupled(self):
        g, M, n, d = self.g, self.M, self.n, self.d
        self.Mb = M + 1
        self.Z = inducing(g, self.bz, M, d)
        self.Zb = inducing(g, self.bz, self.Mb, d)
        self.X = util.rand(g, *self.bx, n, d)
        vd = DIST_CLS[self.kind](M, batch_shape=torch.Size(self.bv))
        vdm = V.DeltaVariationalDistribution(self.Mb, batch_shape=torch.Size(self.bv))

        def mk(m):
            base = V.VariationalStrategy(m, self.Z, vd, learn_inducing_locations=True, **self.jkw)
            return V.OrthogonallyDecoupledVariationalStrategy(base, self.Zb, vdm, **self.jkw)

        self.model = VModel(mk, self.bk, d)
        set_hypers(self.model, g, self.bk, d)
        self.sites = [(vd, self.kind, self.bv, M, "q"), (vdm, "Delta", self.bv, self.Mb, "a")]
        self.B = bshape(self.bz, self.bv, self.bk, self.bx)

    def build_Grid(self):
        g, n, d = self.g, self.n, self.d
        self.G = GRID_OF_M[self.M]
        self.Mg = self.G ** d
        self.X = 0.25 + 0.5 * util.rand(g, *self.bx, n, d)
        vd = DIST_CLS[self.kind](self.Mg, batch_shape=torch.Size(self.bv))
        self.model = VModel(lambda m: V.GridInterpolationVariationalStrategy(m, self.G, [(0.0, 1.0)] * d, vd), self.bk, d)
        set_hypers(self.model, g, self.bk, d)
        self.sites = [(vd, self.kind, self.bv, self.Mg, "q")]
        self.B = bshape(self.bv, self.bk, self.bx)

    def _wrapped(self, L):
        """base VariationalStrategy over a trailing latent / task batch dimension of size L"""
        g, M, n, d = self.g, self.M, self.n, self.d
        self.L = L
        self.zb = (L,) if self.bz else ()
        self.kb = (L,) if self.bk else ()
        self.X = util.rand(g, *(self.bx + (1,) if self.bx else ()), n, d)  # data batch is an outer dimension
        self.Z = inducing(g, self.zb, M, d)

    def build_LMC(self):
        self._wrapped(NUM_LATENTS)
        self.vb = (self.L,) if self.bv else (1,)  # the constructor accepts a latent dimension of size 1 (shared parameters)
        vd = DIST_CLS[self.kind](self.M, batch_shape=torch.Size(self.vb))

        def mk(m):
            base = V.VariationalStrategy(m, self.Z, vd, learn_inducing_locations=True, **self.jkw)
            return V.LMCVariationalStrategy(base, num_tasks=LMC_TASKS, num_latents=self.L, latent_dim=-1, **self.jkw)

        self.model = VModel(mk, self.kb, self.d)
        set_hypers(self.model, self.g, self.kb, self.d)
        self.coef = util.randn(self.g, *self.vb, LMC_TASKS)
        with torch.no_grad():
            self.model.variational_strategy.lmc_coefficients.copy_(self.coef)
        self.sites = [(vd, self.kind, self.vb, self.M, "q")]
        self.B = bshape(self.zb, self.vb, self.kb, self.X.shape[:-2])

    def build_IndepMT(self):
        self._wrapped(2)
        self.vb = (self.L,) if self.bv else ()
        vd = DIST_CLS[self.kind](self.M, batch_shape=torch.Size(self.vb))

        def mk(m):
            base = V.VariationalStrategy(m, self.Z, vd, learn_inducing_locations=True, **self.jkw)
            return V.IndependentMultitaskVariationalStrategy(base, num_tasks=self.L)

        self.model = VModel(mk, self.kb, self.d)
        set_hypers(self.model, self.g, self.kb, self.d)
        self.sites = [(vd, self.kind, self.vb, self.M, "q")]
        self.B = bshape(self.zb, self.vb, self.kb, self.X.shape[:-2])

    # -- parameters of q
    def choose_params(self):
        """variational parameters per site: generic values, or the parameters that encode the prior (q = 'prior')"""
        self.P = {}
        for vd, kind, batch, M, role in self.sites:
            if self.cell["q"] == "generic":
                self.P[role] = generic_params(kind, self.g, batch, M)
                continue
            if role == "a":
                self.P[role] = {"mean": torch.zeros(*batch, M, dtype=F64)}
            elif self.s in WHITENED:
                self.P[role] = RV.params_for(kind, torch.zeros(*batch, M, dtype=F64), eye(M).expand(*batch, M, M))
            else:
                # unwhitened strategies: p(u) depends on the kernel; the variational batch must then carry the prior's batch
                if self.s == "Grid":
                    Zg = self.model.variational_strategy.inducing_points.detach()
                    Kzz, _, _, mz, _ = prior_terms(self.model, Zg, Zg[:1])
                    C = RV.add_jitter(Kzz, JIT_PRIOR)
                else:
                    pb = bshape(self.bz, self.bk)
                    Zp = self.Z.expand(*pb, M, self.d)
                    Kzz, _, _, mz, _ = prior_terms(self.model, Zp, Zp[..., :1, :])
                    C = RV.add_jitter(Kzz, self.jit)  # the matrix the strategy conditions on
                if len(Kzz.shape[:-2]) > len(batch):
                    raise util.Skip()  # q = prior not representable with this variational batch shape
                self.P[role] = expand_P(RV.params_for(kind, mz, C), batch)
        for vd, kind, batch, M, role in self.sites:
            set_vd(vd, kind, self.P[role])

    # -- references: dict(mean, cov, kl, prior_mean, prior_cov, kl_zero) for the cell's mode
    def q_moments(self, role="q"):
        kind = [k for (_, k, _, _, r) in self.sites if r == role][0]
        return RV.moments(kind, self.P[role])

    def reference(self, mode):
        return getattr(self, "ref_" + {"BatchDecoupledMV": "BatchDecoupled", "Variational": "plain", "Unwhitened": "plain",
                                       "CIQ": "plain"}.get(self.s, self.s))(mode)

    def ref_plain(self, mode):
        B, M, n, d = self.B, self.M, self.n, self.d
        Zb, Xb = self.Z.expand(*B, M, d), self.X.expand(*B, n, d)
        Kzz, Kxz, Kxx, mz, mx = prior_terms(self.model, Zb, Xb)
        Ktz = RV.add_jitter(Kzz, self.jit)
        m, Sq = self.q_moments()
        if self.s == "Unwhitened":
            m_u, S_u = m, Sq
            # p(u) = N(mz, Kzz + jitter I) with the SAME jitter in both modes and whether or not a forward call came first (a first version of
            # this reference mirrored the 1e-3 default of `add_jitter()` that `prior_distribution` used in evaluation mode; that was the library's
            # defect, found by a bug-hunting sub-agent, not a convention of the property; the one-line repair makes the pinned example test
            # test_simple_gp_classification fail - its optimisation relies on the larger jitter - so it is recorded as a known finding)
            kl = RV.kl_q_p(m, Sq, mz, RV.add_jitter(Kzz, self.jit))
            mean, cov = RV.predictive(Kxx, Kxz, Ktz, mx, mz, m_u, S_u)
            return dict(mean=mean, cov=cov, kl=kl, prior_mean=mx, prior_cov=Kxx, kl_zero=True,
                        kl_alt=(RV.kl_q_p(m, Sq, mz, RV.add_jitter(Kzz, JIT_PRIOR)), "(= KL against N(mz, Kzz + 1e-3 I): the default of add_jitter() "
                                "instead of the strategy's jitter)"))
        R = RV.whitening_factor(Ktz, "sym" if self.s == "CIQ" else "chol")
        m_u, S_u = RV.unwhiten(mz, R, m, Sq)
        kl = RV.kl_q_p(m, Sq, torch.zeros(M, dtype=F64), eye(M))
        mean, cov = RV.predictive(Kxx, Kxz, Ktz, mx, mz, m_u, S_u)
        alt = None
        if self.s == "CIQ":
            alt = dict(mean=mean, cov=cov + 2 * self.jit * eye(n), prior_cov=Kxx + 2 * self.jit * eye(n), text="(= closed form with the jitter added twice to the diagonal of Kxx)")
        return dict(mean=mean, cov=cov + self.jit * eye(n), kl=kl, prior_mean=mx, prior_cov=Kxx + self.jit * eye(n), kl_zero=True,
                    q_u=(m_u, S_u), alt=alt)

    def ref_BatchDecoupled(self, mode):
        B, M, n, d = self.B, self.M, self.n, self.d
        Zp = self.Zpair.expand(*B, 2, M, d)
        Xp = self.X.unsqueeze(-3).expand(*B, 2, n, d)
        Kzz, Kxz, Kxx, mz, mx = prior_terms(self.model, Zp, Xp)  # batch B x 2: index 0 = mean GP, 1 = covariance GP

        def sel(t, i, ev):
            return t.select(-1 - ev, i)

        m, Sq = self.q_moments()
        out = []
        for i in (0, 1):
            Ktz = RV.add_jitter(sel(Kzz, i, 2), self.jit)
            m_u, S_u = RV.unwhiten(sel(mz, i, 1), RV.whitening_factor(Ktz), m, Sq)
            out.append(RV.predictive(sel(Kxx, i, 2), sel(Kxz, i, 2), Ktz, sel(mx, i, 1), sel(mz, i, 1), m_u, S_u))
        zero, I = torch.zeros(M, dtype=F64), eye(M)
        kl = RV.kl_q_p(m, None, zero, I) + RV.kl_q_p(torch.zeros_like(m), Sq, zero, I)
        mean, cov = out[0][0], out[1][1] + self.jit * eye(n)
        alt = None
        if B == (2,) and self.bx and not (self.bz or self.bv or self.bk):
            alt = dict(mean=mean[0], cov=cov[1], text="(= mean of data-batch element 0 with the covariance of data-batch element 1: "
                       "a data batch of size 2 is taken for the mean / variance dimension)")
        return dict(mean=mean, cov=cov, kl=kl, prior_mean=sel(mx, 0, 1), prior_cov=sel(Kxx, 1, 2) + self.jit * eye(n), kl_zero=False,
                    alt=alt)

    def ref_OrthDecoupled(self, mode):
        B, M, n, d, Mb = self.B, self.M, self.n, self.d, self.Mb
        Zb = self.Z.expand(*B, M, d)
        XZ = torch.cat([self.X.expand(*B, n, d), self.Zb.expand(*B, Mb, d)], -2)
        Kzz, Kqz, Kqq, mz, mq = prior_terms(self.model, Zb, XZ)
        Ktz = RV.add_jitter(Kzz, self.jit)
        m, Sq = self.q_moments()
        a = self.P["a"]["mean"]
        m_u, S_u = RV.unwhiten(mz, RV.whitening_factor(Ktz), m, Sq)
        bm, bc = RV.predictive(Kqq, Kqz, Ktz, mq, mz, m_u, S_u)
        bc = bc + self.jit * eye(n + Mb)  # the base strategy's q(f) on [X; Zb]
        mean = bm[..., :n] + RV.matvec(bc[..., :n, n:], a)
        Cbb = bc[..., n:, n:] + (self.jit if mode == "eval" else 0.0) * eye(Mb)
        kl = RV.kl_q_p(m, Sq, torch.zeros(M, dtype=F64), eye(M)) + 0.5 * (a * RV.matvec(Cbb, a)).sum(-1)
        return dict(mean=mean, cov=bc[..., :n, :n], kl=kl, prior_mean=mq[..., :n], prior_cov=Kqq[..., :n, :n] + self.jit * eye(n),
                    kl_zero=True)

    def ref_Grid(self, mode):
        B, n, d, G, Mg = self.B, self.n, self.d, self.G, self.Mg
        vs = self.model.variational_strategy
        Zg = vs.inducing_points.detach()
        # documented construction: grid_size nodes per dimension from lo - diff to hi + diff, diff = (hi - lo) / (grid_size - 2)
        diff = 1.0 / (G - 2)
        nodes = torch.linspace(0.0 - diff, 1.0 + diff, G, dtype=F64)
        h = torch.full((d,), float(nodes[1] - nodes[0]), dtype=F64)
        want_nodes = sorted(tuple(round(float(v), 9) for v in p) for p in itertools.product(nodes.tolist(), repeat=d))
        got_nodes = sorted(tuple(round(float(v), 9) for v in row) for row in Zg.tolist())
        self.grid_ok = want_nodes == got_nodes
        Xb = self.X.expand(*B, n, d)
        W = RV.keys_interp_matrix(Xb, Zg, h)
        Kzz, _, _, mz, _ = prior_terms(self.model, Zg.expand(*B, Mg, d), Xb)
        m, Sq = self.q_moments()
        kl = RV.kl_q_p(m, Sq, mz, RV.add_jitter(Kzz, JIT_PRIOR))
        alt = None
        if d > 1:
            Wr = RV.keys_interp_matrix(Xb, Zg.flip(-1), h)
            alt = dict(mean=RV.matvec(Wr, m), cov=Wr @ Sq @ Wr.mT,
                       text="(= W' q(u) with W' interpolating from the inducing points with their coordinate order reversed)")
        return dict(mean=RV.matvec(W, m), cov=W @ Sq @ W.mT, kl=kl, prior_mean=None, prior_cov=None, kl_zero=True, alt=alt)

    def _latent(self):
        """per-latent q(g) of the whitened base strategy on the broadcast batch B (last dimension = latent / task)"""
        B, M, n, d = self.B, self.M, self.n, self.d
        Zb, Xb = self.Z.expand(*B, M, d), self.X.expand(*B, n, d)
        Kzz, Kxz, Kxx, mz, mx = prior_terms(self.model, Zb, Xb)
        Ktz = RV.add_jitter(Kzz, self.jit)
        m, Sq = self.q_moments()
        m_u, S_u = RV.unwhiten(mz, RV.whitening_factor(Ktz), m, Sq)
        mean, cov = RV.predictive(Kxx, Kxz, Ktz, mx, mz, m_u, S_u)
        kl = RV.kl_q_p(m, Sq, torch.zeros(M, dtype=F64), eye(M))
        return mean, cov + self.jit * eye(n), kl, mx, Kxx + self.jit * eye(n)

    def ref_LMC(self, mode):
        n, T = self.n, LMC_TASKS
        mean, cov, kl, mx, Kxx = self._latent()  # B = (..., Q)
        A = self.coef.expand(*self.B, T)  # (..., Q, T)
        mt_mean = torch.einsum("...qi,...qt->...it", mean.expand(*self.B, n), A)
        pm = torch.einsum("...qi,...qt->...it", mx.expand(*self.B, n), A)
        jit4 = self.jit * torch.einsum("ij,ab->iajb", eye(n), eye(T))
        C4 = torch.einsum("...qij,...qa,...qb->...iajb", cov.expand(*self.B, n, n), A, A) + jit4
        P4 = torch.einsum("...qij,...qa,...qb->...iajb", Kxx.expand(*self.B, n, n), A, A) + jit4
        kl_ok = bool(self.bv)
        return dict(mean=mt_mean, cov4=C4, kl=kl.expand(self.B).sum(-1) if kl_ok else None, prior_mean=pm, prior_cov4=P4, kl_zero=kl_ok)

    def ref_IndepMT(self, mode):
        n, T = self.n, self.L
        mean, cov, kl, mx, Kxx = self._latent()
        if self.B == ():
            # no task dimension anywhere: documented fallback = T independent copies of the same GP
            rep = lambda t: t.unsqueeze(0).expand(T, *t.shape)  # noqa: E731
            mean, cov, mx, Kxx = rep(mean), rep(cov), rep(mx), rep(Kxx)
            B = (T,)
            kl_ref = kl
        else:
            B = self.B
            kl_ref = kl.expand(B).sum(-1) if self.bv else None
        I = eye(T)
        mt_mean = mean.expand(*B, n).movedim(-2, -1)
        C4 = torch.einsum("...tij,ta,tb->...iajb", cov.expand(*B, n, n), I, I)
        P4 = torch.einsum("...tij,ta,tb->...iajb", Kxx.expand(*B, n, n), I, I)
        return dict(mean=mt_mean, cov4=C4, kl=kl_ref, prior_mean=mx.expand(*B, n).movedim(-2, -1), prior_cov4=P4, kl_zero=kl_ref is not None)


# ----------------------------------------------------------------------------------------------------------------------
def bcheck(fails, sub, got, want, tol, detail=""):
    """compare after broadcasting both sides to their common shape (a result repeated over a batch dimension is the same result)"""
    got = util.dense(got)
    try:
        shp = torch.broadcast_shapes(got.shape, want.shape)
    except RuntimeError:
        fails.add(sub, f"shape {tuple(got.shape)} does not broadcast with the reference's {tuple(want.shape)}", detail)
        return False
    ok = fails.check_close(sub, got.expand(shp), want.expand(shp), tol, tol, detail)
    if not ok and tuple(got.shape) != tuple(want.shape):
        fails[-1]["detail"] = f"[returned shape {tuple(got.shape)}, reference {tuple(want.shape)}] " + fails[-1]["detail"]
    return ok


def note(fails, text):
    """characterise the wrong value of the fail just recorded"""
    fails[-1]["symptom"] += " " + text


def same(a, b, tol):
    a = util.dense(a)
    try:
        shp = torch.broadcast_shapes(a.shape, b.shape)
    except RuntimeError:
        return False
    return util.close(a.expand(shp), b.expand(shp), tol, tol)[0]


def cov4_of(out, n, T):
    """covariance of a MultitaskMultivariateNormal as C[..., i, a, j, b] (point i task a, point j task b)"""
    C = out.covariance_matrix
    b = C.shape[:-2]
    if getattr(out, "_interleaved", True):
        return C.reshape(*b, n, T, n, T)
    return C.reshape(*b, T, n, T, n).permute(*range(len(b)), len(b) + 1, len(b), len(b) + 3, len(b) + 2)


def ciq_context(st):
    for c in (S.num_contour_quadrature(30), S.minres_tolerance(1e-10), S.cg_tolerance(1e-12), S.eval_cg_tolerance(1e-12),
              S.max_cg_iterations(400)):
        st.enter_context(c)


def run_taskdim(cell, seed):
    """IndependentMultitaskVariationalStrategy(task_dim=-2) over a base strategy with batch shape (T, b): the wrapper only re-arranges the latent
    q(f) of the base strategy (whose value the other cells decide): all-task output, per-point task selection (task_indices), and the KL summed
    over the TASK dimension. Differential oracle: the base strategy's own output."""
    fails = Fails()
    T, b, n = cell["T"], cell["b"], cell["n"]
    M, d = 3, 1
    feats = {"strategy": "IndepMT-taskdim", "dist": "Cholesky", "T": T, "b": b, "n": n, "mode": cell["mode"], "q": "generic", "jit": "default"}
    g = util.gen(seed, "c14td|" + util.jdump(cell))
    util.own_rng(seed, "c14td-lib|" + util.jdump(cell))
    Z = inducing(g, (T, b), M, d)
    vd = V.CholeskyVariationalDistribution(M, batch_shape=torch.Size([T, b]))

    def mk(m):
        base = V.VariationalStrategy(m, Z, vd, learn_inducing_locations=True)
        return V.IndependentMultitaskVariationalStrategy(base, num_tasks=T, task_dim=-2)

    model = VModel(mk, (T, b), d)
    set_hypers(model, g, (T, b), d)
    X = util.rand(g, n, d)
    model.train()
    with torch.no_grad():
        model(X)
        vd.variational_mean.copy_(util.randn(g, T, b, M))
        A = 0.4 * util.randn(g, T, b, M, M)
        vd.chol_variational_covar.copy_(torch.tril(A) + torch.diag_embed(0.6 + util.rand(g, T, b, M)))
    model.train(cell["mode"] == "train")
    vs = model.variational_strategy
    with torch.no_grad():
        with fails.guard("taskdim-all"):
            out = model(X)
            lat = vs.base_variational_strategy(X)                       # batch (T, b): the latent q(f)
            lm, lc = lat.mean, lat.covariance_matrix                     # (T, b, n), (T, b, n, n)
            bcheck(fails, "taskdim-all", out.mean, lm.permute(1, 2, 0), 1e-10, "all-task mean != latent means arranged b x n x T")
            C4 = cov4_of(out, n, T)                                       # (b, n, T, n, T)
            want4 = torch.einsum("tbij,tu,tv->biujv", lc, torch.eye(T, dtype=F64), torch.eye(T, dtype=F64))
            bcheck(fails, "taskdim-all", C4, want4, 1e-10, "all-task covariance != block diagonal over tasks of the latent covariances")
        with fails.guard("taskdim-kl"):
            kl = vs.kl_divergence()
            want = vs.base_variational_strategy.kl_divergence().sum(0)   # summed over the task dimension: one value per batch member
            if tuple(kl.shape) != tuple(want.shape):
                fails.add("taskdim-kl", f"kl_divergence() has shape {tuple(kl.shape)}, want {tuple(want.shape)} (the KL of the T tasks summed, per batch member)")
            else:
                bcheck(fails, "taskdim-kl", kl, want, 1e-10, "kl_divergence() != sum over the task dimension of the latent KLs")
        with fails.guard("taskdim-indices"):
            ti = torch.tensor([(i * 2 + 1) % T for i in range(n)])
            out = model(X, task_indices=ti)
            idx = torch.arange(n)
            wm = lm[ti, :, idx].transpose(0, 1)                                              # (b, n)
            wc = lc[ti][:, :, idx, :][..., idx]                                               # placeholder, replaced below
            wc = torch.stack([torch.stack([lc[ti[i], :, i, j] * float(ti[i] == ti[j]) for j in range(n)], -1) for i in range(n)], -2)  # (b, n, n)
            bcheck(fails, "taskdim-indices", out.mean, wm, 1e-10, "task_indices mean != latent mean of the selected task at each point")
            bcheck(fails, "taskdim-indices", out.covariance_matrix, wc, 1e-10, "task_indices covariance != latent covariance within a task, 0 across tasks")
    for f in fails:
        f["features"] = dict(feats, what=f["sub"])
    return {"fails": _dedupe(fails), "sig": "taskdim:" + ",".join(sorted({f["sub"] for f in fails})), "features": feats, "ops": 4, "nontrivial": True}


def run_singleton_batch(cell, seed):
    """inputs with a size-1 batch dimension broadcast against batched variational parameters exactly like inputs without it (differential
    oracle: the same strategy on the un-batched inputs, whose value the lattice cells decide)"""
    fails = Fails()
    s = cell["strategy"]
    feats = {"strategy": s + "-x1", "dist": "Cholesky", "mode": cell["mode"], "q": "generic", "jit": "default"}
    g = util.gen(seed, "c14x1|" + util.jdump(cell))
    util.own_rng(seed, "c14x1-lib|" + util.jdump(cell))
    d, n, b = 1, 4, 3
    if s == "Grid":
        vd = V.CholeskyVariationalDistribution(8, batch_shape=torch.Size([b]))
        mk = lambda m: V.GridInterpolationVariationalStrategy(m, grid_size=8, grid_bounds=[(-0.2, 1.2)], variational_distribution=vd)  # noqa: E731
        Mq = 8
    else:
        cls = {"Variational": V.VariationalStrategy, "Unwhitened": V.UnwhitenedVariationalStrategy}[s]
        vd = V.CholeskyVariationalDistribution(3, batch_shape=torch.Size([b]))
        Z = inducing(g, (), 3, d)
        mk = lambda m: cls(m, Z, vd, learn_inducing_locations=True)  # noqa: E731
        Mq = 3
    model = VModel(mk, (), d)
    set_hypers(model, g, (), d)
    X = util.rand(g, n, d)
    model.train()
    with torch.no_grad():
        model(X)
        vd.variational_mean.copy_(util.randn(g, b, Mq))
        A = 0.3 * util.randn(g, b, Mq, Mq)
        vd.chol_variational_covar.copy_(torch.tril(A) + torch.diag_embed(0.6 + util.rand(g, b, Mq)))
    model.train(cell["mode"] == "train")
    with torch.no_grad():
        with fails.guard("singleton-input-batch"):
            want = model(X)
            wm, wc = want.mean.clone(), want.covariance_matrix.clone()
            model.train(cell["mode"] == "train")
            got = model(X.unsqueeze(0))
            bcheck(fails, "singleton-input-batch", got.mean, wm, 1e-10, "q(f) at inputs 1 x n x d != q(f) at the same inputs n x d (mean)")
            bcheck(fails, "singleton-input-batch", got.covariance_matrix, wc, 1e-10, "q(f) at inputs 1 x n x d != q(f) at n x d (covariance)")
    for f in fails:
        f["features"] = dict(feats, what=f["sub"])
    return {"fails": _dedupe(fails), "sig": "x1:" + ",".join(sorted({f["sub"] for f in fails})), "features": feats, "ops": 2, "nontrivial": True}


def run_cell(cell, seed):
    if cell.get("what") == "taskdim":
        return run_taskdim(cell, seed)
    if cell.get("what") == "x1":
        return run_singleton_batch(cell, seed)
    fails = Fails()
    bz, bv, bk, bx = cell["pat"]
    M, n, d = cell["shape"]
    feats = {"strategy": cell["strategy"], "dist": cell["dist"], "bz": bz, "bv": bv, "bk": bk, "bx": bx, "M": M, "n": n, "d": d,
             "q": cell["q"], "mode": cell["mode"], "jit": cell["jit"], "pat": "".join(str(int(bool(b))) for b in cell["pat"])}
    g = util.gen(seed, "c14|" + util.jdump(cell))
    util.own_rng(seed, "c14-lib|" + util.jdump(cell))
    stage = _refusal(cell, g) if cell.get("expect") == "refusal" else _run(cell, g, fails)
    for f in fails:
        f["features"] = dict(feats, what=f["sub"])
    sig = stage + ":" + ",".join(sorted({f["sub"] for f in fails}))
    return {"fails": _dedupe(fails), "sig": sig, "features": feats, "ops": 6, "nontrivial": stage.startswith("ran")}


def _dedupe(fails):
    seen, out = set(), []
    for f in fails:
        k = (f["sub"], f["symptom"][:24])
        if k not in seen:
            seen.add(k)
            out.append(f)
    return out


def _refusal(cell, g):
    """illegal (strategy, distribution) pair: the documented refusal is an expected outcome; a silent acceptance is recorded, not failed"""
    try:
        case = Case(cell, g)
        case.model.eval()
        with torch.no_grad():
            case.model(case.X)
        return "accepted-undocumented-pair"
    except (NotImplementedError, RuntimeError) as e:
        return "refused-" + type(e).__name__


def _run(cell, g, fails):
    s, mode = cell["strategy"], cell["mode"]
    tol = 1e-5 if s == "CIQ" else 1e-9
    multitask = s in ("LMC", "IndepMT")
    with contextlib.ExitStack() as st, torch.no_grad():
        if s == "CIQ":
            ciq_context(st)
        with fails.guard("construct"):
            case = Case(cell, g)
        if fails:
            return "construct-failed"
        model = case.model
        vs = model.variational_strategy
        # first call: may (re)initialise the variational parameters from the prior
        with fails.guard("first-call"):
            model.train()
            model(case.X)
        stage = "ran"
        if fails:
            # the initialisation from the prior raised. Go on as a user who loads trained parameters would (the buffer is part of the
            # state_dict), so that q(f) and the KL of this configuration are still compared; the refusal itself stays reported.
            for mod in model.modules():
                if isinstance(getattr(mod, "_buffers", {}).get("variational_params_initialized"), torch.Tensor):
                    mod.variational_params_initialized.fill_(1)
            try:
                model.train()
                model(case.X)
            except Exception:
                return "first-call-failed"
            stage = "ran-after-init-refusal"
        if mode == "eval":
            # a mean-only evaluation under the initial parameters, followed by a correct eval -> train round trip, before the parameters
            # of the cell are written: whatever that call caches must not survive into the evaluation compared below
            try:
                model.eval()
                with gpytorch.settings.skip_posterior_variances(True):
                    model(case.X)
            except Exception:
                pass  # the mean-only call itself is judged at the end of the cell
            model.train()
        nf = len(fails)
        skipped = True
        with fails.guard("set-params"):
            case.choose_params()
            skipped = False
        if len(fails) > nf:
            return "set-params-failed"
        if skipped:
            return "q-not-representable"
        if cell["jit"] == "setting":
            st.enter_context(gpytorch.settings.variational_cholesky_jitter(double_value=case.jit))
        model.train(mode == "train")

        # every variational distribution returns exactly the moments its parameters encode
        for vd, kind, batch, Ms, role in case.sites:
            with fails.guard("dist-encodes"):
                qd = vd()
                em, eS = RV.moments(kind, case.P[role])
                bcheck(fails, "dist-encodes", qd.mean, em, 1e-9, f"{kind}: mean of q({role}) != the mean its parameters encode")
                if eS is not None:
                    bcheck(fails, "dist-encodes", qd.covariance_matrix, eS, 1e-9, f"{kind}: covariance != what its parameters encode")
                    bcheck(fails, "dist-encodes", qd.variance, eS.diagonal(dim1=-1, dim2=-2), 1e-9, f"{kind}: variance")

        out = kl = None
        with fails.guard("forward"):
            out = model(case.X)
        with fails.guard("kl-call"):
            if out is not None:
                kl = vs.kl_divergence()
        if out is None:
            return "forward-failed"
        ref = None
        with fails.guard("reference"):
            ref = case.reference(mode)
        if ref is None:
            return "reference-failed"
        if s == "Grid" and not case.grid_ok:
            fails.add("grid-nodes", "inducing points are not the Cartesian product of the documented grid nodes")

        nn = case.n
        is_prior = cell["q"] == "prior"
        delta = cell["dist"] == "Delta"
        alt = ref.get("alt")
        # ---- q(f)
        with fails.guard("qf-mean"):
            if not bcheck(fails, "qf-mean", out.mean, ref["mean"], tol, "mean != mX + Kxz Ktz^-1 (m_u - mz)"):
                if alt and same(out.mean, alt["mean"], tol):
                    note(fails, alt["text"])
            if is_prior and ref["prior_mean"] is not None:
                bcheck(fails, "prior-mean", out.mean, ref["prior_mean"], tol, "q(u) = p(u) but mean of q(f) != prior mean")
        if multitask:
            T = ref["mean"].shape[-1]
            with fails.guard("qf-var"):
                bcheck(fails, "qf-var", out.variance, torch.einsum("...iaia->...ia", ref["cov4"]), tol, "variances of the mixed q(f)")
            if mode == "eval":
                with fails.guard("qf-cov"):
                    bcheck(fails, "qf-cov", cov4_of(out, nn, T), ref["cov4"], tol, "covariance != sum_q Cov_q (x) a_q a_q^T")
                    if is_prior and not delta:
                        bcheck(fails, "prior-cov", cov4_of(out, nn, T), ref["prior_cov4"], tol, "q(u) = p(u) but cov of q(f) != mixed prior")
            # the Hadamard call mode: one task index per input -> a single-output Gaussian over the n (input, task_i) pairs
            with fails.guard("qf-task-indices"):
                if cell["pat"][3] or (s == "IndepMT" and not any(cell["pat"][:3])):
                    # batched inputs need a (... x N) index tensor; an independent-multitask wrapper around ONE shared latent GP has no
                    # task dimension to index (the library refuses): decided where the latent GPs carry the task / latent batch dimension
                    raise util.Skip()
                ti = torch.arange(nn) % T
                ot = model(case.X, task_indices=ti)
                ar = torch.arange(nn)
                wm = ref["mean"][..., ar, ti]
                wc = ref["cov4"][..., ar, ti, :, :][..., ar, ti] if False else ref["cov4"][..., ar[:, None], ti[:, None], ar[None, :], ti[None, :]]
                bcheck(fails, "qf-task-indices", ot.mean, wm, tol, "mean with task_indices != mean of the selected (input, task) pairs")
                bcheck(fails, "qf-task-indices", ot.variance, wc.diagonal(dim1=-1, dim2=-2), tol, "variance with task_indices")
                if mode == "eval":
                    bcheck(fails, "qf-task-indices", ot.covariance_matrix, wc, tol,
                           "covariance with task_indices != covariance between the selected (input, task) pairs")
        else:
            with fails.guard("qf-var"):
                if not bcheck(fails, "qf-var", out.variance, ref["cov"].diagonal(dim1=-1, dim2=-2), tol, "variance != diag of the closed form"):
                    if alt and same(out.variance, alt["cov"].diagonal(dim1=-1, dim2=-2), tol):
                        note(fails, alt["text"])
            if mode == "eval":
                with fails.guard("qf-cov"):
                    if not bcheck(fails, "qf-cov", out.covariance_matrix, ref["cov"], tol,
                                  "covariance != Kxx - Kxz Ktz^-1 (Ktz - S_u) Ktz^-1 Kzx"):
                        if alt and same(out.covariance_matrix, alt["cov"], tol):
                            note(fails, alt["text"])
                        elif same(out.covariance_matrix, torch.diag_embed(ref["cov"].diagonal(dim1=-1, dim2=-2)), tol):
                            note(fails, "(= diag of the closed form: the cross-covariances between the inputs are returned as 0)")
                    if is_prior and not delta and ref["prior_cov"] is not None:
                        if not bcheck(fails, "prior-cov", out.covariance_matrix, ref["prior_cov"], tol, "q(u) = p(u) but cov of q(f) != prior cov"):
                            if alt and "prior_cov" in alt and same(out.covariance_matrix, alt["prior_cov"], tol):
                                note(fails, alt["text"])
            elif is_prior and not delta and ref["prior_cov"] is not None:
                with fails.guard("prior-cov"):
                    if not bcheck(fails, "prior-cov", out.variance, ref["prior_cov"].diagonal(dim1=-1, dim2=-2), tol,
                                  "q(u) = p(u) but variances of q(f) != prior variances"):
                        if alt and "prior_cov" in alt and same(out.variance, alt["prior_cov"].diagonal(dim1=-1, dim2=-2), tol):
                            note(fails, alt["text"])
        # ---- KL
        if kl is not None and ref["kl"] is not None:
            with fails.guard("kl"):
                if not bcheck(fails, "kl", kl, ref["kl"], tol, "kl_divergence() != closed-form KL(q(u) || p(u))"):
                    if int(torch.count_nonzero(kl)) == 0:
                        note(fails, "(returned exactly 0)")
                    elif ref.get("kl_alt") is not None and same(kl, ref["kl_alt"][0], tol):
                        note(fails, ref["kl_alt"][1])
                if is_prior and not delta and ref["kl_zero"]:
                    if not bcheck(fails, "kl-zero", kl, torch.zeros((), dtype=F64), tol, "q(u) = p(u) but KL != 0"):
                        if ref.get("kl_alt") is not None and same(kl, ref["kl_alt"][0], tol):
                            note(fails, ref["kl_alt"][1])
        # ---- whitened == unwhitened for the same q(u)
        if s == "Variational" and cell["dist"] == "Cholesky" and "q_u" in ref:
            with fails.guard("whitened-vs-unwhitened"):
                _whitened_vs_unwhitened(cell, case, ref, out, fails, mode)
        # ---- the mean-only evaluation (skip_posterior_variances) is the same mean
        if mode == "eval":
            with fails.guard("qf-mean-only"):
                with gpytorch.settings.skip_posterior_variances(True):
                    o2 = model(case.X)
                bcheck(fails, "qf-mean-only", o2.mean, ref["mean"], tol, "mean under skip_posterior_variances != mX + Kxz Ktz^-1 (m_u - mz)")
    return stage


def _whitened_vs_unwhitened(cell, case, ref, out, fails, mode):
    """an UnwhitenedVariationalStrategy holding the same q(u) = N(mz + L m, L S L^T) must give the same q(f) (needs no formula for q(f))"""
    m_u, S_u = ref["q_u"]
    B = tuple(m_u.shape[:-1])
    M, d = case.M, case.d
    vd = V.CholeskyVariationalDistribution(M, batch_shape=torch.Size(B))
    Zb = case.Z.expand(*B, M, d) if len(B) >= len(case.bz) else case.Z
    um = VModel(lambda mm: V.UnwhitenedVariationalStrategy(mm, Zb, vd, learn_inducing_locations=True, **case.jkw), case.bk, d)
    um.load_state_dict({k: v for k, v in case.model.state_dict().items() if k.startswith(("mean_module", "covar_module"))}, strict=False)
    um.train()
    um(case.X)
    set_vd(vd, "Cholesky", {"mean": m_u.expand(*B, M), "chol": RV.chol(S_u).expand(*B, M, M)})
    um.train(mode == "train")
    uo = um(case.X)
    bcheck(fails, "whitened-vs-unwhitened", out.mean, uo.mean, 1e-9, "means differ for the same q(u)")
    n = case.n
    if mode == "eval":
        bcheck(fails, "whitened-vs-unwhitened", out.covariance_matrix - case.jit * eye(n), uo.covariance_matrix, 1e-9,
               "covariances differ for the same q(u) (whitened carries the documented + jitter I)")
    else:
        bcheck(fails, "whitened-vs-unwhitened", out.variance - case.jit, uo.variance, 1e-9, "variances differ for the same q(u)")
