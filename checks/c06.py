"""C06 — diag / transpose / lazy evaluation / indexing / active_dims of a kernel all agree (Engine G, index expressions exhaustive).

Oracle for indexing: index the dense result. kernel(x1,x2)[idx].to_dense() == kernel(x1,x2).to_dense()[idx], the dense matrix coming
from the eager path (lazily_evaluate_kernels off). Dense torch indexing is the judge of which expressions are valid; expressions that
select nothing are outside the domain.
"""
import itertools

import torch

import gpytorch
from gpytorch import kernels as K
from gpytorch import settings as S

from gpmc import util
from gpmc.util import Fails, F64

PROPERTY = "C06"
RULE = ("cells = kernel basis {RBF, Matern-ARD, Scale(RBF), RBF+Matern on different active_dims, RBF*Linear, Periodic, Multitask (2 outputs per "
        "input), RBFKernelGrad, Index x RBF product} x broadcastable (kernel batch, x1 batch, x2 batch) triples x active_dims {None,[0],[0,2]} x "
        "sub-check {relations: diag / transpose / lazy-vs-eager / stacked blocks / kernel[i] / expand_batch / repeat / mT / diagonal; indexing: "
        "row index expression x EVERY column index expression x batch index}; distinct = distinct (configuration, selected entries)")
ASSUMPTIONS = ["the eager dense matrix is the reference for the lazy one (C05 decides the values themselves)",
               "index tensors in one matrix dimension at a time together with slices/ints in the other; paired row/col tensors are also covered"]

BASIS = ["rbf", "matern_ard", "scale_rbf", "sum_ad", "prod", "periodic", "multitask", "rbfgrad", "rq", "rbfgrad_ard", "linear_ard", "kiss", "indexk", "hamming"]
DISCRETE = ("indexk", "hamming")
TRIPLES = [((), (), ()), ((2,), (2,), (2,)), ((), (2,), (2,)), ((2,), (), ()), ((), (2,), ()), ((2,), (1,), (2,)), ((2, 1), (1, 3), (2, 3)),
           ((), (1, 3), (2, 1)), ((3,), (2, 3), (3,)), ((2,), (2,), ()),
           ((2,), (1, 2), (1, 2)),   # the data carry an extra leading batch dimension of size one: the broadcast batch shape (1, 2) has as
           # many ELEMENTS as the kernel's own (2,) but is a different shape (wave 13: an `expand_batch` shortcut on numel())
           ((3,), (), ())]   # as many kernel batch members as points (n1 = 3): a b x n table of diagonals has the shape of an n x n matrix
D = 3


def make_kernel(name, kb, ad):
    bs = torch.Size(kb)
    kw = {"batch_shape": bs}
    if ad is not None:
        kw["active_dims"] = ad
    nd = D if ad is None else len(ad)
    if name == "rbf":
        return K.RBFKernel(**kw)
    if name == "matern_ard":
        return K.MaternKernel(nu=1.5, ard_num_dims=nd, **kw)
    if name == "scale_rbf":
        return K.ScaleKernel(K.RBFKernel(**kw), batch_shape=bs)
    if name == "sum_ad":  # sub-kernels restricted to different columns
        return K.RBFKernel(batch_shape=bs, active_dims=[0]) + K.MaternKernel(nu=2.5, batch_shape=bs, active_dims=[1, 2])
    if name == "prod":
        return K.RBFKernel(**kw) * K.LinearKernel(**kw)
    if name == "periodic":
        return K.PeriodicKernel(**kw)
    if name == "rq":
        return K.RQKernel(**kw)
    if name == "linear_ard":
        return K.LinearKernel(ard_num_dims=nd, **kw)
    if name == "kiss":  # a kernel that holds NON-batched buffers (its grid) next to batched parameters
        return K.GridInterpolationKernel(K.RBFKernel(batch_shape=bs), grid_size=12, grid_bounds=[(-6.0, 6.0)] * nd, **({"active_dims": ad} if ad is not None else {}))
    if name == "indexk":   # discrete inputs: task indices (n x 1 integer tensor)
        return K.IndexKernel(num_tasks=3, rank=2, batch_shape=bs)
    if name == "hamming":  # discrete inputs: one-hot encoded sequences (length 2 over a vocabulary of 3)
        return K.HammingIMQKernel(vocab_size=3, batch_shape=bs)
    if name == "multitask":
        return K.MultitaskKernel(K.RBFKernel(**kw), num_tasks=2, rank=1, batch_shape=bs)
    if name == "rbfgrad":
        return K.RBFKernelGrad(**kw)
    if name == "rbfgrad_ard":
        return K.RBFKernelGrad(ard_num_dims=nd, **kw)
    raise AssertionError(name)


def build(cell, seed):
    torch.manual_seed(util.seed_for(seed, "c06init"))
    ad = cell["ad"]
    k = make_kernel(cell["kernel"], tuple(cell["kb"]), ad)
    g = util.gen(seed, "c06|" + util.jdump({x: cell[x] for x in ("kernel", "kb", "x1b", "x2b", "ad")}))
    with torch.no_grad():
        for _, p in sorted(k.named_parameters()):
            p.copy_(0.5 * util.randn(g, *p.shape) if p.dim() else 0.5 * util.randn(g, 1)[0])
    n1, n2 = (2, 3) if cell.get("orient") == "wide" else (3, 2)
    x1 = util.randn(g, *cell["x1b"], n1, D)
    x2 = util.randn(g, *cell["x2b"], n2, D)
    if cell["kernel"] in DISCRETE:
        def disc(*shape):
            cat = (util.rand(g, *shape) * 3).long().clamp(0, 2)
            if cell["kernel"] == "indexk":
                return cat[..., :1]
            return torch.nn.functional.one_hot(cat[..., :2], 3).reshape(*shape[:-1], 6).to(F64)
        x1, x2 = disc(*cell["x1b"], n1, D), disc(*cell["x2b"], n2, D)
    if cell.get("orient") == "square":
        x1 = util.randn(g, *cell["x1b"], 4, D) if cell["kernel"] not in DISCRETE else disc(*cell["x1b"], 4, D)
        x2 = x1  # the SAME tensor on both sides (the joint train/test matrix of a GP is K(X, X) indexed into blocks)
    return k, x1, x2


def cells(tier, seed):
    out = []
    for kern, (kb, x1b, x2b), ad in itertools.product(BASIS, TRIPLES, [None, [0], [0, 2], [2, 0, 1]]):
        if ad == [2, 0, 1] and (kern not in ("matern_ard", "linear_ard", "rbfgrad_ard", "scale_rbf") or (tier == "quick" and (kb or x1b or x2b))):
            continue  # a permutation of all columns: only kernels with per-column parameters can tell (scale_rbf: inherited active_dims)
        if kern in ("sum_ad", "kiss") + DISCRETE and ad is not None:
            continue
        try:
            B = torch.broadcast_shapes(kb, x1b, x2b)
        except RuntimeError:
            continue
        if kern in ("rbfgrad", "rbfgrad_ard") and not (kb == x1b == x2b or (kb == () and x1b == x2b)):
            continue
        if tier == "quick" and len(B) > 1 and kern not in ("rbf", "scale_rbf", "sum_ad"):
            continue
        base = {"kernel": kern, "kb": list(kb), "x1b": list(x1b), "x2b": list(x2b), "ad": ad}
        out.append(dict(base, what="relations"))
        # indexing: one cell per row index expression (all column expressions inside)
        if tier == "quick" and (ad == [0] or kern in ("periodic", "rq", "prod", "rbfgrad_ard") or (ad is not None and kern != "rbf")
                                or (len(B) > 1 and kern != "rbf")):
            continue
        per_point = 2 if kern == "multitask" else (1 + (D if ad is None else len(ad))) if kern in ("rbfgrad", "rbfgrad_ard") else 1
        for ri in range(len(alpha(3 * per_point, tier))):
            out.append(dict(base, what="index", row=ri, tier=tier))
        # the other orientation (fewer rows than columns: n1 = 2 < n2 = 3), where a row/column mix-up in the slice arithmetic is not
        # hidden by clipping; quick: non-batched kernels without active_dims
        if len(B) == 0 and (tier == "thorough" or ad is None):
            for ri in range(len(alpha(2 * per_point, tier))):
                out.append(dict(base, what="index", row=ri, tier=tier, orient="wide"))
            # K(X, X) with the same tensor on both sides, four points: row and column selections that start at the same element but differ
            for ri in range(len(alpha(4 * per_point, tier))):
                out.append(dict(base, what="index", row=ri, tier=tier, orient="square"))
    return out


def alpha(size, tier):
    if tier == "quick":
        ends = [None, 1, -1, size + 1]
        steps = [None, 2]
        ints = sorted({-size, -1, 0, size - 1, 1 - size} & set(range(-size, size)))
    else:
        ends = [None, 0, 1, -1, size, size + 1]
        steps = [None, 2]
        ints = list(range(-size, size))
    A = [["int", i] for i in ints]
    A += [["slice", a, b, s] for a in ends for b in ends for s in steps]
    A += [["tensor", [0]], ["tensor", [size - 1, 0]], ["tensor", [0, 0, size - 1]]]
    A += [["tensor0", -1]]   # a 0-dim integer tensor is the int it stands for
    return A


def mkidx(e):
    if e[0] == "int":
        return e[1]
    if e[0] == "tensor0":
        return torch.tensor(e[1], dtype=torch.long)
    if e[0] == "slice":
        return slice(e[1], e[2], e[3])
    return torch.tensor(e[1], dtype=torch.long)


def run_cell(cell, seed):
    fails = Fails()
    feats = {"kernel": cell["kernel"], "kb": len(cell["kb"]), "bt": f"{cell['kb']}/{cell['x1b']}/{cell['x2b']}", "ad": str(cell["ad"]), "what": cell["what"]}
    try:
        k, x1, x2 = build(cell, seed)
        with S.lazily_evaluate_kernels(False), torch.no_grad():
            dense = k(x1, x2).to_dense()
    except Exception as e:
        return {"fails": [{"sub": "eager", "symptom": util.exc_str(e), "detail": "", "features": feats}], "sig": "eager-raises", "features": feats,
                "nontrivial": False}
    if cell["what"] == "relations":
        ops = relations(cell, k, x1, x2, dense, fails, feats, seed)
        for f in fails:
            f.setdefault("features", feats)
        return {"fails": fails, "sig": "rel:" + ",".join(sorted({f["sub"] for f in fails})), "features": feats, "ops": ops}
    return indexing(cell, k, x1, x2, dense, fails, feats)


def relations(cell, k, x1, x2, dense, fails, feats, seed):
    ops = 0
    kern = cell["kernel"]
    with torch.no_grad():
        with fails.guard("lazy-vs-eager"):
            lazy = k(x1, x2)
            fails.check_close("lazy-vs-eager", lazy.to_dense(), dense, 1e-12, 1e-12)
            if tuple(lazy.shape) != tuple(dense.shape):
                fails.add("lazy-vs-eager", f"lazy shape {tuple(lazy.shape)} != dense shape {tuple(dense.shape)}")
            ops += 1
        with fails.guard("transpose"):
            with S.lazily_evaluate_kernels(False):
                kt = k(x2, x1).to_dense()
            fails.check_close("transpose", kt, dense.mT, 1e-12, 1e-12, "K(x2,x1) != K(x1,x2)^T")
            fails.check_close("transpose", k(x1, x2).mT.to_dense(), dense.mT, 1e-12, 1e-12, "lazy .mT")
            ops += 2
        with fails.guard("diag"):
            # same batch shape needed for diag: use x1 against itself
            with S.lazily_evaluate_kernels(False):
                full = k(x1, x1).to_dense()
            dg = k(x1, x1, diag=True)
            fails.check_close("diag", dg, full.diagonal(dim1=-1, dim2=-2), 1e-12, 1e-12, "diag=True != diagonal of the full matrix")
            fails.check_close("diag", k(x1).diagonal(dim1=-1, dim2=-2), full.diagonal(dim1=-1, dim2=-2), 1e-12, 1e-12, "lazy .diagonal()")
            fails.check_close("diag", k(x1, diag=True), full.diagonal(dim1=-1, dim2=-2), 1e-12, 1e-12, "k(x, diag=True)")
            ops += 3
        with fails.guard("vector-input"):
            # the documented shorthand for one input dimension: n points given as a vector (only for kernels restricted to / built for 1 column)
            if cell["ad"] == [0] and not (cell["x1b"] or cell["x2b"]) and kern not in ("sum_ad",):
                v1, v2 = x1[..., 0], x2[..., 0]
                with S.lazily_evaluate_kernels(False):
                    want_v = k(v1.unsqueeze(-1), v2.unsqueeze(-1)).to_dense()
                fails.check_close("vector-input", k(v1, v2).to_dense(), want_v, 1e-12, 1e-12, "k(vector of n points) != k(n x 1 matrix)")
                ops += 1
        with fails.guard("lazy-diagonal-cross"):
            # the diagonal of a lazily evaluated CROSS-covariance between two different point sets of equal size
            x1c = x1 + 0.37 if kern not in DISCRETE else x1.flip(-2)
            with S.lazily_evaluate_kernels(False):
                cross = k(x1, x1c).to_dense()
            try:
                lazy_diag = k(x1, x1c).diagonal(dim1=-1, dim2=-2)
            except RuntimeError as e:
                if "diag=True only works when x1 == x2" in str(e):
                    raise util.Skip()  # the derivative kernels refuse this request with exactly this message
                raise
            fails.check_close("lazy-diagonal-cross", lazy_diag, cross.diagonal(dim1=-1, dim2=-2), 1e-12, 1e-12,
                              "K(x1, x2).diagonal() of the lazy tensor != diagonal of the dense cross-covariance (x1 != x2)")
            ops += 1
        with fails.guard("diag-cross-batch"):
            # diag=True between x1 and a second point set that carries a batch dimension x1 lacks - of size n (as many batch members as
            # points: a b x n table of diagonals has the shape of an n x n matrix) and of size 2
            if kern in ("rbfgrad", "rbfgrad_ard"):
                raise util.Skip()   # the derivative kernels document diag=True for x1 == x2 only
            n1_ = x1.shape[-2]
            B0 = torch.broadcast_shapes(tuple(cell["kb"]), x1.shape[:-2])   # the new batch dimension goes in FRONT of every existing one
            base = (x1 if kern not in DISCRETE else x1.flip(-2)).expand(*B0, *x1.shape[-2:])
            for bsz in (n1_, 2):
                shift = torch.arange(1, bsz + 1, dtype=F64).view(bsz, *([1] * base.dim())) * (0.21 if kern not in DISCRETE else 0.0)
                x2c = base.unsqueeze(0) + shift       # bsz x [broadcast batch] x n x d
                if kern in DISCRETE:
                    x2c = x2c.expand(bsz, *base.shape).to(x1.dtype)
                with S.lazily_evaluate_kernels(False):
                    want = k(x1, x2c).to_dense().diagonal(dim1=-1, dim2=-2)
                fails.check_close("diag-cross-batch", k(x1, x2c, diag=True), want, 1e-12, 1e-12, f"k(x1, x2 with an extra batch of {bsz}, diag=True)")
                ops += 1
        with fails.guard("stacked-blocks"):
            try:
                B = torch.broadcast_shapes(x1.shape[:-2], x2.shape[:-2])
                xs = torch.cat([x1.expand(*B, *x1.shape[-2:]), x2.expand(*B, *x2.shape[-2:])], -2)
            except RuntimeError:
                raise util.Skip()
            big = k(xs).to_dense()
            r = dense.shape[-2]
            c = dense.shape[-1]
            fails.check_close("stacked-blocks", big[..., :r, r:], dense.expand(*big.shape[:-2], r, c), 1e-12, 1e-12, "off-diagonal block of K([x1;x2]) != K(x1,x2)")
            with S.lazily_evaluate_kernels(False):
                k11 = k(x1, x1).to_dense()
            fails.check_close("stacked-blocks", big[..., :r, :r], k11.expand(*big.shape[:-2], r, r), 1e-12, 1e-12, "diagonal block != K(x1,x1)")
            lz = k(xs)
            fails.check_close("stacked-blocks", lz[..., :r, r:].to_dense(), dense.expand(*big.shape[:-2], r, c), 1e-12, 1e-12, "lazy sliced block")
            ops += 3
        with fails.guard("batch-ops"):
            # operations on the BATCH dimensions of the lazy tensor (permute / transpose / unsqueeze / sum over a batch dimension)
            nbd = dense.dim() - 2
            if nbd >= 1:
                lz = k(x1, x2)
                fails.check_close("batch-ops", lz.unsqueeze(0).to_dense(), dense.unsqueeze(0), 1e-12, 1e-12, "unsqueeze(0)")
                fails.check_close("batch-ops", k(x1, x2).sum(0).to_dense() if nbd > 1 else util.dense(k(x1, x2).sum(0)), dense.sum(0), 1e-10, 1e-12, "sum(0)")
                ops += 2
            if nbd >= 2:
                perm = list(range(nbd))[::-1] + [nbd, nbd + 1]
                fails.check_close("batch-ops", k(x1, x2).permute(*perm).to_dense(), dense.permute(*perm), 1e-12, 1e-12, "permute (batch dims reversed)")
                fails.check_close("batch-ops", k(x1, x2).transpose(0, 1).to_dense(), dense.transpose(0, 1), 1e-12, 1e-12, "transpose(0, 1)")
                fails.check_close("batch-ops", k(x1, x2).unsqueeze(1).to_dense(), dense.unsqueeze(1), 1e-12, 1e-12, "unsqueeze(1)")
                ops += 3
        with fails.guard("repeat"):
            # repetition of the matrix dimensions and over a NEW leading batch dimension (torch.Tensor.repeat semantics);
            # repeating an existing batch dimension is not supported by linear_operator itself (BatchRepeatLinearOperator)
            nbd = dense.dim() - 2
            rep = k(x1, x2).repeat(*([1] * nbd), 2, 3)
            fails.check_close("repeat", rep.to_dense(), dense.repeat(*([1] * nbd), 2, 3), 1e-12, 1e-12, "matrix dims repeated")
            # K(X, X) built from ONE tensor (k(x) and k(x, x)), rows and columns repeated a different number of times
            with S.lazily_evaluate_kernels(False):
                sq = k(x1, x1).to_dense()
            nbs = sq.dim() - 2
            for r_, c_ in ((1, 2), (2, 1), (3, 2)):
                fails.check_close("repeat", k(x1).repeat(*([1] * nbs), r_, c_).to_dense(), sq.repeat(*([1] * nbs), r_, c_), 1e-12, 1e-12, f"k(x).repeat(.., {r_}, {c_})")
                fails.check_close("repeat", k(x1, x1).repeat(*([1] * nbs), r_, c_).to_dense(), sq.repeat(*([1] * nbs), r_, c_), 1e-12, 1e-12, f"k(x, x).repeat(.., {r_}, {c_})")
            ops += 6
            rep = k(x1, x2).repeat(2, *([1] * nbd), 1, 1)
            fails.check_close("repeat", rep.to_dense(), dense.repeat(2, *([1] * nbd), 1, 1), 1e-12, 1e-12, "new leading batch dim")
            ops += 2
        # active_dims restricts the kernel to exactly those columns
        if cell["ad"] is not None and kern != "sum_ad":
            with fails.guard("active_dims"):
                torch.manual_seed(util.seed_for(seed, "c06init"))
                same_width = len(cell["ad"]) == D   # ARD kernels: comparable only when the restricted kernel has as many columns
                k0 = make_kernel(kern, tuple(cell["kb"]), None) if (kern not in ("matern_ard", "rbfgrad", "rbfgrad_ard", "linear_ard") or same_width) else None
                if k0 is None:
                    raise util.Skip()
                k0.load_state_dict({kk: v for kk, v in k.state_dict().items() if "active_dims" not in kk}, strict=False)
                ad = torch.tensor(cell["ad"])
                with S.lazily_evaluate_kernels(False):
                    want = k0(x1[..., ad], x2[..., ad]).to_dense()
                fails.check_close("active_dims", dense, want, 1e-12, 1e-12, "kernel(active_dims=a)(x) != kernel(x[..., a])")
                ops += 1
        # kernel[i] and expand_batch
        kb = tuple(cell["kb"])
        if kb:
            with fails.guard("kernel-getitem"):
                B = dense.shape[:-2]
                for bi in itertools.product(*[range(s) for s in kb]):
                    sub = k[bi]
                    x1b = x1.expand(*B, *x1.shape[-2:])
                    x2b = x2.expand(*B, *x2.shape[-2:])
                    lead = len(B) - len(kb)
                    sel = (slice(None),) * lead + tuple(bi)
                    with S.lazily_evaluate_kernels(False):
                        got = sub(x1b[sel], x2b[sel]).to_dense()
                    fails.check_close("kernel-getitem", got, dense[sel], 1e-12, 1e-12, f"kernel[{bi}](x1[{bi}], x2[{bi}]) != kernel(x1,x2)[{bi}]")
                    ops += 1
            # expand_batch of a kernel that already has a batch shape: a leading dimension of size one / of size three in front of it
            for lead_dims in ((1,), (3,)):
                tgt = torch.Size(lead_dims + kb)
                try:
                    Bt = torch.broadcast_shapes(tgt, dense.shape[:-2])
                except RuntimeError:
                    continue   # the data's own batch shape does not broadcast with this target
                with fails.guard("expand_batch"):
                    ke = k.expand_batch(tgt)
                    if tuple(ke.batch_shape) != tuple(tgt):
                        fails.add("expand_batch", f"expand_batch({tuple(tgt)}) of a kernel with batch shape {kb} has batch_shape {tuple(ke.batch_shape)}")
                    # the derivative kernels take the batch shape from the data alone (known finding of C08): give them data of the full shape
                    xe1, xe2 = (x1.expand(*Bt, *x1.shape[-2:]), x2.expand(*Bt, *x2.shape[-2:])) if cell["kernel"].startswith("rbfgrad") else (x1, x2)
                    with S.lazily_evaluate_kernels(False):
                        got = ke(xe1, xe2).to_dense()
                    want = dense.expand(*Bt, *dense.shape[-2:])
                    fails.check_close("expand_batch", got, want, 1e-12, 1e-12, f"expand_batch({tuple(tgt)}) of a batched kernel must behave as copies of it")
                    ops += 1
        else:
            with fails.guard("expand_batch"):
                tgt = dense.shape[:-2] if len(dense.shape) > 2 else torch.Size([2])  # a batch shape the data broadcast with
                ke = k.expand_batch(tgt)
                with S.lazily_evaluate_kernels(False):
                    got = ke(x1, x2).to_dense()
                want = dense.expand(*tgt, *dense.shape[-2:])
                fails.check_close("expand_batch", got, want, 1e-12, 1e-12, "expand_batch([2]) must behave as two identical copies")
                ops += 1
    return ops


def indexing(cell, k, x1, x2, dense, fails, feats):
    tier = cell["tier"]
    R, C = dense.shape[-2:]
    bb = dense.shape[:-2]
    rows = alpha(R, tier)
    row = rows[cell["row"]]
    cols = alpha(C, tier)
    if len(bb) == 0:
        batch_alpha = [()]
    else:
        per = [[0, -1, slice(None), slice(0, 1), slice(1, None), torch.tensor([s - 1, 0])] for s in bb]
        batch_alpha = [tuple(b) for b in itertools.product(*per) if sum(torch.is_tensor(x) for x in b) <= 1]
        if tier == "quick":
            batch_alpha = batch_alpha[:: max(1, len(batch_alpha) // 6)]
    states, seen = [], set()
    n = 0
    for bi in batch_alpha:
        for col in cols:
            if row[0] == "tensor" and col[0] == "tensor" and len(row[1]) != len(col[1]):
                continue
            if any(torch.is_tensor(b) for b in bi) and (row[0] == "tensor" or col[0] == "tensor"):
                continue  # index tensors in one dimension at a time (pairing across batch and matrix dims: torch semantics only)
            forms = [(*bi, mkidx(row), mkidx(col))]
            if len(bb) and all(isinstance(b, slice) and b == slice(None) for b in bi):
                forms.append((Ellipsis, mkidx(row), mkidx(col)))
            for idx in forms:
                try:
                    ref = dense[idx]
                except Exception:
                    continue
                if ref.numel() == 0:
                    continue
                n += 1
                states.append(util.digest([cell["kernel"], cell["kb"], cell["x1b"], cell["x2b"], cell.get("orient"), str(idx)]))
                kinds = f"{row[0]}/{col[0]}"
                f2 = dict(feats, idx_kinds=kinds, neg_int=(row[0] == "int" and row[1] < 0) or (col[0] == "int" and col[1] < 0),
                          batch_idx="".join("T" if torch.is_tensor(b) else "i" if isinstance(b, int) else "s" for b in bi))
                try:
                    with torch.no_grad():
                        out = k(x1, x2)[idx]
                        out = out.to_dense() if hasattr(out, "to_dense") else out
                except Exception as e:
                    key = (kinds, f2["batch_idx"], type(e).__name__)
                    if key not in seen:
                        seen.add(key)
                        fails.append({"sub": "index", "symptom": util.exc_str(e), "detail": f"idx={idx!r}", "features": f2})
                    continue
                if tuple(out.shape) != tuple(ref.shape) or util.maxerr(out, ref) > 1e-10:
                    sym = (f"lazy[idx] has shape {tuple(out.shape)}, dense[idx] has shape {tuple(ref.shape)}" if tuple(out.shape) != tuple(ref.shape)
                           else f"lazy[idx] != dense[idx]: err={util.maxerr(out, ref):.3e}")
                    key = (kinds, f2["batch_idx"], f2["neg_int"], sym[:25])
                    if key not in seen:
                        seen.add(key)
                        fails.append({"sub": "index", "symptom": sym, "detail": f"idx={idx!r}", "features": f2})
    return {"fails": fails, "sig": "idx:" + ",".join(sorted({f["symptom"][:25] for f in fails})), "features": feats, "ops": n,
            "state_digests": states, "nontrivial": n > 0, "notes": {"index_expressions_in_domain": n}}
