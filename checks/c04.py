"""C04 — fantasy models equal conditioning from scratch and leave the source untouched (Engine G x short histories).

cell = (family, model batch, fantasy batch pattern, q, pre-prediction context, fantasy/post context); inside the cell a
history predict(pre) -> fantasize -> predict(post) -> fantasize the fantasy -> ... to depth 3. Oracles:
 (i)   fantasy(x*) == a freshly built ExactGP of the same class with the same hyper-parameters on the concatenated data;
 (ii)  the source model is untouched: canonical digest, parameters, training data, prediction before == after;
 (iii) the solves / roots the fantasy strategy carries (looked up by cache name) equal the same quantities recomputed from
       the full data: mean_cache = (K+S)^-1 (y-m), root R R^T = K+S, inverse root R R^T = (K+S)^-1.
"""
import contextlib
import itertools

import torch

import gpytorch
from gpytorch import settings as S

from gpmc import canon, models, util
from gpmc.util import Fails, F64

PROPERTY = "C04"
RULE = ("cells = family {exact, ARD d=2, fixed noise, fixed+learned noise, multitask, KISS-GP} x model batch {(),(2,)} x fantasy batch "
        "{none, (3,) per-fantasy inputs, (3,) shared inputs} x q {1,2} x pre-context {default, fast_pred_var} x post-context "
        "{default, fast_pred_var, attached caches, both}; in each cell fantasies of fantasies to depth 3; distinct = distinct cell; "
        "non-trivial = the fantasy model was actually built (not a documented refusal)")
ASSUMPTIONS = ["reference = fresh ExactGP of the same class on concatenated data with parameters copied tensor-by-tensor",
               "KISS-GP compared at 1e-6 (interpolation + CG free: Cholesky sizes), others at 1e-8; fast_pred_var at full rank"]

CTX = {"default": lambda: [], "fpv": lambda: [S.fast_pred_var()], "attach": lambda: [S.detach_test_caches(False)],
       "fpv+attach": lambda: [S.fast_pred_var(), S.detach_test_caches(False)], "fps": lambda: [S.fast_pred_samples()],
       "nolazy": lambda: [S.lazily_evaluate_kernels(False)], "eager0": lambda: [S.max_eager_kernel_size(0)]}


@contextlib.contextmanager
def ctx(name):
    with contextlib.ExitStack() as st:
        for c in CTX[name]():
            st.enter_context(c)
        yield


FAMS = {"exact": 1, "matern_ard": 2, "fixednoise": 1, "fixednoise_learn": 1, "multitask": 1, "kiss": 1}
FAMS_THOROUGH = dict(FAMS, fixednoise_kiss=1, fwdkw=1, sumprod=1, linearmean=1, zeromean=1, multitask_r0=1, matern05=1, matern25_ard=2)


def cells(tier, seed):
    out = []
    posts = ["default", "fpv", "attach", "fpv+attach"]
    for fam, mb, fbp, q, pre, post in itertools.product(FAMS, [(), (2,)], ["none", "per", "shared"], [1, 2], ["default", "fpv"], posts):
        if fam in ("kiss", "multitask") and mb:
            continue
        if tier == "quick" and fam in ("matern_ard",) and (pre != "default" or q == 1):
            continue
        out.append({"fam": fam, "mb": list(mb), "fbp": fbp, "q": q, "pre": pre, "post": post, "depth": 3 if tier == "thorough" or fam == "exact" else 2})
    for fam in ("exact", "fixednoise_learn"):
        for q, post in itertools.product([1, 2], ["default", "fpv"]):
            out.append({"fam": fam, "mb": [], "fbp": "none", "q": q, "pre": "default", "post": post, "depth": 2, "form": "vec"})
            out.append({"fam": fam, "mb": [2], "fbp": "unbatched_inputs", "q": q, "pre": "default", "post": post, "depth": 2})
    for q, post, fbp in itertools.product([1, 2], ["default", "fpv"], ["none", "per"]):
        # a model whose forward() takes a keyword argument that changes the prior: the same argument is given to get_fantasy_model
        out.append({"fam": "fwdkw", "mb": [], "fbp": fbp, "q": q, "pre": "default", "post": post, "depth": 2})
    for q, post in itertools.product([1, 2], ["default", "fpv"]):
        # KISS-GP with a fixed per-point noise; a model batch of shape (1, 2); inputs shared by a batch of models (n x d inputs, b x n targets)
        out.append({"fam": "fixednoise_kiss", "mb": [], "fbp": "none", "q": q, "pre": "default", "post": post, "depth": 2})
        # (not explored: shared training inputs AND un-batched fantasy inputs with b x q targets -- get_fantasy_model documents b x q targets
        #  on un-batched inputs as "b fantasies", so for that layout the call is ambiguous and not a "supported combination")
        for fbp in ("none", "per", "shared"):
            out.append({"fam": "exact", "mb": [1, 2], "fbp": fbp, "q": q, "pre": "default", "post": post, "depth": 2})
            out.append({"fam": "exact", "mb": [2], "fbp": fbp, "q": q, "pre": "default", "post": post, "depth": 2, "trainx": "shared"})
    if tier == "thorough":
        # deeper and wider: chains of four fantasies, three fantasy points, more kernels / means, a rank-2 model batch, eager / non-lazy kernels
        have = {util.jdump(c) for c in out}
        for fam, mb, fbp, q, pre, post in itertools.product(FAMS_THOROUGH, [(), (2,), (2, 1)], ["none", "per", "shared"], [1, 2, 3],
                                                            ["default", "fpv", "nolazy"], posts + ["nolazy", "eager0"]):
            if fam in ("kiss", "fixednoise_kiss", "multitask", "multitask_r0") and mb:
                continue
            c = {"fam": fam, "mb": list(mb), "fbp": fbp, "q": q, "pre": pre, "post": post, "depth": 4 if fam in ("exact", "fixednoise_learn") else 3}
            c3 = dict(c, depth=3)
            if util.jdump(c) not in have and util.jdump(c3) not in have:
                out.append(c)
        for post in ["fps"]:
            for q in (1, 2):
                out.append({"fam": "kiss", "mb": [], "fbp": "none", "q": q, "pre": "default", "post": post, "depth": 2})
    return out


def make_data(cell, seed):
    fam, mb = cell["fam"], tuple(cell["mb"])
    d = FAMS_THOROUGH[fam]
    g = util.gen(seed, "c04|" + util.jdump({k: cell[k] for k in ("fam", "mb")}))
    n, m = 5, 3
    X = util.rand(g, *(() if cell.get("trainx") == "shared" else mb), n, d)
    t = 2 if fam.startswith("multitask") else None
    y = util.randn(g, *mb, n, t) if t else util.randn(g, *mb, n)
    Xs = util.rand(g, *mb, m, d)
    noise = 0.05 + 0.2 * util.rand(g, *mb, n) if fam.startswith("fixednoise") else None
    return X, y, Xs, noise


def build(cell, seed, X, y, noise, mb):
    m = models.ExactModel(X, y, cell["fam"], seed, batch_shape=mb, noise=noise)
    return m


FWD_KW = {"fwdkw": {"scale": 0.8}}   # family -> keyword arguments given to every call of the model (and to get_fantasy_model)


def predict(model, Xs, c):
    with ctx(c):
        torch.manual_seed(1234)
        out = model(Xs, **FWD_KW.get(getattr(model, "fam", None), {}))
        return out.mean.detach().clone(), out.covariance_matrix.detach().clone()


def dense_parts(ref, Xall, yall):
    """(K+S), (y-m) of a fresh model on the full data, evaluated eagerly in a clean context"""
    ref.eval()
    with torch.no_grad():
        kw = FWD_KW.get(ref.fam, {})
        prior = ref.forward(Xall, **kw) if not isinstance(Xall, (list, tuple)) else ref.forward(*Xall, **kw)
        marg = ref.likelihood(prior, Xall)
        KS = marg.covariance_matrix
        resid = yall.reshape(*yall.shape[: yall.dim() - (2 if ref.fam.startswith("multitask") else 1)], -1) - marg.mean.reshape(*KS.shape[:-1])
    return KS, resid


def carried_caches(fm, ref, Xall, yall, fails, feats, level, tol):
    ps = fm.prediction_strategy
    checked = 0
    try:
        KS, resid = dense_parts(ref, Xall, yall)
    except Exception as e:  # reference could not be evaluated eagerly: skip (not the library's fault)
        return 0
    want_alpha = torch.linalg.solve(KS, resid.unsqueeze(-1)).squeeze(-1)
    for key, val in list(getattr(ps, "_memoize_cache", {}).items()):
        name = key[0] if isinstance(key, tuple) else key
        if name == "mean_cache" and torch.is_tensor(val):
            checked += 1
            if tuple(val.shape) != tuple(want_alpha.shape):
                try:
                    val = val.reshape(want_alpha.shape) if val.numel() == want_alpha.numel() else val.expand(want_alpha.shape)
                except Exception:
                    pass
            ok, msg = util.close(val, want_alpha, tol, tol)
            if not ok:
                fails.append({"sub": "carried-mean_cache", "symptom": f"carried mean_cache != (K+S)^-1 (y-m) from full data: err={msg}",
                              "detail": f"level={level}", "features": feats})
    lt = getattr(ps, "lik_train_train_covar", None)
    for key, val in list(getattr(lt, "_memoize_cache", {}).items()) if lt is not None else []:
        name = key[0] if isinstance(key, tuple) else key
        if name in ("root_decomposition", "root_inv_decomposition") and hasattr(val, "root"):
            R = util.dense(val.root)
            got = R @ R.mT
            want = KS if name == "root_decomposition" else torch.linalg.inv(KS)
            checked += 1
            try:
                got = got.expand(want.shape)
            except Exception:
                pass
            ok, msg = util.close(got, want, max(tol, 1e-7), max(tol, 1e-7))
            if not ok:
                fails.append({"sub": "carried-" + name, "symptom": f"carried {name}: R R^T != {'K+S' if name == 'root_decomposition' else '(K+S)^-1'} of the full data: err={msg}",
                              "detail": f"level={level}", "features": feats})
    return checked


def cache_snapshot(model):
    """digest of every cache entry the source holds (strategy memo cache, train-covariance memo cache, module caches,
    mode flags). 'Unchanged' = every entry present before is still present with the same value; entries ADDED by
    get_fantasy_model (a lazily computed root decomposition, bookkeeping attributes) are not alarms."""
    snap = {}
    ps = getattr(model, "prediction_strategy", None)
    snap["has_strategy"] = ps is not None
    if ps is not None:
        for k, v in getattr(ps, "_memoize_cache", {}).items():
            snap["strategy:" + repr(k)[:60]] = canon.digest(v)
        lt = getattr(ps, "lik_train_train_covar", None)
        for k, v in getattr(lt, "_memoize_cache", {}).items() if lt is not None else []:
            snap["train_covar:" + repr(k)[:60]] = canon.digest(v)
        snap["strategy.train_shape"] = repr(getattr(ps, "_train_shape", None))
    for name, mod in model.named_modules():
        snap["training:" + name] = mod.training
        for k, v in (getattr(mod, "_memoize_cache", None) or {}).items():
            snap[f"module:{name}:" + repr(k)[:60]] = canon.digest(v)
        for attr in ("_cached_kernel_mat", "_cached_kernel_inv_root"):
            if hasattr(mod, attr) and getattr(mod, attr) is not None:
                snap[f"module:{name}:{attr}"] = canon.digest(getattr(mod, attr))
    return snap


def run_cell(cell, seed):
    fam, mb, fbp, q = cell["fam"], tuple(cell["mb"]), cell["fbp"], cell["q"]
    fails = Fails()
    feats = {k: cell[k] for k in ("fam", "fbp", "q", "pre", "post")}
    feats["mb"] = len(mb)
    d = FAMS_THOROUGH[fam]
    tol = 1e-6 if fam.endswith("kiss") else 1e-8
    if cell.get("trainx"):
        feats["trainx"] = cell["trainx"]
    X, y, Xs, noise = make_data(cell, seed)
    g = util.gen(seed, "c04f|" + util.jdump(cell))
    src = build(cell, seed, X, y, noise, mb)
    models.perturb_(src, seed, "c04" + fam)
    src.eval()
    ops = 0
    notes = {"carried_caches_checked": 0}
    mt = fam.startswith("multitask")
    with torch.no_grad() if "attach" not in cell["post"] else contextlib.nullcontext():
        predict(src, Xs, cell["pre"])
        ops += 1
        before_pred = predict(src, Xs, cell["post"])
        before_digest = cache_snapshot(src)
        before_params = {k: v.detach().clone() for k, v in list(src.named_parameters()) + list(src.named_buffers())}
        fb = () if fbp in ("none", "unbatched_inputs") else (3,)
        cur, Xall, yall, nall = src, X, y, noise
        full_b = mb
        sig = "ok"
        for level in range(1, cell["depth"] + 1):
            qq = q if level == 1 else 1
            tb = fb + mb if level == 1 else full_b  # target batch
            ib = mb if (level == 1 and fbp == "shared") else tb  # input batch
            if level == 1 and fbp == "unbatched_inputs":
                ib = ()  # fantasy inputs without the model's batch dimensions (q x d), targets with them (b x q)
            Xf = util.rand(g, *ib, qq, d)
            yf = util.randn(g, *tb, qq, 2) if mt else util.randn(g, *tb, qq)
            kw = {}
            nf = None
            if fam.startswith("fixednoise"):
                # noise belongs to the input locations (shared inputs => shared noise); with un-batched inputs for a batched model it is given
                # per batch element (the un-batched form is refused by FixedNoiseGaussianLikelihood.get_fantasy_likelihood)
                nf = 0.05 + 0.2 * util.rand(g, *(tb if fbp == "unbatched_inputs" else ib), qq)
                kw["noise"] = nf
            f2 = dict(feats, level=level)
            try:
                with ctx(cell["post"]):
                    # d = 1 shorthand: fantasy inputs given as a vector of length q (the library adds the last dimension)
                    fm = cur.get_fantasy_model(Xf.squeeze(-1) if cell.get("form") == "vec" else Xf, yf, **kw, **FWD_KW.get(fam, {}))
                ops += 1
            except Exception as e:
                fails.append({"sub": "get_fantasy_model", "symptom": util.exc_str(e), "detail": f"level={level} Xf{tuple(Xf.shape)} yf{tuple(yf.shape)}", "features": f2})
                sig = "raises"
                break
            new_b = tb
            Xall = torch.cat([Xall.expand(*new_b, *Xall.shape[-2:]), Xf.expand(*new_b, qq, d)], -2)
            if mt:
                yall = torch.cat([yall.expand(*new_b, *yall.shape[-2:]), yf.expand(*new_b, qq, 2)], -2)
            else:
                yall = torch.cat([yall.expand(*new_b, yall.shape[-1]), yf.expand(*new_b, qq)], -1)
            if nall is not None:
                nall = torch.cat([nall.expand(*new_b, nall.shape[-1]), nf.expand(*new_b, qq)], -1)
            full_b = new_b
            # (i) fantasy prediction == fresh model on the concatenated data
            ref = models.ExactModel(Xall, yall, fam, seed, batch_shape=mb, noise=nall)
            models.copy_into(src, ref)
            ref.eval()
            try:
                got = predict(fm, Xs, cell["post"])
                want = predict(ref, Xs, cell["post"])
                ops += 2
                for name, a, b in zip(("mean", "covariance"), got, want):
                    if tuple(a.shape) != tuple(b.shape):
                        fails.append({"sub": "fantasy-vs-scratch", "symptom": f"fantasy {name} has shape {tuple(a.shape)}, the model trained on the "
                                      f"concatenated data gives {tuple(b.shape)}", "detail": f"level={level}", "features": f2})
                        continue
                    try:
                        b = b.expand(a.shape) if a.dim() >= b.dim() else b
                    except Exception:
                        pass
                    ok, msg = util.close(a, b, tol, tol)
                    if not ok:
                        fails.append({"sub": "fantasy-vs-scratch", "symptom": f"fantasy {name} != fresh model on concatenated data: err={msg}",
                                      "detail": f"level={level} shapes {tuple(a.shape)} vs {tuple(b.shape)}", "features": f2})
                        sig = "mismatch"
            except Exception as e:
                fails.append({"sub": "fantasy-predict", "symptom": util.exc_str(e), "detail": f"level={level}", "features": f2})
                sig = "raises"
                break
            # (iii) carried caches
            notes["carried_caches_checked"] += carried_caches(fm, ref, Xall, yall, fails, f2, level, tol)
            # (ii) the model that was fantasised from is untouched (checked for the original source at every level)
            after_digest = cache_snapshot(src)
            changed = sorted(k for k in before_digest if after_digest.get(k) != before_digest[k])
            if changed:
                fails.append({"sub": "source-caches", "symptom": "cache entries of the source model changed or vanished: " + ", ".join(changed)[:200],
                              "detail": f"level={level}", "features": f2})
            for k, v in list(src.named_parameters()) + list(src.named_buffers()):
                if not torch.equal(v.detach(), before_params[k]):
                    fails.append({"sub": "source-params", "symptom": f"source parameter/buffer {k} changed", "detail": "", "features": f2})
            if src.train_inputs[0] is not X and not torch.equal(src.train_inputs[0], X):
                fails.append({"sub": "source-data", "symptom": "source train_inputs changed", "detail": f"{tuple(src.train_inputs[0].shape)}", "features": f2})
            if src.train_inputs[0].shape != X.shape or src.train_targets.shape != y.shape or not torch.equal(src.train_targets, y):
                fails.append({"sub": "source-data", "symptom": f"source training data changed: inputs {tuple(src.train_inputs[0].shape)} targets {tuple(src.train_targets.shape)}",
                              "detail": "", "features": f2})
            cur = fm
        try:
            after_pred = predict(src, Xs, cell["post"])
            ops += 1
            for name, a, b in zip(("mean", "covariance"), after_pred, before_pred):
                ok, msg = util.close(a, b, 1e-12, 1e-12)
                if not ok:
                    fails.append({"sub": "source-prediction", "symptom": f"source {name} changed after fantasising: err={msg}", "detail": "", "features": feats})
        except Exception as e:
            fails.append({"sub": "source-prediction", "symptom": "source model cannot predict after fantasising: " + util.exc_str(e), "detail": "", "features": feats})
        # the fantasy model is a model of its own: a FRESH fantasy model (no prediction made yet), then a change of the SOURCE's
        # hyperparameters, then the fantasy model's first prediction - it must be what it would have been without the change
        if sig != "raises" and not fails:
            try:
                g2 = util.gen(seed, "c04ind|" + util.jdump(cell))
                tb = fb + mb
                ib = () if fbp == "unbatched_inputs" else (mb if fbp == "shared" else tb)
                Xf = util.rand(g2, *ib, q, d)
                yf = util.randn(g2, *tb, q, 2) if mt else util.randn(g2, *tb, q)
                kw = {"noise": 0.05 + 0.2 * util.rand(g2, *(tb if fbp == "unbatched_inputs" else ib), q)} if fam.startswith("fixednoise") else {}
                xf = Xf.squeeze(-1) if cell.get("form") == "vec" else Xf
                with ctx(cell["post"]):
                    fa = src.get_fantasy_model(xf, yf, **kw, **FWD_KW.get(fam, {}))
                    fb_ = src.get_fantasy_model(xf, yf, **kw, **FWD_KW.get(fam, {}))
                want = predict(fa, Xs, cell["post"])          # predicted BEFORE the source changes
                models.perturb_(src, seed, "c04-source-moves-on")
                got = predict(fb_, Xs, cell["post"])          # first prediction AFTER the source changed
                ops += 4
                for name, a, b in zip(("mean", "covariance"), got, want):
                    ok, msg = util.close(a, b, tol, tol)
                    if not ok:
                        fails.append({"sub": "fantasy-independent", "symptom": f"fantasy {name} depends on hyperparameter changes made to the SOURCE model after "
                                      f"get_fantasy_model: err={msg}", "detail": "", "features": feats})
            except Exception as e:
                fails.append({"sub": "fantasy-independent", "symptom": util.exc_str(e), "detail": "", "features": feats})
    return {"fails": fails, "sig": sig + ":" + ",".join(sorted({f["sub"] for f in fails})), "ops": ops, "features": feats,
            "nontrivial": sig != "raises", "notes": notes}
