"""C20 — global settings are dynamically scoped (Engine S over programs of with-blocks, with fault injection).

State      : vector of every observable of every exported settings class (+ linear_operator's un-exported ones,
             which gives the frame condition "no other class changes").
Transitions: Enter(token) / Exit / Raise(k) (exception thrown in a body and caught after unwinding k blocks) /
             EnterRaises (constructor or __enter__ that itself raises) / multi-item with.
Oracle     : reference model refs.scoping — a stack of observation dicts; innermost active value inside, the
             previously visible value of EVERY observable after every exit, documented defaults outside.
Programs   : all well-nested token strings of the families below, exhaustively (no sampling).
"""
import ast
import itertools
import re
import warnings

import torch

from gpmc import util
from gpmc.util import Fails

PROPERTY = "C20"
ALLOW_SETTINGS_LEAK = True  # leaks are this check's subject; each program restores defaults itself
RULE = ("programs = every well-nested string of with-blocks over the token alphabet (every exported settings class x "
        "argument patterns) in families F1 (single block x fault), F2 (all ordered nested pairs x 6 fault placements), "
        "F2m (multi-item with), F2s (sequential pairs), F2e (enter/constructor raises inside every block), "
        "Fself (same class nested in itself to depth 3/5), Fgroup (coupled groups to depth 3/4), F3 (all nested triples over two tokens per class, "
        "thorough); a program is non-trivial when at least one observable changes inside it; distinct = distinct "
        "(program family, token tuple, fault) ")
ASSUMPTIONS = ["programs are `with S(args):` statements (construction immediately followed by entry)",
               "the reference model is a stack of observation dicts (refs in this file); exceptions are ordinary "
               "Python exceptions raised in block bodies, in constructors or in __enter__"]

from gpytorch import beta_features as B  # noqa: E402
from gpytorch import settings as S  # noqa: E402

DT = (torch.float, torch.double, torch.half)


def _classes():
    out = {}
    for n in S.__all__:
        out[n] = getattr(S, n)
    for n in B.__all__:
        out["beta." + n] = getattr(B, n)
    return out


CLASSES = _classes()


def kind(c):
    for b in c.__mro__:
        if b.__name__ in ("_feature_flag", "_value_context", "_dtype_value_context"):
            return b.__name__
    return c.__name__


def observe():
    """every observable of every class (exported ones by their public API, the rest through util's raw snapshot)"""
    o = {}
    for n, c in CLASSES.items():
        k = kind(c)
        if k == "_feature_flag":
            o[n] = bool(c.on())
            assert c.off() == (not c.on())
        elif k == "_value_context":
            o[n] = c.value()
        elif k == "_dtype_value_context":
            for d, dn in zip(DT, ("float", "double", "half")):
                o[f"{n}.{dn}"] = c.value(d)
    o["fast_pred_var.num_probe_vectors"] = S.fast_pred_var.num_probe_vectors()
    o["fast_computations.covar_root_decomposition"] = S.fast_computations.covar_root_decomposition.on()
    o["fast_computations.log_prob"] = S.fast_computations.log_prob.on()
    o["fast_computations.solves"] = S.fast_computations.solves.on()
    for (name, k), v in util.settings_snapshot().items():
        o[f"raw:{name}.{k}"] = v
    return o


def pub(o):
    return {k: v for k, v in o.items() if not k.startswith("raw:")}


# ---------------------------------------------------------------------------------------------- token alphabet
def tokens():
    """(class name, args, kwargs, effect on public observables, may_raise_on_enter)"""
    T = []
    for n, c in CLASSES.items():
        k = kind(c)
        if k == "_feature_flag":
            if n == "fast_pred_var":
                for st in (True, False):
                    for npv in (1, 3, 0):
                        T.append((n, (st, npv), {}, {n: st, "fast_pred_var.num_probe_vectors": npv}))
                T.append((n, (), {}, {n: True, "fast_pred_var.num_probe_vectors": 1}))
            else:
                T.append((n, (True,), {}, {n: True}))
                T.append((n, (False,), {}, {n: False}))
                T.append((n, (), {}, {n: True}))
        elif k == "_value_context":
            if n == "observation_nan_policy":
                vals = ["mask", "fill", "ignore"]
            elif n.startswith("_linalg"):
                vals = [torch.float, torch.half]
            else:
                vals = [7, 0.5, None, 0]  # falsy values are values too
            for v in vals:
                T.append((n, (v,), {}, {n: v}))
        elif k == "_dtype_value_context":
            for f, d, h in [(0.11, None, None), (None, 0.22, None), (None, None, 0.33), (0.12, 0.23, None),
                            (None, 0.24, 0.34), (0.1, 0.2, 0.3), (None, None, None), (0.0, None, None), (None, 0.0, 0.0)]:
                eff = {}
                for dn, v in (("float", f), ("double", d), ("half", h)):
                    if v is not None:
                        eff[f"{n}.{dn}"] = v
                T.append((n, (), dict(float_value=f, double_value=d, half_value=h), eff))
        elif n == "fast_computations":
            for t in itertools.product([True, False], repeat=3):
                T.append((n, t, {}, {"fast_computations.covar_root_decomposition": t[0],
                                     "fast_computations.log_prob": t[1], "fast_computations.solves": t[2]}))
        elif n == "linalg_dtypes":
            T.append((n, (torch.float,), {}, {"_linalg_dtype_symeig": torch.float, "_linalg_dtype_cholesky": torch.float}))
            T.append((n, (torch.double, torch.float, None), {},
                      {"_linalg_dtype_symeig": torch.float, "_linalg_dtype_cholesky": torch.double}))
            T.append((n, (torch.half, None, torch.float), {},
                      {"_linalg_dtype_symeig": torch.half, "_linalg_dtype_cholesky": torch.float}))
        else:
            raise AssertionError(f"settings class of unknown kind: {n} ({k}) — extend the alphabet")
    return T


TOKENS = tokens()
# tokens whose construction / entry raises: state must be untouched
BAD = [("observation_nan_policy", ("bogus",), {}, "ctor"), ("beta.checkpoint_kernel", (3,), {}, "enter-warn-error")]


def _reduced():
    """first two tokens of every class (multi-item / sequential composition is Python's own `with` semantics; the
    full alphabet is used for genuine nesting F2)"""
    out, cnt = [], {}
    for i, t in enumerate(TOKENS):
        cnt[t[0]] = cnt.get(t[0], 0) + 1
        if cnt[t[0]] <= 2:
            out.append(i)
    return out


REDUCED = _reduced()


class Boom(Exception):
    def __init__(self, k):
        self.k = k


def make(tok):
    return CLASSES[tok[0]](*tok[1], **tok[2])


def tokstr(tok):
    a = ", ".join([repr(x) for x in tok[1]] + [f"{k}={v!r}" for k, v in tok[2].items() if v is not None])
    return f"{tok[0]}({a})"


# ---------------------------------------------------------------------------------------------- interpreter
class Run:
    def __init__(self, default):
        self.default = default
        self.default_pub = pub(default)
        self.errs = []
        self.states = set()
        self.changed = False
        self.nobs = 0

    def check(self, where, expect_pub, expect_raw_same_as=None):
        cur = observe()
        self.nobs += 1
        p = pub(cur)
        self.states.add(hash(tuple(repr(v) for v in p.values())))  # PYTHONHASHSEED=0: stable across workers
        if not self.changed and p != self.default_pub:
            self.changed = True
        bad = sorted(k for k in set(p) | set(expect_pub) if p.get(k, "<missing>") != expect_pub.get(k, "<missing>"))
        if bad:
            self.errs.append((where, bad, {k: (repr(expect_pub.get(k)), repr(p.get(k))) for k in bad}))
        if expect_raw_same_as is not None:
            rb = sorted(k for k in cur if k.startswith("raw:") and cur[k] != expect_raw_same_as.get(k))
            if rb and not bad:
                self.errs.append((where + "/raw", rb, {k: (repr(expect_raw_same_as.get(k)), repr(cur[k])) for k in rb}))
        return cur


def apply(cur_pub, eff):
    new = dict(cur_pub)
    new.update(eff)
    return new


def run_stmts(R, stmts, cur):
    """cur: full observation (incl. raw) expected at this level. Executes real with-statements."""
    for s in stmts:
        if s[0] == "raise":
            raise Boom(s[1])
        if s[0] == "with":
            tok, body = TOKENS[s[1]], s[2]
            inside = apply(pub(cur), tok[3])
            try:
                with make(tok):
                    full_in = R.check(f"inside {tokstr(tok)}", inside)
                    run_stmts(R, body, full_in)
                    R.check(f"inside {tokstr(tok)} after body", inside, full_in)
            except Boom as e:
                R.check(f"after exceptional exit of {tokstr(tok)}", pub(cur), cur)
                e.k -= 1
                if e.k > 0:
                    raise
            else:
                R.check(f"after exit of {tokstr(tok)}", pub(cur), cur)
        elif s[0] == "withobj":  # a context object that was constructed before the program entered any block (possibly entered twice)
            tok, body = TOKENS[OBJ_TOKS[s[1]]], s[2]
            inside = apply(pub(cur), tok[3])
            try:
                with OBJS[s[1]]:
                    full_in = R.check(f"inside pre-built {tokstr(tok)}", inside)
                    run_stmts(R, body, full_in)
                    R.check(f"inside pre-built {tokstr(tok)} after body", inside, full_in)
            except Boom as e:
                R.check(f"after exceptional exit of pre-built {tokstr(tok)}", pub(cur), cur)
                e.k -= 1
                if e.k > 0:
                    raise
            else:
                R.check(f"after exit of pre-built {tokstr(tok)}", pub(cur), cur)
        elif s[0] == "with2":  # multi-item with A, B:
            ta, tb, body = TOKENS[s[1]], TOKENS[s[2]], s[3]
            inside = apply(apply(pub(cur), ta[3]), tb[3])
            try:
                with make(ta), make(tb):
                    full_in = R.check(f"inside {tokstr(ta)},{tokstr(tb)}", inside)
                    run_stmts(R, body, full_in)
            except Boom as e:
                R.check("after exceptional exit of multi-item with", pub(cur), cur)
                e.k -= 1
                if e.k > 0:
                    raise
            else:
                R.check("after exit of multi-item with", pub(cur), cur)
        elif s[0] == "bad":  # a block whose constructor / __enter__ raises; optional good first item
            bad = BAD[s[1]]
            first = TOKENS[s[2]] if s[2] is not None else None
            try:
                with warnings.catch_warnings():
                    warnings.simplefilter("error")
                    if first is None:
                        with CLASSES[bad[0]](*bad[1], **bad[2]):
                            R.errs.append((f"bad token {bad[0]} did not raise", [], {}))
                    else:
                        with make(first), CLASSES[bad[0]](*bad[1], **bad[2]):
                            R.errs.append((f"bad token {bad[0]} did not raise", [], {}))
            except (ValueError, DeprecationWarning):
                pass
            R.check(f"after failed entry of {bad[0]}{bad[1]} [{bad[3]}]", pub(cur), cur)
        elif s[0] == "stack":  # contextlib.ExitStack entering a list of tokens, then closing
            import contextlib

            exp = pub(cur)
            try:
                with contextlib.ExitStack() as st:
                    for ti in s[1]:
                        st.enter_context(make(TOKENS[ti]))
                        exp = apply(exp, TOKENS[ti][3])
                    R.check("inside ExitStack", exp)
                    run_stmts(R, s[2], observe())
            except Boom as e:
                R.check("after exceptional ExitStack", pub(cur), cur)
                e.k -= 1
                if e.k > 0:
                    raise
            else:
                R.check("after ExitStack", pub(cur), cur)


OBJS, OBJ_TOKS = [], []


def run_program(prog, default):
    util.settings_restore()
    R = Run(default)
    OBJS.clear()
    OBJ_TOKS.clear()
    if prog and prog[0][0] == "objs":  # context objects constructed up front, outside every block
        OBJ_TOKS.extend(prog[0][1])
        OBJS.extend(make(TOKENS[t]) for t in prog[0][1])
        prog = prog[1:]
    try:
        run_stmts(R, prog, default)
    except Boom:
        pass
    R.check("after program (documented defaults)", pub(default), default)
    leaked = bool(util.settings_diff())
    util.settings_restore()
    return R, leaked


def describe(prog):
    out = []
    for s in prog:
        if s[0] == "raise":
            out.append(f"raise(caught {s[1]} up)")
        elif s[0] == "with":
            out.append(f"with {tokstr(TOKENS[s[1]])}: [{describe(s[2])}]")
        elif s[0] == "objs":
            out.append("pre-built objects " + ", ".join(f"c{i} = {tokstr(TOKENS[t])}" for i, t in enumerate(s[1])))
        elif s[0] == "withobj":
            out.append(f"with c{s[1]}: [{describe(s[2])}]")
        elif s[0] == "with2":
            out.append(f"with {tokstr(TOKENS[s[1]])}, {tokstr(TOKENS[s[2]])}: [{describe(s[3])}]")
        elif s[0] == "bad":
            f = tokstr(TOKENS[s[2]]) + ", " if s[2] is not None else ""
            out.append(f"with {f}{BAD[s[1]][0]}{BAD[s[1]][1]}<raises>: []")
        elif s[0] == "stack":
            out.append("ExitStack[" + ", ".join(tokstr(TOKENS[t]) for t in s[1]) + f"]: [{describe(s[2])}]")
    return "; ".join(out)


# ---------------------------------------------------------------------------------------------- program families
FAULTS2 = [((), ()), ((("raise", 1),), ()), ((("raise", 2),), ()), ((), (("raise", 1),)), ((("raise", 1),), (("raise", 1),))]


def programs_for(cell):
    fam, a = cell["fam"], cell.get("a")
    n = len(TOKENS)
    if fam == "F1":
        for flt in ([], [("raise", 1)]):
            yield [("with", a, flt)]
    elif fam == "F2":
        for b in range(n):
            for fin, fout in FAULTS2:
                yield [("with", a, [("with", b, list(fin))] + list(fout))]
    elif fam == "F2m":
        for b in REDUCED:
            for flt in ([], [("raise", 1)]):
                yield [("with2", a, b, flt)]
            yield [("stack", [a, b], [])]
            yield [("stack", [a, b], [("raise", 1)])]
    elif fam == "F2s":
        for b in REDUCED:
            yield [("with", a, []), ("with", b, [])]
            yield [("with", a, [("raise", 1)]), ("with", b, [])]
    elif fam == "Fobj":
        # context objects constructed before any block: entered inside another block, entered twice (nested and in sequence)
        for flt in ([], [("raise", 1)]):
            yield [("objs", [a]), ("withobj", 0, [("withobj", 0, list(flt))])]
            yield [("objs", [a]), ("withobj", 0, list(flt)), ("withobj", 0, [])]
        for b in REDUCED:
            for flt in ([], [("raise", 1)], [("raise", 2)]):
                yield [("objs", [a]), ("with", b, [("withobj", 0, list(flt))])]
            yield [("objs", [a]), ("withobj", 0, [("with", b, [("withobj", 0, [])])])]
            yield [("objs", [a, b]), ("withobj", 1, [("withobj", 0, [])]), ("withobj", 0, [("withobj", 1, [])])]
    elif fam == "F2e":
        for bi in range(len(BAD)):
            yield [("with", a, [("bad", bi, None)])]
            yield [("bad", bi, a)]
            yield [("with", a, [("bad", bi, a)])]
    elif fam in ("Fself", "Fgroup"):
        group, depth = cell["group"], cell["depth"]
        for d in range(1, depth + 1):
            for seq in itertools.product(group, repeat=d):
                if seq[0] != a:
                    continue
                for fk in range(0, d + 1):  # 0 = no fault, k = raise in innermost body, caught k levels up
                    body = [("raise", fk)] if fk else []
                    for t in reversed(seq):
                        body = [("with", t, body)]
                    yield body
    elif fam == "F3":
        b = cell["b"]
        for c in REDUCED:
            for fk in (0, 1, 2, 3):
                yield [("with", a, [("with", b, [("with", c, [("raise", fk)] if fk else [])])])]
            yield [("with", a, [("with", b, []), ("with", c, [])])]
    elif fam == "defaults":
        yield []
    else:
        raise AssertionError(fam)


def culprit_classes(bad_keys):
    out = set()
    for k in bad_keys:
        k = k[4:] if k.startswith("raw:") else k
        out.add(k.split(".")[0] if not k.startswith(("beta.", "settings.", "lo.", "beta_features.")) else ".".join(k.split(".")[:2]))
    return sorted(out)


def run_cell(cell, seed):
    default = observe() if not util.settings_diff() else None
    assert default is not None
    fails = Fails()
    states = set()
    nprog = nobs = nontriv = 0
    if cell["fam"] == "defaults":
        return check_defaults(default)
    per_key = {}
    for prog in programs_for(cell):
        R, leaked = run_program(prog, default)
        nprog += 1
        nobs += R.nobs
        nontriv += int(R.changed)
        states |= R.states
        if R.errs:
            where, bad, diff = R.errs[0]
            cls = culprit_classes(bad)
            key = (tuple(cls), where.split(" ")[0])
            if key in per_key:  # one representative (the first = simplest) per culprit class per cell
                per_key[key] += 1
                continue
            per_key[key] = 1
            nonerestore = all(e == "None" for e, g in diff.values())

            def _from_lo(name):
                import linear_operator.settings as LS
                if name.startswith("lo."):
                    return True  # raw attribute of a class in linear_operator.settings
                name = name[len("settings."):] if name.startswith("settings.") else name
                c = CLASSES.get(name) or getattr(LS, name, None)
                return c is not None and (c.__module__ or "").startswith("linear_operator")

            fails.append({"sub": "scoping", "symptom": f"{where}: {util.jdump(diff)[:200]}",
                          "detail": f"program: {describe(prog)} | all errors: {R.errs[:4]}",
                          "features": {"culprits": cls, "expected_none": nonerestore, "program": describe(prog),
                                       "prebuilt": bool(prog) and prog[0][0] == "objs",
                                       "culprits_in_linear_operator": bool(cls) and all(_from_lo(c) for c in cls)}})
    res = {"fails": fails, "ops": nobs, "sig": "ok" if not fails else "violations", "features": {"fam": cell["fam"]},
           "notes": {"programs": nprog, "programs_nontrivial": nontriv},
           "state_digests": sorted(str(x) for x in states)}
    return res


def _parse_default(doc):
    out = {}
    if not doc:
        return out
    for dn in ("float", "double", "half"):
        m = re.search(r"Default for `" + dn + r"`:\s*([-+0-9.eE]+)", doc)
        if m:
            out[dn] = float(m.group(1))
    m = re.search(r"\(Default: ([^)]+)\)", doc)
    if m:
        txt = m.group(1).strip().replace("torch.double", "'torch.float64'")
        try:
            out["value"] = ast.literal_eval(txt)
        except Exception:
            pass
    return out


def check_defaults(default):
    """outside all blocks each setting reports its documented default (where the docstring states a literal)"""
    fails = Fails()
    n = 0
    for name, c in CLASSES.items():
        d = _parse_default(c.__doc__)
        k = kind(c)
        if k == "_dtype_value_context":
            for dn in ("float", "double", "half"):
                if dn in d:
                    n += 1
                    if default[f"{name}.{dn}"] != d[dn]:
                        fails.add("documented-default", f"{name}.{dn} reports {default[f'{name}.{dn}']} documented {d[dn]}")
        elif "value" in d and k in ("_feature_flag", "_value_context"):
            n += 1
            got = default[name]
            want = d["value"]
            if isinstance(got, torch.dtype):
                got = str(got)
            if got != want:
                fails.add("documented-default", f"{name} reports {got!r}, documented default {want!r}")
    return {"fails": fails, "ops": n, "sig": "defaults", "features": {"fam": "defaults"},
            "notes": {"documented_defaults_checked": n}, "state_digests": []}


def groups():
    """coupled groups: classes whose write sets intersect"""
    idx = {}
    for i, t in enumerate(TOKENS):
        idx.setdefault(t[0], []).append(i)
    g = {n: v for n, v in idx.items()}
    coupled = {
        "linalg": idx["linalg_dtypes"] + idx["_linalg_dtype_symeig"] + idx["_linalg_dtype_cholesky"],
        "fast_pred": idx["fast_pred_var"] + idx["fast_pred_samples"],
    }
    return g, coupled


def main(ctx):
    n = len(TOKENS)
    thorough = ctx.tier == "thorough"
    cells = [{"fam": "defaults"}]
    cells += [{"fam": "F1", "a": a} for a in range(n)]
    cells += [{"fam": f, "a": a} for f in ("F2", "F2m", "F2s", "F2e", "Fobj") for a in range(n)]
    own, coupled = groups()
    for cname, g in own.items():
        d = 5 if thorough else 3
        if len(g) > 5:
            d = 4 if thorough else 3
        cells += [{"fam": "Fself", "a": a, "group": g, "depth": d, "cls": cname} for a in g]
    for gname, g in coupled.items():
        cells += [{"fam": "Fgroup", "a": a, "group": g, "depth": 4 if thorough else 3, "gname": gname} for a in g]
    if thorough:
        # all nested triples over the reduced alphabet (two tokens per class): ~90^3 x 5 fault placements
        cells += [{"fam": "F3", "a": a, "b": b} for a in REDUCED for b in REDUCED]
    ctx.map("run_cell", cells, chunksize=1 if not thorough else 16)
    states = ctx.states
    ctx.extra.update(tokens=n, classes=len(CLASSES), programs=ctx.notes["programs"],
                     distinct_observation_vectors=len(states))
    ctx.bound = {"nesting_depth_all_pairs": 2, "nesting_depth_all_triples": 3 if thorough else None,
                 "same_class_depth": 5 if thorough else 3, "faults_per_program": 2}
    if ctx.notes["programs_nontrivial"] < ctx.notes["programs"] // 2:
        ctx.cap("vacuity: fewer than half of the programs changed any observable")
