"""C13 — non-Gaussian likelihoods: exact Gauss-Hermite rule, analytic Bernoulli marginal, log_normal_cdf (Engine G + float32 sweep).

* gh-poly: GaussHermiteQuadrature1D(n) on x^k for EVERY k = 0..2n-1 against N(m, v) == exact Gaussian moment (60-digit recurrence),
  error relative to sum_i |w_i x_i^k|, tolerance 1e-10 (float64-constructed rule; a float32-constructed rule at float32 accuracy).
  Degree 2n is reported as a counter (the rule must NOT be exact there: predicted defect n! v^n).
* num-locs-setting: settings.num_gauss_hermite_locs(n) selects the node count of likelihoods constructed under it.
* likelihood-elp: expected_log_prob / log_marginal of Bernoulli / Laplace / StudentT / Beta vs adaptive scipy quad (1e-12) of the documented
  conditional density; admissible gap = the rule's truncation error: err(40 nodes) <= err(10 nodes) + 1e-12 and every error inside an
  a-priori envelope per integrand class (10 x the values measured at design time); never step-wise monotonicity.
* forward-params: conditional distributions returned for samples have the documented parameters / density.
* bernoulli: marginal probs == Phi(m / sqrt(1+v)) (1e-12), log_marginal == log of it.
* softmax: Categorical(logits = W f) as documented.
* lncdf-*: log_normal_cdf vs scipy log_ndtr, custom backward vs phi/Phi, on float32 bit-pattern sweeps (thorough: all 2^32), branch
  boundaries +-64 ulp, a 2e6-point float64 lattice on [-40, 10] and decade tails.
"""
import math

import numpy as np
import torch

import gpytorch
from gpytorch import settings
from gpytorch.distributions import MultivariateNormal as MVN
from gpytorch.functions import log_normal_cdf
from gpytorch.likelihoods import (BernoulliLikelihood, BetaLikelihood, LaplaceLikelihood, SoftmaxLikelihood,
                                  StudentTLikelihood)
from gpytorch.utils.quadrature import GaussHermiteQuadrature1D

from gpmc import util
from gpmc.refs import quadrature as Q
from gpmc.util import Fails, F64

PROPERTY = "C13"
RULE = ("cells = gh-poly {num_locs 1,2,3,5,10,20,40 (+4,7,15,30 thorough)} x batch shape {(),(3,),(2,3)} x distribution {Normal, MVN} x dtype of "
        "construction, every degree 0..2n-1 (and 2n as sharpness counter) x (m,v) lattice {-50,-3,0,0.7,10,50} x {1e-12,1e-6,0.3,1,9,100} inside "
        "the cell; likelihood-elp {Bernoulli, Laplace, StudentT, Beta} x parameter set x batch shape x batched parameters, node counts 10/20/40 x "
        "(m,v,y) lattice inside; forward-params, bernoulli (m,v) lattice x shapes, num-locs-setting, softmax; lncdf: contiguous float32 bit-pattern "
        "ranges (quick: every 256th pattern; thorough: all 2^32) evaluated in float32 and (upcast) in float64, branch boundaries, float64 lattice, "
        "decade tails. distinct/non-trivial = distinct cell that evaluated")
ASSUMPTIONS = [
    "real-valued (m, v, y, parameter) axes are a finite lattice, not all reals; float32 inputs of log_normal_cdf ARE exhaustive in thorough",
    "truncation-error envelopes for non-polynomial integrands are empirical (10 x design-time measurements on the same lattice)",
    "MultivariateNormal.variance is documented to clamp at settings.min_variance (1e-10 double): references for MVN inputs use max(v, 1e-10)",
    "LaplaceLikelihood's docstring names its parameter 'sigma - the noise' without saying how it enters the density; the reference uses "
    "scale = sqrt(noise) (noise as squared scale, as documented for StudentT's sigma^2), the reading DESIGN's numbers were calibrated with",
    "references: mpmath recurrence for moments, scipy.integrate.quad, scipy.special.log_ndtr, erfcx (phi/Phi = sqrt(2/pi)/erfcx(-z/sqrt2))",
    "Bernoulli log_marginal is compared with conditioning 8 eps / p(y) (it is computed through probs; saturated probs are counted, not failed)",
]

SHAPES = [(), (3,), (2, 3)]
NUM_LOCS = [1, 2, 3, 5, 10, 20, 40]
PM = [-50.0, -3.0, 0.0, 0.7, 10.0, 50.0]
PV = [1e-12, 1e-6, 0.3, 1.0, 9.0, 100.0]
MIN_VAR_DOUBLE = 1e-10  # documented default of settings.min_variance for double

LIKS = {"Bernoulli": BernoulliLikelihood, "Laplace": LaplaceLikelihood, "StudentT": StudentTLikelihood, "Beta": BetaLikelihood}
PSETS = {
    "Bernoulli": [{}],
    "Laplace": [{"noise": 0.6}, {"noise": 1.5}],
    "StudentT": [{"noise": 0.4, "deg_free": 4.5}, {"noise": 1.0, "deg_free": 8.0}],
    "Beta": [{"scale": 3.0}, {"scale": 1.5}],
}
YS = {"Bernoulli": [0.0, 1.0], "Laplace": [-0.5, 1.2], "StudentT": [-0.5, 1.2], "Beta": [0.2, 0.7]}
EM = [-2.0, 0.0, 0.7, 3.0]
EV = [0.01, 0.5, 2.0]
NODE_CHAIN = [10, 20, 40]
# measured on the unchanged tree at design time (DESIGN.md section 3, C13; probes c13c) -- envelope = 10 x these
MEASURED = {
    "elp": {"Bernoulli": [5.7e-4, 2.4e-4, 3.2e-4], "Laplace": [3.6e-2, 5.3e-2, 8.7e-3], "StudentT": [4.4e-3, 4.4e-4, 6.4e-6],
            "Beta": [1.5e-4, 5.3e-7, 1.7e-10]},
    "lm": {"Bernoulli": [1e-11, 1e-11, 1e-11], "Laplace": [1.5e-1, 1.4e-1, 4.1e-2], "StudentT": [9.7e-2, 1.4e-2, 7.3e-4],
           "Beta": [1.9e-3, 3.6e-5, 1.4e-7]},
}
SAFETY = 10.0
LNCDF_BOUND = 2e-3  # the property's allowance for log_normal_cdf, enters Bernoulli's expected_log_prob

F32_CHUNK = 1 << 22  # thorough: bit patterns per cell
SUB = 1 << 18  # points per evaluation (temporaries stay small: 6x faster than 2^22-point evaluations)
_DIAG = {}  # per-cell worst-case numbers (floats), returned as res["diag"] for debugging / calibration; not part of the verdict


# ================================================================================================== cells
def cells(tier, seed):
    out = []
    locs = NUM_LOCS + ([4, 7, 15, 30] if tier == "thorough" else [])
    for n in sorted(locs):
        for shape in SHAPES:
            for dist in ("normal", "mvn"):
                out.append({"what": "gh-poly", "num_locs": n, "shape": list(shape), "dist": dist, "dtype": "float64"})
        out.append({"what": "gh-poly", "num_locs": n, "shape": [3], "dist": "normal", "dtype": "float32"})
    out.append({"what": "num-locs-setting"})
    for shape in SHAPES:
        out.append({"what": "bernoulli", "shape": list(shape)})
    for name in LIKS:
        for shape in SHAPES:
            for lik_batch in ([False] if shape == () or name == "Bernoulli" else [False, True]):
                out.append({"what": "forward-params", "likelihood": name, "shape": list(shape), "lik_batch": lik_batch})
    for name in LIKS:
        for pset in range(len(PSETS[name])):
            for shape in SHAPES:
                for lik_batch in ([False] if shape == () or name == "Bernoulli" else [False, True]):
                    out.append({"what": "likelihood-elp", "likelihood": name, "pset": pset, "shape": list(shape), "lik_batch": lik_batch,
                                "dense": tier == "thorough"})
    for name in LIKS:
        out.append({"what": "call-sequence", "likelihood": name})
    for mixing in (True, False):
        out.append({"what": "softmax", "mixing": mixing})
    # ---- log_normal_cdf
    for dtype in ("float64", "float32"):
        out.append({"what": "lncdf-boundary", "dtype": dtype})
        out.append({"what": "lncdf-tails", "dtype": dtype})
    nl = 8
    for i in range(nl):
        out.append({"what": "lncdf-lattice", "dtype": "float64", "part": i, "parts": nl, "lo": -40.0, "hi": 10.0, "n": 2000001})
    if tier == "quick":
        span, stride = 1 << 27, 256  # 32 ranges x 2^19 patterns each
    else:
        span, stride = F32_CHUNK, 1  # 1024 ranges x 2^22 patterns each: all 2^32 bit patterns
    for ev in ("float32", "float64"):
        for lo in range(0, 1 << 32, span):
            out.append({"what": "lncdf-sweep", "dtype": "float32", "eval": ev, "lo": lo, "hi": lo + span, "stride": stride})
    return out


# ================================================================================================== dispatcher
def run_cell(cell, seed):
    what = cell["what"]
    fails = Fails()
    notes = {}
    feats = {k: cell.get(k) for k in ("what", "num_locs", "likelihood", "dtype", "dist", "lik_batch", "pset", "eval", "mixing", "stride")
             if cell.get(k) is not None}
    if "shape" in cell:
        feats["shape"] = str(tuple(cell["shape"]))
    if what.startswith("lncdf"):
        feats["eval"] = cell.get("eval", cell["dtype"])
    if what == "lncdf-sweep":
        feats["sign"] = "neg" if cell["lo"] >= (1 << 31) else "pos"
        feats["lo"] = cell["lo"]
    if what == "lncdf-lattice":
        feats["part"] = cell["part"]
    g = util.gen(seed, "c13|" + util.jdump(cell))
    fn = {"gh-poly": run_poly, "num-locs-setting": run_setting, "bernoulli": run_bernoulli, "forward-params": run_forward,
          "likelihood-elp": run_elp, "softmax": run_softmax, "lncdf-boundary": run_lncdf_boundary, "lncdf-tails": run_lncdf_tails,
          "lncdf-lattice": run_lncdf_lattice, "lncdf-sweep": run_lncdf_sweep, "call-sequence": run_call_sequence}[what]
    _DIAG.clear()
    with torch.no_grad():
        ops = fn(cell, g, fails, notes, feats)
    # dedupe: at most a few representative fails per (sub, symptom prefix)
    seen, kept = {}, Fails()
    for f in fails:
        k = (f["sub"], f["symptom"][:40])
        seen[k] = seen.get(k, 0) + 1
        if seen[k] <= 1:
            kept.append(f)
    return {"fails": kept, "sig": what + ":" + ",".join(sorted({f["sub"] for f in kept})), "features": feats, "ops": int(ops or 1),
            "nontrivial": True, "notes": notes, "diag": dict(_DIAG)}


def _add(fails, sub, symptom, detail="", **features):
    fails.add(sub, symptom, detail)
    if features:
        fails[-1]["features"] = features


def _layout(points, shape):
    """lay a list of lattice points out into tensors of shape (*shape, n): returns index array of that shape (cyclic padding)"""
    b = int(np.prod(shape)) if shape else 1
    n = -(-len(points) // b)
    idx = np.arange(b * n) % len(points)
    return idx.reshape(*shape, n)


# ================================================================================================== Gauss-Hermite on polynomials
def run_poly(cell, g, fails, notes, feats):
    n, shape, kind, dtype = cell["num_locs"], tuple(cell["shape"]), cell["dist"], getattr(torch, cell["dtype"])
    old = torch.get_default_dtype()
    torch.set_default_dtype(dtype)
    try:
        rule = GaussHermiteQuadrature1D(n)
    finally:
        torch.set_default_dtype(old)
    ops = 1
    if rule.locations.dtype != dtype or rule.locations.numel() != n or rule.weights.numel() != n:
        _add(fails, "gh-nodes", f"rule constructed for {n} nodes under {dtype} has {rule.locations.numel()} nodes of {rule.locations.dtype}")
        return ops
    pm = list(PM)
    pv = list(PV)
    pm[3] = 0.7 + 0.1 * float(util.rand(g, 1))  # generic members of the lattice
    pv[2] = 0.3 + 0.1 * float(util.rand(g, 1))
    pts = [(m, v) for m in pm for v in pv]
    # values as the rule sees them (rounded to the dtype; MVN.variance clamps at the documented minimum)
    mt = torch.tensor([p[0] for p in pts], dtype=dtype)
    vt = torch.tensor([p[1] for p in pts], dtype=dtype)
    seen = [(float(a), max(float(b), MIN_VAR_DOUBLE) if kind == "mvn" else float(b)) for a, b in zip(mt.double(), vt.double())]
    kmax = 2 * n
    t, w = Q.gh_nodes(n)
    ks = np.arange(kmax + 1)[:, None]
    ref, scale, xmax = [], [], []
    for m, v in seen:
        ref.append(Q.normal_moments(kmax, m, v))
        x = np.abs(m + math.sqrt(2.0 * v) * t)
        xmax.append(float(x.max()))
        with np.errstate(all="ignore"):
            scale.append((w[None, :] * x[None, :] ** ks).sum(-1))
    ref, scale, xmax = np.array(ref), np.array(scale), np.array(xmax)  # (npts, kmax+1)
    skipped = 0
    eps = torch.finfo(dtype).eps
    idx = _layout(pts, shape if kind == "normal" or shape else ())
    gshape = idx.shape[:-1]
    worst, nbad, first = 0.0, 0, None
    sharp_cases = sharp_inexact = 0
    for j in range(idx.shape[-1]):
        sel = idx[..., j]  # shape gshape
        mean = mt[torch.as_tensor(sel)].reshape(gshape)
        var = vt[torch.as_tensor(sel)].reshape(gshape)
        if kind == "normal":
            dist = torch.distributions.Normal(mean, var.sqrt())
        else:
            mm, vv = (mean.reshape(1), var.reshape(1)) if not gshape else (mean, var)
            dist = MVN(mm, torch.diag_embed(vv))
        for k in range(kmax + 1):
            with fails.guard("gh-poly"):
                val = rule(lambda x, k=k: x ** k, dist)
                ops += 1
                val = val.double().reshape(-1).numpy()
                flat = np.asarray(sel).reshape(-1)
                if val.shape != flat.shape:
                    _add(fails, "gh-poly", f"result shape {val.shape} for distribution batch {tuple(gshape)}", degree=k)
                    continue
                rel = np.abs(val - ref[flat, k]) / np.maximum(scale[flat, k], 1e-300)
                rel = np.where(np.isfinite(rel), rel, np.inf)
                out_of_range = np.zeros(flat.shape, dtype=bool)
                if dtype != F64:  # domain: x_i^k must be representable in the dtype of the rule
                    with np.errstate(over="ignore"):
                        out_of_range = (np.maximum(xmax[flat], 1.0) ** k > 1e36) | (scale[flat, k] < 1e-30)  # overflow / underflow
                    skipped += int(out_of_range.sum())
                    rel = np.where(out_of_range, 0.0, rel)
                if k < kmax:
                    tol = 1e-10 if dtype == F64 else (2 * k + 16) * eps
                    bad = rel > tol
                    if bad.any():
                        nbad += int(bad.sum())
                        if first is None or float(rel.max()) > worst:
                            i = int(np.argmax(rel))
                            first = (k, seen[flat[i]], float(val[i]), float(ref[flat[i], k]))
                    worst = max(worst, float(rel.max()))
                else:  # sharpness at degree 2n: predicted defect n! v^n
                    pred = np.array([math.factorial(n) * seen[i][1] ** n for i in flat]) / np.maximum(scale[flat, k], 1e-300)
                    cases = (pred > 1e-8) & ~out_of_range
                    sharp_cases += int(cases.sum())
                    sharp_inexact += int((cases & (rel > 1e-10)).sum())
    if nbad:
        k, (m, v), got, want = first
        _add(fails, "gh-poly", f"degree <= 2n-1 not integrated exactly: err={worst:.3e} (relative to sum|w f|) at degree {k}",
             f"n={n} m={m} v={v}: rule={got!r} exact moment={want!r}; {nbad} (degree, m, v) combinations beyond tolerance", degree=k)
    notes["gh_poly_evaluations"] = ops - 1
    _DIAG["gh_worst_rel"] = worst
    if skipped:
        notes["gh_float32_out_of_range_skipped"] = skipped
    notes["gh_deg2n_cases"] = sharp_cases
    notes["gh_deg2n_inexact_as_predicted"] = sharp_inexact
    return ops


# ================================================================================================== the setting
def run_setting(cell, g, fails, notes, feats):
    ops = 0
    with fails.guard("num-locs-setting"):
        q = GaussHermiteQuadrature1D()
        if q.locations.numel() != 20:
            _add(fails, "num-locs-setting", f"default rule has {q.locations.numel()} nodes, documented default 20")
    m = torch.tensor([0.3, -1.1])
    v = torch.tensor([0.7, 1.9])
    dist = MVN(m, torch.diag_embed(v))
    for name, cls in LIKS.items():
        y = torch.tensor(YS[name])
        prev = None
        for n in NUM_LOCS:
            with fails.guard("num-locs-setting"):
                with settings.num_gauss_hermite_locs(n):
                    lik = cls()
                    got_n = lik.quadrature.locations.numel()
                    got = lik.expected_log_prob(y, dist)
                ops += 2
                if got_n != n:
                    _add(fails, "num-locs-setting", f"likelihood constructed under num_gauss_hermite_locs({n}) has {got_n} nodes", likelihood=name,
                         num_locs=n)
                    continue
                # behavioural: the value is the n-node rule applied to the conditional log density (library rule, verified by gh-poly)
                rule = GaussHermiteQuadrature1D(n)
                if name == "Bernoulli":
                    want = rule(lambda f: log_normal_cdf(f * (2 * y - 1)), dist)
                else:
                    want = rule(lambda f: lik.forward(f).log_prob(y), dist)
                ok, msg = util.close(got, want, 1e-12, 1e-12)
                if not ok:
                    _add(fails, "num-locs-setting", f"expected_log_prob under num_gauss_hermite_locs({n}) is not the {n}-node rule: err={msg}",
                         likelihood=name, num_locs=n)
                if prev is not None and name != "Bernoulli" and float((got - prev).abs().max()) == 0.0:
                    _add(fails, "num-locs-setting", f"expected_log_prob identical for {n} nodes and the previous node count: setting not used",
                         likelihood=name, num_locs=n)
                prev = got
    return ops


# ================================================================================================== Bernoulli identity
def run_bernoulli(cell, g, fails, notes, feats):
    shape = tuple(cell["shape"])
    ms = [-50.0, -5.0, -2.0, 0.0, 0.7 + 0.1 * float(util.rand(g, 1)), 3.0, 50.0]
    vs = [1e-12, 0.01, 0.5, 2.0, 100.0]
    pts = [(m, v) for m in ms for v in vs]
    idx = _layout(pts, shape)
    mean = torch.tensor([p[0] for p in pts], dtype=F64)[torch.as_tensor(idx)]
    var = torch.tensor([p[1] for p in pts], dtype=F64)[torch.as_tensor(idx)]
    dist = MVN(mean, torch.diag_embed(var))
    lik = BernoulliLikelihood()
    link = (mean / torch.sqrt(1 + var.clamp_min(MIN_VAR_DOUBLE))).numpy()
    want_p = torch.from_numpy(Q.special.ndtr(link))
    ops = 0
    for how in ("__call__", "marginal"):
        with fails.guard("bernoulli-marginal"):
            out = lik(dist) if how == "__call__" else lik.marginal(dist)
            ops += 1
            if not isinstance(out, torch.distributions.Bernoulli):
                _add(fails, "bernoulli-marginal", f"{how} returns {type(out).__name__}, documented Bernoulli")
                continue
            ok, msg = util.close(out.probs, want_p, 1e-12, 0)
            if not ok:
                _add(fails, "bernoulli-marginal", f"{how}(dist).probs != Phi(m / sqrt(1+v)): err={msg}")
    sat = 0
    for yv in (0.0, 1.0):
        with fails.guard("bernoulli-log-marginal"):
            y = torch.full(mean.shape, yv, dtype=F64)
            got = lik.log_marginal(y, dist)
            ops += 1
            want = Q.log_phi((2 * yv - 1) * link)
            py = np.exp(want)
            with np.errstate(divide="ignore"):
                tol = 1e-12 + np.where(py > 1e-290, 8 * 2.220446049250313e-16 / np.maximum(py, 1e-300), np.inf)
            sat += int(np.isinf(tol).sum())
            if tuple(got.shape) != want.shape:
                _add(fails, "bernoulli-log-marginal", f"shape {tuple(got.shape)} != {want.shape}")
                continue
            err = np.abs(got.numpy() - want)
            err = np.where(np.isnan(err), np.inf, err)
            bad = err > tol
            if bad.any():
                i = np.unravel_index(int(np.argmax(np.where(bad, err, -1))), err.shape)
                _add(fails, "bernoulli-log-marginal", f"log_marginal != log Phi((2y-1) m / sqrt(1+v)): err={err[i]:.3e}",
                     f"y={yv} m={float(mean[i])} v={float(var[i])} got={float(got[i])!r} want={float(want[i])!r}")
    notes["bernoulli_lm_saturated"] = sat
    return ops


# ================================================================================================== call sequences on one instance
def run_call_sequence(cell, g, fails, notes, feats):
    """A likelihood holds no state besides its parameters: on ONE instance, after every sequence of at most three calls (method x kind of
    observation batch), each call returns what a freshly built instance returns for the same arguments. All sequences are enumerated."""
    import itertools
    import warnings
    name = cell["likelihood"]
    n = 4
    m, C = util.randn(g, n), util.spd(g, n)
    dg = util.rand(g, n) + 0.3

    def mkdist(rep):
        """the latent distribution in three covariance representations (a call must not modify the distribution it is given)"""
        from linear_operator import to_linear_operator
        from linear_operator.operators import DiagLinearOperator
        if rep == "tensor":
            return MVN(m.clone(), C.clone())
        if rep == "lazy":
            return MVN(m.clone(), to_linear_operator(C.clone()))
        return MVN(m.clone(), DiagLinearOperator(dg.clone()))

    COV = {"tensor": C, "lazy": C, "diag": torch.diag(dg)}
    if name == "Bernoulli":
        obs = {"ones": torch.ones(n), "zeros": torch.zeros(n), "01": torch.tensor([0.0, 1.0, 1.0, 0.0]),
               "-1+1": torch.tensor([-1.0, 1.0, 1.0, -1.0]), "all-1": -torch.ones(n)}
    elif name == "Beta":
        obs = {"a": torch.tensor([0.2, 0.7, 0.5, 0.9]), "b": torch.tensor([0.6, 0.1, 0.3, 0.8])}
    else:
        obs = {"a": torch.tensor([-0.5, 1.2, 0.3, 2.0]), "b": torch.tensor([1.5, -1.2, 0.0, 0.4]), "c": torch.zeros(n)}
    obs = {k: v.to(F64) for k, v in obs.items()}
    first = next(iter(obs))
    # (method, observations, covariance representation): every method on the tensor-backed distribution; the lazily held ones with one
    # observation set (their storage is shared with what `variance` / `mean` hand out, so an in-place operation would write through)
    alphabet = [(meth, k, "tensor") for meth in ("expected_log_prob", "log_marginal") for k in obs] + [("marginal", None, "tensor")]
    alphabet += [(meth, (first if meth != "marginal" else None), rep) for rep in ("lazy", "diag") for meth in ("marginal", "log_marginal", "expected_log_prob")]

    def call(lik, a, dists):
        meth, k, rep = a
        dist = dists[rep]
        torch.manual_seed(17)  # the sampling-based marginal of the non-analytic likelihoods draws from the global generator: owned
        with warnings.catch_warnings():
            warnings.simplefilter("ignore")
            if meth == "marginal":
                out = lik(dist)
                return torch.cat([getattr(out, "probs", getattr(out, "mean", None)).reshape(-1)])
            return getattr(lik, meth)(obs[k], dist)

    def fresh():
        return _build_lik(name, PSETS[name][0], ()), {rep: mkdist(rep) for rep in COV}

    want = {}
    for a in alphabet:
        try:
            (lik, _), dists = fresh()
            want[a] = call(lik, a, dists)
        except Exception as e:  # judged by the other cells; a call that raises on a fresh instance is not part of the alphabet
            want[a] = None
    alphabet = [a for a in alphabet if want[a] is not None]
    nseq = 0
    for depth in (1, 2, 3):
        if len(fails) > 8:
            break
        for seq in itertools.product(alphabet, repeat=depth):
            (lik, _), dists = fresh()
            nseq += 1
            for i, a in enumerate(seq):
                hist = [f"{x[0]}({x[1]},{x[2]})" for x in seq[:i]]
                try:
                    got = call(lik, a, dists)
                except Exception as e:
                    _add(fails, "call-sequence", f"{a[0]}({a[1]},{a[2]}) raises after {hist}: {util.exc_str(e)}")
                    break
                if tuple(got.shape) != tuple(want[a].shape) or util.maxerr(got, want[a]) > 1e-12:
                    _add(fails, "call-sequence", f"{a[0]} on observations '{a[1]}' ({a[2]} covariance) after the calls {hist} differs from "
                         f"fresh objects: err={util.maxerr(got, want[a]) if tuple(got.shape) == tuple(want[a].shape) else float('nan'):.3e}")
                    break
                dd = dists[a[2]]
                if util.maxerr(dd.covariance_matrix, COV[a[2]]) > 0 or util.maxerr(dd.mean, m) > 0:
                    _add(fails, "call-sequence", f"{a[0]} ({a[2]} covariance) modified the distribution it was given: "
                         f"covariance changed by {util.maxerr(dd.covariance_matrix, COV[a[2]]):.3e}")
                    break
    notes["sequences"] = nseq
    return nseq


# ================================================================================================== conditional distributions
def _build_lik(name, params, lb, g=None):
    """likelihood with batch shape lb; parameter values per batch element (smoother than / equal to the base set): returns (lik, dict of
    arrays of shape lb)"""
    cls = LIKS[name]
    if name == "Bernoulli":
        return cls(), {}
    lik = cls(batch_shape=torch.Size(lb))
    nb = int(np.prod(lb)) if lb else 1
    ramp = (np.arange(nb) / max(nb - 1, 1)).reshape(lb) if lb else np.zeros(())
    vals = {}
    for k, base in params.items():
        if k == "noise":
            vals[k] = base * (1.0 + 0.5 * ramp)
        elif k == "deg_free":
            vals[k] = base + 2.0 * ramp
        elif k == "scale":
            vals[k] = base / (1.0 + 0.5 * ramp)
    for k, a in vals.items():
        setattr(lik, k, torch.as_tensor(np.asarray(a, dtype=np.float64)).reshape(*lb, 1))
    return lik, vals


def _doc_logp(name, pv):
    """documented conditional log density log p(y | f) with the parameter values pv (floats)"""
    if name == "Bernoulli":
        return lambda y, f: Q.logp_bernoulli(y, f)
    if name == "Laplace":
        b = math.sqrt(pv["noise"])
        return lambda y, f: Q.logp_laplace(y, f, b)
    if name == "StudentT":
        df, sc = pv["deg_free"], math.sqrt(pv["noise"])
        return lambda y, f: Q.logp_student_t(y, f, df, sc)
    if name == "Beta":
        s = pv["scale"]
        return lambda y, f: Q.logp_beta(y, f, s)
    raise AssertionError(name)


def _pv_at(vals, bidx):
    return {k: float(np.asarray(a)[bidx]) if np.asarray(a).ndim else float(a) for k, a in vals.items()}


def run_forward(cell, g, fails, notes, feats):
    name, shape, lik_batch = cell["likelihood"], tuple(cell["shape"]), cell["lik_batch"]
    lb = shape if lik_batch else ()
    n, S = 3, 4
    lik, vals = _build_lik(name, PSETS[name][0], lb)
    f = 1.5 * util.randn(g, S, *shape, n)
    if name == "Beta":
        y = 0.05 + 0.9 * util.rand(g, *shape, n)
    elif name == "Bernoulli":
        y = (util.rand(g, *shape, n) > 0.5).to(F64)
    else:
        y = util.randn(g, *shape, n)
    ops = 0
    for how in ("__call__", "forward"):
        with fails.guard("forward-params"):
            cond = lik(f) if how == "__call__" else lik.forward(f)
            ops += 1
            full = (S, *shape, n)
            pexp = {k: torch.as_tensor(np.asarray(a, dtype=np.float64)).reshape(*lb, 1).expand(*shape, n).expand(full) for k, a in vals.items()}
            want_type = {"Bernoulli": "Bernoulli", "Laplace": "Laplace", "StudentT": "StudentT", "Beta": "Beta"}[name]
            if type(cond).__name__ != want_type:
                _add(fails, "forward-params", f"{how} returns {type(cond).__name__}, documented {want_type}")
                continue

            def chk(label, got, want, tol=1e-12):
                got = got.expand(full) if tuple(got.shape) != full else got
                ok, msg = util.close(got, want, tol, tol)
                if not ok:
                    extra = ""
                    if name == "Beta" and util.close(got, want + 1.0, tol, tol)[0]:
                        extra = "; equals the documented value + 1"
                    _add(fails, "forward-params", f"{label} of the conditional != documented: err={msg}{extra}", f"via {how}")

            if name == "Bernoulli":
                chk("probs = Phi(f)", cond.probs, torch.from_numpy(Q.special.ndtr(f.numpy())))
            elif name == "Laplace":
                chk("loc = f", cond.loc, f)
                chk("scale = sqrt(noise)", cond.scale, pexp["noise"].sqrt())
            elif name == "StudentT":
                chk("df = nu", cond.df, pexp["deg_free"])
                chk("loc = f", cond.loc, f)
                chk("scale = sigma = sqrt(noise)", cond.scale, pexp["noise"].sqrt())
            elif name == "Beta":
                mix = torch.from_numpy(Q.special.expit(f.numpy()))
                chk("concentration1 = sigma(f) s", cond.concentration1, mix * pexp["scale"])
                chk("concentration0 = (1 - sigma(f)) s", cond.concentration0, (1 - mix) * pexp["scale"])
            # observable: the density itself
            got = cond.log_prob(y)
            ops += 1
            want = torch.empty(full, dtype=F64)
            for ix in np.ndindex(*full):
                pvx = _pv_at(vals, ix[1:1 + len(lb)]) if lb else _pv_at(vals, ())
                want[ix] = _doc_logp(name, pvx)(float(y[ix[1:]]), float(f[ix]))
            ok, msg = util.close(got, want, 1e-10, 1e-10)
            if not ok:
                extra = ""
                if name == "Beta":
                    alt = torch.empty(full, dtype=F64)
                    for ix in np.ndindex(*full):
                        pvx = _pv_at(vals, ix[1:1 + len(lb)]) if lb else _pv_at(vals, ())
                        alt[ix] = Q.logp_beta(float(y[ix[1:]]), float(f[ix]), pvx["scale"], shift=1.0)
                    if util.close(got, alt, 1e-10, 1e-10)[0]:
                        extra = "; equals log Beta(y; sigma(f) s + 1, (1 - sigma(f)) s + 1)"
                _add(fails, "forward-density", f"log p(y|f) of the conditional != documented density: err={msg}{extra}", f"via {how}")
    return ops


# ================================================================================================== ELP / log_marginal vs adaptive quadrature
def run_elp(cell, g, fails, notes, feats):
    name, shape, lik_batch, pset = cell["likelihood"], tuple(cell["shape"]), cell["lik_batch"], cell["pset"]
    lb = shape if lik_batch else ()
    ems, evs, ys = list(EM), list(EV), list(YS[name])
    if cell.get("dense"):
        ems, evs = [-2.0, -1.0, 0.0, 0.7, 1.5, 3.0], [0.01, 0.1, 0.5, 1.0, 2.0]
    jit = 0.02 * (util.rand(g, 2) - 0.5)
    ems = [m + float(jit[0]) if m == 0.7 else m for m in ems]
    if name != "Bernoulli":
        ys = [ys[0], ys[1] + float(jit[1])]
    pts = [(m, v, y) for m in ems for v in evs for y in ys]
    idx = _layout(pts, shape)
    ti = torch.as_tensor(idx)
    mean = torch.tensor([p[0] for p in pts], dtype=F64)[ti]
    var = torch.tensor([p[1] for p in pts], dtype=F64)[ti]
    y = torch.tensor([p[2] for p in pts], dtype=F64)[ti]
    n = idx.shape[-1]
    if n > 1 and shape:  # only the variances matter: equicorrelated covariance
        sd = var.sqrt()
        C = 0.3 * sd.unsqueeze(-1) * sd.unsqueeze(-2)
        C = C + torch.diag_embed(var - C.diagonal(dim1=-1, dim2=-2))
    else:
        C = torch.diag_embed(var)
    dist = MVN(mean, C)
    _, vals = _build_lik(name, PSETS[name][pset], lb)
    # references (independent of the node count)
    ref = {"elp": np.empty(idx.shape), "lm": np.empty(idx.shape)}
    alt = {"elp": np.empty(idx.shape), "lm": np.empty(idx.shape)} if name == "Beta" else None
    cache = {}
    for ix in np.ndindex(*idx.shape):
        pvx = _pv_at(vals, ix[:len(lb)]) if lb else _pv_at(vals, ())
        key = (idx[ix], tuple(sorted(pvx.items())))
        if key not in cache:
            m_, v_, y_ = pts[idx[ix]]
            lp = _doc_logp(name, pvx)
            kinks = (y_,) if name == "Laplace" else ()
            e = Q.expect(lambda f: lp(y_, f), m_, v_, kinks)
            lm = math.log(Q.expect(lambda f: math.exp(lp(y_, f)), m_, v_, kinks))
            if alt is not None:
                e2 = Q.expect(lambda f: Q.logp_beta(y_, f, pvx["scale"], 1.0), m_, v_)
                lm2 = math.log(Q.expect(lambda f: math.exp(Q.logp_beta(y_, f, pvx["scale"], 1.0)), m_, v_))
            else:
                e2 = lm2 = None
            cache[key] = (e, lm, e2, lm2)
        e, lm, e2, lm2 = cache[key]
        ref["elp"][ix], ref["lm"][ix] = e, lm
        if alt is not None:
            alt["elp"][ix], alt["lm"][ix] = e2, lm2
    notes["reference_integrals"] = 2 * len(cache) * (2 if alt is not None else 1)
    ops = 0
    errs = {"elp": {}, "lm": {}}
    aerrs = {"elp": {}, "lm": {}}
    where = {"elp": {}, "lm": {}}
    for nl in NODE_CHAIN:
        with settings.num_gauss_hermite_locs(nl):
            lik, _ = _build_lik(name, PSETS[name][pset], lb)
        if lik.quadrature.locations.numel() != nl:
            _add(fails, "num-locs-setting", f"likelihood constructed under num_gauss_hermite_locs({nl}) has {lik.quadrature.locations.numel()} nodes",
                 num_locs=nl)
        for meth in ("elp", "lm"):
            sub = "expected_log_prob" if meth == "elp" else "log_marginal"
            with fails.guard(sub):
                got = (lik.expected_log_prob if meth == "elp" else lik.log_marginal)(y, dist)
                ops += 1
                if tuple(got.shape) != idx.shape:
                    _add(fails, sub, f"result shape {tuple(got.shape)} != {idx.shape}", num_locs=nl)
                    continue
                gn = got.numpy()
                d = np.abs(gn - ref[meth])
                d = np.where(np.isnan(d), np.inf, d)
                errs[meth][nl] = float(d.max())
                i = np.unravel_index(int(np.argmax(d)), d.shape)
                where[meth][nl] = (pts[idx[i]], float(gn[i]), float(ref[meth][i]))
                if alt is not None:
                    d2 = np.abs(gn - alt[meth])
                    aerrs[meth][nl] = float(np.where(np.isnan(d2), np.inf, d2).max())
    # ---- outlying observations: log_marginal must stay the log of the (tiny) marginal density, far below log(eps)
    if name == "Laplace" and not shape and not lik_batch:
        pv0 = _pv_at(vals, ())
        lp = _doc_logp(name, pv0)
        with settings.num_gauss_hermite_locs(NODE_CHAIN[-1]):
            lik_o, _ = _build_lik(name, PSETS[name][pset], ())
        for m_, v_, off in [(0.0, 0.5, 30.0), (0.7, 2.0, -45.0), (-2.0, 0.01, 80.0)]:
            y_ = m_ + off
            c = lp(y_, m_)  # scale the integrand so that the reference integral is O(1)
            ref_o = c + math.log(Q.expect(lambda f: math.exp(lp(y_, f) - c), m_, v_))
            with fails.guard("log_marginal-outlier"):
                got_o = float(lik_o.log_marginal(torch.tensor([y_], dtype=F64), MVN(torch.tensor([m_], dtype=F64), torch.tensor([[v_]], dtype=F64))))
                ops += 1
                if not abs(got_o - ref_o) <= 1e-3 * abs(ref_o):
                    _add(fails, "log_marginal-outlier", f"log_marginal of an outlying observation != log of the marginal density: err={abs(got_o - ref_o):.3e}",
                         f"y - m = {off}, v = {v_}: got {got_o:.6f} want {ref_o:.6f} (log eps = {math.log(2.2e-16):.2f})")
    for meth in ("elp", "lm"):
        sub = "expected_log_prob" if meth == "elp" else "log_marginal"
        if len(errs[meth]) != len(NODE_CHAIN):
            continue
        env = {nl: SAFETY * MEASURED[meth][name][i] for i, nl in enumerate(NODE_CHAIN)}
        floor = LNCDF_BOUND if (name == "Bernoulli" and meth == "elp") else 0.0

        def verdict(E):
            bad = []
            if not E[NODE_CHAIN[-1]] <= E[NODE_CHAIN[0]] + 1e-12 + floor:
                bad.append(("chain", NODE_CHAIN[-1], f"error does not shrink with nodes: err={E[NODE_CHAIN[-1]]:.3e} at {NODE_CHAIN[-1]} nodes > "
                            f"{E[NODE_CHAIN[0]]:.3e} at {NODE_CHAIN[0]} nodes"))
            for nl in NODE_CHAIN:
                if not E[nl] <= env[nl]:
                    bad.append(("envelope", nl, f"outside the truncation-error envelope of the integrand class: err={E[nl]:.3e} > {env[nl]:.1e} "
                                f"at {nl} nodes"))
            return bad

        _DIAG[meth] = dict(errs[meth])
        if alt is not None:
            _DIAG[meth + "_vs_forward"] = dict(aerrs[meth])
        bad = verdict(errs[meth])
        if bad:
            extra = ""
            if alt is not None:
                extra = ("; equals the integral under Beta(sigma(f) s + 1, (1 - sigma(f)) s + 1) (what forward() returns) up to truncation error "
                         f"(err {aerrs[meth][NODE_CHAIN[-1]]:.1e} at {NODE_CHAIN[-1]} nodes)") if not verdict(aerrs[meth]) else "; uncharacterised"
            for kind, nl, msg in bad[:2]:
                (m_, v_, y_), got_, want_ = where[meth][nl]
                _add(fails, sub, f"{sub} vs integral of the documented density: {msg}{extra}",
                     f"worst at m={m_} v={v_} y={y_}: got {got_!r} reference {want_!r}; errors by node count {errs[meth]}", num_locs=nl, kind=kind)
        for nl in NODE_CHAIN:
            notes[f"{meth}_within_envelope"] = notes.get(f"{meth}_within_envelope", 0) + int(errs[meth][nl] <= env[nl])
    return ops


# ================================================================================================== softmax
def run_softmax(cell, g, fails, notes, feats):
    mixing = cell["mixing"]
    nf, nc, n, S = (3, 4, 5, 2) if mixing else (4, 4, 5, 2)
    with fails.guard("softmax"):
        lik = SoftmaxLikelihood(num_features=nf, num_classes=nc, mixing_weights=mixing)
        if mixing:
            W = util.randn(g, nc, nf)
            lik.mixing_weights.data.copy_(W)
        else:
            W = torch.eye(nc, dtype=F64)
        f = util.randn(g, S, n, nf)
        cond = lik(f)
        if type(cond).__name__ != "Categorical":
            _add(fails, "softmax", f"conditional is {type(cond).__name__}, documented Categorical (Softmax(W f))")
            return 1
        z = torch.einsum("cf,snf->snc", W, f)
        want = torch.exp(z - z.max(-1, keepdim=True).values)
        want = want / want.sum(-1, keepdim=True)
        ok, msg = util.close(cond.probs, want, 1e-12, 1e-12)
        if not ok:
            _add(fails, "softmax", f"p(y|f) != Softmax(W f): err={msg}")
    return 1


# ================================================================================================== log_normal_cdf
def _region(zd):
    """a-priori regions of the real line (from the implementation's branch structure and magnitude): codes 0..3"""
    r = np.full(zd.shape, 1, dtype=np.int8)  # ordinary: z >= -1, not near zero
    r[zd * zd < 0.04] = 0  # near zero
    r[zd < -1.0] = 2  # small
    r[zd < -1e3] = 3  # tail
    return r


REGIONS = ["near0", "ordinary", "small", "tail"]


def lncdf_check(z, fails, notes, extra_feats=None):
    """z: 1-d tensor of finite values (float32 or float64); evaluates forward + custom backward on the real code"""
    if z.numel() == 0:
        return 0
    dtype = z.dtype
    fi = torch.finfo(dtype)
    dname = str(dtype).split(".")[-1]
    ef = dict(extra_feats or {})
    try:
        with torch.enable_grad():
            zz = z.clone().requires_grad_(True)
            out = log_normal_cdf(zz)
            grad1, = torch.autograd.grad(out, zz, torch.ones_like(out), retain_graph=True)
            # the derivative is a function of z: a second request through the same (retained) graph - Jacobian rows, two losses sharing a
            # probit term - returns the same numbers
            grad, = torch.autograd.grad(out, zz, torch.ones_like(out))
            if not torch.equal(grad1, grad):
                bad_ = (grad1 != grad) & ~(torch.isnan(grad1) & torch.isnan(grad))
                if bool(bad_.any()):
                    i_ = int(bad_.nonzero()[0])
                    _add(fails, "lncdf-grad", f"second backward through the same graph differs from the first at z={float(z[i_])!r}: "
                         f"{float(grad1[i_])!r} then {float(grad[i_])!r}", f"{int(bad_.sum())} of {z.numel()} entries", **ef)
            grad = grad1
    except Exception as e:  # noqa: BLE001 -- an exception on finite input is a fail of the value sub-check, not of the harness
        _add(fails, "lncdf-value", util.exc_str(e), f"{z.numel()} finite {dtype} inputs from {float(z.min())!r} to {float(z.max())!r}", **ef)
        return 1
    if out.shape != z.shape or grad.shape != z.shape or out.dtype != dtype:
        _add(fails, "lncdf-value", f"result shape/dtype {tuple(out.shape)}/{out.dtype} for input {tuple(z.shape)}/{dtype}", **ef)
        return 1
    o = out.detach().double().numpy()
    gr = grad.double().numpy()
    zd = z.double().numpy()
    ref = Q.log_phi(zd)
    gref = Q.dlog_phi(zd)
    notes["lncdf_points"] = notes.get("lncdf_points", 0) + int(z.numel())
    with np.errstate(all="ignore"):
        hi = zd >= -1.0
        aref = np.abs(ref)
        err = np.abs(o - ref)
        if dtype == F64:
            tol = np.where(hi, 1e-12 + 1e-10 * aref, LNCDF_BOUND + 4 * fi.eps * aref)
        else:
            tol = np.where(hi, 4 * fi.eps * (1.0 + aref), LNCDF_BOUND + 4 * fi.eps * aref)
        fin = np.isfinite(o)
        below = aref > fi.max  # log Phi below the dtype's range: -inf (or the most negative float) is the rounded value
        ovf_ok = below & ((o == -np.inf) | (o <= -fi.max * (1 - 4 * fi.eps)))
        nonfinite = ~fin & ~ovf_ok
        rv = err / tol
        rv[~fin | ovf_ok] = 0.0
        bad_val = rv > 1.0
        gtol = LNCDF_BOUND * np.abs(gref) + 4 * fi.tiny
        gerr = np.abs(gr - gref)
        # phi/Phi ~ |z| (1 + 1/z^2) exceeds |z|: at the largest finite float the true derivative rounds to +inf
        g_nonfinite = ~np.isfinite(gr) & ~(np.abs(gref) >= fi.max * (1 - 8 * fi.eps))
        rg = gerr / gtol
        rg[~np.isfinite(gr)] = 0.0  # non-finite gradients are reported (or excused at the overflow edge) through g_nonfinite
        g_bad = rg > 1.0
    notes["lncdf_err_above_1.9e-3"] = notes.get("lncdf_err_above_1.9e-3", 0) + int(np.count_nonzero((err > 1.9e-3) & fin & (zd > -1e3)))
    for key, arr, msk in (("val_z>=-1", rv, hi), ("val_z<-1", rv, ~hi), ("grad_z>=-1", rg, hi), ("grad_z<-1", rg, ~hi)):
        _DIAG[key + "_err_over_tol"] = max(_DIAG.get(key + "_err_over_tol", 0.0), float(np.max(arr, where=msk, initial=0.0)))
    if not (nonfinite.any() or bad_val.any() or g_nonfinite.any() or g_bad.any()):
        return 2
    # ---- slow path: break the failures down by a-priori region
    reg = _region(zd)
    for code, rname in enumerate(REGIONS):
        sel = reg == code
        if not sel.any():
            continue
        for sub, nf, bad, e, t, r_, ratio in (("lncdf-value", nonfinite, bad_val, err, tol, ref, rv), ("lncdf-grad", g_nonfinite, g_bad, gerr, gtol, gref, rg)):
            got = o if sub == "lncdf-value" else gr
            what = "log Phi" if sub == "lncdf-value" else "phi/Phi"
            m = nf & sel
            if m.any():
                zs = zd[m]
                j = np.flatnonzero(m)[int(np.argmax(zs))]  # closest to zero
                _add(fails, sub, f"non-finite result for finite z in {dname}: {got[j]} at z={zd[j]:.9g} ({what} = {r_[j]:.9g})",
                     f"{int(m.sum())} of {int(sel.sum())} points of region '{rname}' in this chunk, z from {zs.min():.9g} to {zs.max():.9g}",
                     region=rname, **ef)
            m = bad & sel
            if m.any():
                j = int(np.argmax(np.where(m, ratio, -1.0)))
                kind = "abs" if sub == "lncdf-value" else "abs (tolerance 2e-3 relative)"
                _add(fails, sub, f"{what} mismatch: {kind} err={e[j]:.3e} > {t[j]:.3e} at z={zd[j]:.17g}",
                     f"got {got[j]!r} want {r_[j]!r}; {int(m.sum())} of {int(sel.sum())} points of region '{rname}' in this chunk", region=rname, **ef)
    return 2


def _neighbours(x, dtype, k=64):
    """x rounded to dtype and the k floats on either side"""
    npdt = np.float32 if dtype == torch.float32 else np.float64
    c = npdt(x)
    out = [c]
    lo = hi = c
    for _ in range(k):
        lo = np.nextafter(lo, npdt(-np.inf))
        hi = np.nextafter(hi, npdt(np.inf))
        out += [lo, hi]
    return np.array(sorted(out), dtype=npdt)


def run_lncdf_boundary(cell, g, fails, notes, feats):
    dtype = getattr(torch, cell["dtype"])
    # branch boundaries of the implementation: z^2 < 0.04 (|z| = 0.2), z < -1; plus 0 and the first/last ordinary points
    vals = np.concatenate([_neighbours(b, dtype) for b in (-1.0, -0.2, 0.2, math.sqrt(0.04), -math.sqrt(0.04), 0.0, 1.0, -2.0)])
    vals = np.unique(vals)
    return lncdf_check(torch.from_numpy(vals), fails, notes)


def run_lncdf_tails(cell, g, fails, notes, feats):
    dtype = getattr(torch, cell["dtype"])
    fi = torch.finfo(dtype)
    kmax = int(math.floor(math.log10(fi.max)))
    mags = [10.0 ** k for k in range(0, kmax + 1)] + [3.0 * 10.0 ** k for k in range(0, kmax)] + [fi.max]
    vals = torch.tensor(sorted([-a for a in mags] + mags), dtype=dtype)
    vals = vals[torch.isfinite(vals)]
    return lncdf_check(vals, fails, notes)


def run_lncdf_lattice(cell, g, fails, notes, feats):
    n, parts, part = cell["n"], cell["parts"], cell["part"]
    i = np.arange(part * n // parts, (part + 1) * n // parts, dtype=np.float64)
    z = cell["lo"] + (cell["hi"] - cell["lo"]) * i / (n - 1)
    return lncdf_check(torch.from_numpy(z), fails, notes)


def run_lncdf_sweep(cell, g, fails, notes, feats):
    lo, hi, stride = cell["lo"], cell["hi"], cell["stride"]
    ev = getattr(torch, cell["eval"])
    ops = 0
    step = SUB * stride
    for a in range(lo, hi, step):
        bits = np.arange(a, min(a + step, hi), stride, dtype=np.int64).astype(np.uint32)
        z = bits.view(np.float32)
        z = z[np.isfinite(z)]
        notes["f32_patterns"] = notes.get("f32_patterns", 0) + int(z.size)
        if z.size == 0:
            continue
        ops += lncdf_check(torch.from_numpy(z).to(ev), fails, notes)
    return ops
