"""C05 — kernel values equal the documented covariance functions and derivatives (Engine G).

Every kernel class exported by gpytorch.kernels that evaluates on CPU (KeOps, MultiDevice and the structural kernels of C09
excluded) is called on the real code in every cell of the lattice below and compared with gpmc/refs/kernels.py: the documented
covariance function written as a scalar function of ONE pair of rows and the public parameter values of ONE batch element,
applied to all pairs.  Derivative kernels are compared with torch.autograd partial derivatives of the base reference in the
documented per-point interleaved layout.  Sums / products / scalings are compared with the sums / products / scalings of the
references of their parts.
"""
import contextlib
import hashlib
import itertools

import torch

import gpytorch
from gpytorch import kernels as K

from gpmc import util
from gpmc.refs import kernels as R
from gpmc.util import Fails, F64

PROPERTY = "C05"
RULE = ("cells = kernel (every CPU class of gpytorch.kernels incl. every nu / q / power branch; all ordered pairs of the basis {RBF, Matern-3/2, "
        "Linear, Periodic, Constant} under + and *; ScaleKernel of each; Additive/ProductStructure and NewtonGirard over {RBF, Matern-3/2, Periodic}; "
        "the four derivative kernels; sum_interaction_terms) x input dim d {1,2,3} x (n1,n2) {(1,1),(2,3),(3,2),(4,4) x2 = x1,(3,3) x2 = None} x "
        "ARD on/off (where the constructor supports it) x kernel batch {(),(2,)} x 2 parameter valuations (public setters) x mode {full, diag; diag "
        "only where x1 == x2, as documented} x path {fast, autograd: inputs require grad; RBF/Matern also no_grad and trace_mode} x geometry {generic, "
        "duplicated rows, rows 1e-9 apart, far apart}; quick = d {1,3}, first valuation, geometries {generic, duplicated}; "
        "distinct/non-trivial = distinct cell whose kernel call returned and was compared entry by entry")
ASSUMPTIONS = [
    "reference parameter values are read from the kernel's public properties (lengthscale, period_length, alpha, ...) after they were set "
    "through the public setters; setter round trips are C17's subject",
    "batched kernels are called on inputs that carry the kernel's batch shape (the documented use); parameter-vs-data broadcasting is C08's subject",
    "SpectralMixtureKernel: product over input dimensions of 1-d mixtures with mixture_scales entering as frequency standard deviations "
    "(exp(-2 pi^2 tau^2 s^2)), as the property text fixes it; SpectralDeltaKernel: 1/S sum_s cos(2 pi z_s . (x - x') / l)",
    "documented stabilisers are part of the reference: CylindricalKernel eps inside the Kumaraswamy warping, the 1e-8 variance jitter of the "
    "symmetrised KL; CylindricalKernel inputs have no exactly-zero coordinate",
    "tolerance 1e-9 (abs + rel to the largest reference entry). Exception: MaternKernel(nu=0.5) and PiecewisePolynomialKernel(q=0) (slope "
    "|k'(0)| != 0 in the distance r) in cells that contain a (nearly) coincident pair of rows, incl. the diagonal of x2 = x1: "
    "1e-9 + |k'(0)| sqrt(4 (D+2) eps) S, S = largest centred, lengthscale-scaled row norm, i.e. the rounding bound of the library's "
    "r = sqrt(|a|^2 - 2ab + |b|^2) at r ~ 0 (1e-7..1e-5; defects the property names - coefficient, sign, layout, parameter - are O(1e-2..1))",
    "Matern52KernelGrad reference: autograd of the Matern-5/2 reference for pairs with scaled distance >= 1e-3; closer pairs use the closed-form "
    "block printed in the class docstring, because autograd through sqrt(r^2) is undefined at r = 0 and loses eps / r to cancellation as "
    "r -> 0; the closed form is validated in refs.kernels._selftest against autograd (generic pairs), a symmetric limit (a = b) and 40-digit "
    "mpmath differentiation (r = 1e-9)",
    "HammingIMQKernel inputs are flattened one-hot sequences (vocabulary 3, length d); 'rows 1e-9 apart' is mapped to Hamming distance 1 and "
    "'far apart' to sequences that differ in every position",
]

SHAPES = [(1, 1, "distinct"), (2, 3, "distinct"), (3, 2, "distinct"), (4, 4, "same"), (3, 3, "none"),
          (3, 3, "perturbed")]  # x2 = x1 (1 + 5e-6): equal up to torch.allclose's default tolerance, but a different point set
GEOMS = ["generic", "dup", "near", "far"]
BASIS = ["rbf", "matern1.5", "linear", "periodic", "const"]
STRUCT_BASES = ["rbf", "matern1.5", "periodic"]
VOCAB = 3

# name -> (supports ARD, supports batch_shape, extra paths)
SIMPLE = {
    "rbf": (True, True, True), "matern0.5": (True, True, True), "matern1.5": (True, True, True), "matern2.5": (True, True, True),
    "rq": (True, True, False), "periodic": (True, True, False), "cosine": (False, True, False), "linear": (True, True, False),
    "poly1": (False, True, False), "poly2": (False, True, False), "poly3": (False, True, False),
    "pp0": (True, True, False), "pp1": (True, True, False), "pp2": (True, True, False), "pp3": (True, True, False),
    "const": (False, True, False), "sm": (False, True, False), "sdelta": (True, True, False), "arc": (True, True, False),
    "arc_delta": (True, True, False),
    "cyl": (False, True, False), "hamming": (False, True, False), "gskl": (False, True, False), "distinput": (False, True, False),
}
DERIV = {"rbfgrad": (True, True), "matern52grad": (True, True), "polygrad1": (False, True), "polygrad2": (False, True),
         "polygrad3": (False, True), "rbfgradgrad": (True, True)}
KINKED = {"matern0.5": lambda D: 1.0, "pp0": lambda D: float(D // 2 + 1)}  # kernels with non-zero slope in r at r = 0: name -> |dk/dr|(0)
EPS = 2.220446049250313e-16


def _specs():
    """ordered list of (spec, family, supports_ard, supports_batch, paths)"""
    out = []
    for name, (ard, batch, extra) in SIMPLE.items():
        out.append(([name], "simple", ard, batch, ["fast", "autograd"] + (["nograd", "trace"] if extra else [])))
    for a in BASIS:
        out.append((["scale", [a]], "scale", a != "const", True, ["fast", "autograd"]))
    for op in ("sum", "prod"):
        for a, b in itertools.product(BASIS, BASIS):
            out.append(([op, [a], [b]], op, not (a == "const" and b == "const"), True, ["fast", "autograd"]))
    # every expression tree with three leaves (both associations) and the balanced four-leaf trees over {+, *}: the operators flatten
    # nested sums / products into one AdditiveKernel / ProductKernel, so the association decides which operands are merged
    a, b, c, d = ["rbf"], ["linear"], ["matern1.5"], ["periodic"]
    for o1, o2 in itertools.product(("sum", "prod"), repeat=2):
        out.append(([o1, a, [o2, b, c]], "nested", True, True, ["fast"]))
        out.append(([o1, [o2, a, b], c], "nested", True, True, ["fast"]))
        out.append(([o1, ["scale", [o2, a, b]], c], "nested", True, True, ["fast"]))
    for o1, o2, o3 in itertools.product(("sum", "prod"), repeat=3):
        out.append(([o1, [o2, a, b], [o3, c, d]], "nested", True, True, ["fast"]))
    for base in STRUCT_BASES:
        out.append((["addstruct", [base]], "addstruct", True, True, ["fast", "autograd"]))
        out.append((["prodstruct", [base]], "prodstruct", True, True, ["fast", "autograd"]))
        for deg in (1, 2, 3):
            out.append((["ng", [base], deg], "ng", True, True, ["fast", "autograd"]))
    for name, (ard, batch) in DERIV.items():
        out.append(([name], "deriv", ard, batch, ["fast", "autograd"]))
    out.append((["scale", ["rbfgrad"]], "deriv", True, True, ["fast", "autograd"]))
    return out


def spec_name(spec):
    head = spec[0]
    if len(spec) == 1:
        return head
    return head + "(" + ",".join(spec_name(s) if isinstance(s, list) else str(s) for s in spec[1:]) + ")"


def cells(tier, seed):
    quick = tier == "quick"
    ds = [1, 3] if quick else [1, 2, 3]  # d = 3 keeps the n == d coincidence (3 rows, 3 dims) and both values of floor(d/2) in the quick tier
    vals = [0] if quick else [0, 1]
    geoms = GEOMS[:2] if quick else GEOMS
    out = []
    for spec, fam, ard_ok, batch_ok, paths in _specs():
        # formulas that depend on the input dimension (piecewise-polynomial exponent floor(d/2)+q+1, ...) differ between even and odd d
        dss = [1, 2, 3] if fam == "simple" else ds
        for d, shape, ard, batch, val, mode, path, geom in itertools.product(
                dss, range(len(SHAPES)), [False, True] if ard_ok else [False], [0, 1] if batch_ok else [0], vals, ["full", "diag"], paths, geoms):
            if mode == "diag" and SHAPES[shape][2] in ("distinct", "perturbed"):
                continue  # documented: diag=True requires x1 == x2
            if spec[0] == "ng" and spec[2] > d:
                continue  # max_degree is capped at num_dims: same kernel as max_degree = d
            out.append({"spec": spec, "fam": fam, "d": d, "shape": shape, "ard": ard, "batch": batch, "val": val, "mode": mode, "path": path,
                        "geom": geom})
    for D, deg, n in itertools.product([1, 2, 3, 4], [1, 2, 3, 4], [1, 3]):
        if deg <= D:
            out.append({"spec": ["sum_interaction_terms"], "fam": "util", "d": D, "deg": deg, "n": n, "shape": 0, "ard": False, "batch": 0, "val": 0,
                        "mode": "full", "path": "fast", "geom": "generic"})
    out += far_cells()
    return out


# ----------------------------------------------------------------------------------------------------------------------
class Ctx:
    def __init__(self, cell):
        self.d = cell["d"]
        self.ard = cell["ard"]
        self.bs = torch.Size([2]) if cell["batch"] else torch.Size([])
        self.val = cell["val"]

    def pv(self, tag, shape, lo=0.5, hi=2.5):
        """deterministic parameter values in [lo, hi] (a function of the valuation and the tag only; distinct per batch element / dimension)"""
        h = int.from_bytes(hashlib.sha1(f"c05|{self.val}|{tag}".encode()).digest()[:4], "big")
        g = torch.Generator()
        g.manual_seed(h)
        return lo + (hi - lo) * torch.rand(tuple(shape), generator=g, dtype=F64)


def _vec(p, b):
    """public parameter of batch element b as a 1-d tensor"""
    return p.detach()[b].reshape(-1)


def _sel(v, dim):
    if dim is None or v.numel() == 1:
        return v
    return v[dim:dim + 1]


def _ls_kernel(cls, ctx, tag, D, lo=0.5, hi=2.5, **kw):
    if ctx.ard:  # (an explicit ard_num_dims=None is not passed: PeriodicKernel's constructor does not accept it)
        kw["ard_num_dims"] = D
    k = cls(batch_shape=ctx.bs, **kw)
    k.lengthscale = ctx.pv(tag + ".ls", (*ctx.bs, 1, D if ctx.ard else 1), lo, hi)
    return k


def build(spec, ctx, tag, D):
    """returns (kernel, ref) with ref(b, dim=None) -> scalar pair function for batch element b (dim: restrict ARD parameters to one input dimension)"""
    head = spec[0]
    bs = ctx.bs
    if head == "rbf":
        k = _ls_kernel(K.RBFKernel, ctx, tag, D)
        return k, lambda b, dim=None: R.rbf(_sel(_vec(k.lengthscale, b), dim))
    if head.startswith("matern") and head != "matern52grad":
        nu = float(head[6:])
        k = _ls_kernel(K.MaternKernel, ctx, tag, D, nu=nu)
        return k, lambda b, dim=None: R.matern(_sel(_vec(k.lengthscale, b), dim), nu)
    if head == "rq":
        k = _ls_kernel(K.RQKernel, ctx, tag, D)
        k.alpha = ctx.pv(tag + ".alpha", (*bs, 1), 0.5, 3.0)
        return k, lambda b, dim=None: R.rq(_vec(k.lengthscale, b), _vec(k.alpha, b)[0])
    if head == "periodic":
        k = _ls_kernel(K.PeriodicKernel, ctx, tag, D)
        k.period_length = ctx.pv(tag + ".period", (*bs, 1, D if ctx.ard else 1), 0.8, 3.0)
        return k, lambda b, dim=None: R.periodic(_sel(_vec(k.lengthscale, b), dim), _sel(_vec(k.period_length, b), dim))
    if head == "cosine":
        k = K.CosineKernel(batch_shape=bs)
        k.period_length = ctx.pv(tag + ".period", (*bs, 1, 1), 0.8, 3.0)
        return k, lambda b, dim=None: R.cosine(_vec(k.period_length, b)[0])
    if head == "linear":
        k = K.LinearKernel(ard_num_dims=D if ctx.ard else None, batch_shape=bs)
        k.variance = ctx.pv(tag + ".var", (*bs, 1, D if ctx.ard else 1), 0.3, 2.0)
        return k, lambda b, dim=None: R.linear(_vec(k.variance, b))
    if head.startswith("polygrad") or (head.startswith("poly") and head[4:].isdigit()):
        power = int(head[-1])
        cls = K.PolynomialKernelGrad if head.startswith("polygrad") else K.PolynomialKernel
        k = cls(power=power, batch_shape=bs)
        k.offset = ctx.pv(tag + ".offset", (*bs, 1), 0.3, 2.0)
        return k, lambda b, dim=None: R.polynomial(_vec(k.offset, b)[0], power)
    if head.startswith("pp"):
        q = int(head[2:])
        k = _ls_kernel(K.PiecewisePolynomialKernel, ctx, tag, D, 1.5, 4.0, q=q)
        return k, lambda b, dim=None: R.piecewise_polynomial(_vec(k.lengthscale, b), q)
    if head == "const":
        k = K.ConstantKernel(batch_shape=bs)
        k.constant = ctx.pv(tag + ".c", (*bs, 1), 0.3, 2.0)
        return k, lambda b, dim=None: R.constant(_vec(k.constant, b)[0])
    if head == "sm":
        Q = 2 + ctx.val
        k = K.SpectralMixtureKernel(num_mixtures=Q, ard_num_dims=D, batch_shape=bs)
        k.mixture_weights = ctx.pv(tag + ".w", (*bs, Q), 0.2, 1.5)
        k.mixture_means = ctx.pv(tag + ".mu", (*bs, Q, 1, D), 0.05, 0.6)
        k.mixture_scales = ctx.pv(tag + ".s", (*bs, Q, 1, D), 0.05, 0.5)
        return k, lambda b, dim=None: R.spectral_mixture(_vec(k.mixture_weights, b), k.mixture_means.detach()[b].reshape(Q, D),
                                                         k.mixture_scales.detach()[b].reshape(Q, D))
    if head == "sdelta":
        S = 3
        k = K.SpectralDeltaKernel(num_dims=D, num_deltas=S, ard_num_dims=D if ctx.ard else None, batch_shape=bs)
        k.lengthscale = ctx.pv(tag + ".ls", (*bs, 1, D if ctx.ard else 1))
        k.Z = ctx.pv(tag + ".Z", (*bs, S, D), 0.05, 0.8)
        return k, lambda b, dim=None: R.spectral_delta(k.Z.detach()[b].reshape(S, D), _vec(k.lengthscale, b))
    if head in ("arc", "arc_delta"):
        base = K.MaternKernel(nu=2.5) if ctx.val == 0 else K.RBFKernel()
        # arc_delta: a user-supplied activity indicator that depends on the magnitude of the raw input (a dimension is inactive above 0.3)
        delta = (lambda x: (x < 0.3).to(x.dtype)) if head == "arc_delta" else None
        k = K.ArcKernel(base, ard_num_dims=D if ctx.ard else None, batch_shape=bs, **({"delta_func": delta} if delta else {}))
        L = D if ctx.ard else 1
        k.lengthscale = ctx.pv(tag + ".ls", (*bs, 1, L), 1.0, 3.0)
        k.angle = ctx.pv(tag + ".angle", (*bs, 1, L), 0.15, 0.85)
        k.radius = ctx.pv(tag + ".radius", (*bs, 1, L), 0.5, 2.0)

        def ref(b, dim=None):
            bl = base.lengthscale.detach().reshape(-1)
            bref = R.matern(bl, 2.5) if ctx.val == 0 else R.rbf(bl)
            return R.arc(_vec(k.lengthscale, b), _vec(k.angle, b), _vec(k.radius, b), bref, delta)

        return k, ref
    if head == "cyl":
        P = 3
        radial = K.MaternKernel(nu=2.5, batch_shape=bs) if ctx.val == 0 else K.RBFKernel(batch_shape=bs)
        radial.lengthscale = ctx.pv(tag + ".rls", (*bs, 1, 1), 0.3, 1.5)
        k = K.CylindricalKernel(num_angular_weights=P, radial_base_kernel=radial, batch_shape=bs)
        k.angular_weights = ctx.pv(tag + ".aw", (*bs, P), 0.2, 1.5)
        k.alpha = ctx.pv(tag + ".alpha", (*bs, 1), 0.5, 2.0)
        k.beta = ctx.pv(tag + ".beta", (*bs, 1), 0.5, 2.0)

        def ref(b, dim=None):
            rl = _vec(radial.lengthscale, b)
            rref = R.matern(rl, 2.5) if ctx.val == 0 else R.rbf(rl)
            return R.cylindrical(_vec(k.angular_weights, b), _vec(k.alpha, b)[0], _vec(k.beta, b)[0], k.eps, rref)

        return k, ref
    if head == "hamming":
        k = K.HammingIMQKernel(vocab_size=VOCAB, batch_shape=bs)
        k.alpha = ctx.pv(tag + ".alpha", (*bs, 1), 0.5, 2.0)
        k.beta = ctx.pv(tag + ".beta", (*bs, 1), 0.5, 2.0)
        return k, lambda b, dim=None: R.hamming_imq(_vec(k.alpha, b)[0], _vec(k.beta, b)[0], VOCAB)
    if head == "gskl":
        k = K.GaussianSymmetrizedKLKernel(batch_shape=bs)
        k.lengthscale = ctx.pv(tag + ".ls", (*bs, 1, 1), 1.0, 4.0)
        return k, lambda b, dim=None: R.gaussian_symmetrized_kl(_vec(k.lengthscale, b)[0])
    if head == "distinput":
        k = K.DistributionalInputKernel(distance_function=lambda u, v: torch.cdist(u, v, p=1), batch_shape=bs)
        k.lengthscale = ctx.pv(tag + ".ls", (*bs, 1, 1), 1.0, 4.0)
        return k, lambda b, dim=None: R.distributional(_vec(k.lengthscale, b)[0], lambda u, v: (u - v).abs().sum())
    # ---- derivative kernels (reference = base function; the layout is applied by the caller)
    if head == "rbfgrad":
        k = _ls_kernel(K.RBFKernelGrad, ctx, tag, D)
        return k, lambda b, dim=None: R.rbf(_vec(k.lengthscale, b))
    if head == "rbfgradgrad":
        k = _ls_kernel(K.RBFKernelGradGrad, ctx, tag, D)
        return k, lambda b, dim=None: R.rbf(_vec(k.lengthscale, b))
    if head == "matern52grad":
        k = _ls_kernel(K.Matern52KernelGrad, ctx, tag, D)
        return k, lambda b, dim=None: R.matern(_vec(k.lengthscale, b), 2.5)
    # ---- compositions
    if head == "scale":
        base, bref = build(spec[1], ctx, tag + ".base", D)
        k = K.ScaleKernel(base, batch_shape=bs)
        k.outputscale = ctx.pv(tag + ".os", tuple(bs), 0.3, 3.0)
        return k, lambda b, dim=None: R.kscale(k.outputscale.detach()[b].reshape(()), bref(b, dim))
    if head in ("sum", "prod"):
        k1, r1 = build(spec[1], ctx, tag + ".0", D)
        k2, r2 = build(spec[2], ctx, tag + ".1", D)
        k = (k1 + k2) if head == "sum" else (k1 * k2)
        comb = R.ksum if head == "sum" else R.kprod
        return k, lambda b, dim=None: comb(r1(b, dim), r2(b, dim))
    if head in ("addstruct", "prodstruct"):
        base, bref = build(spec[1], ctx, tag + ".base", D)
        cls = K.AdditiveStructureKernel if head == "addstruct" else K.ProductStructureKernel
        k = cls(base, num_dims=D)
        comb = R.additive_structure if head == "addstruct" else R.product_structure
        return k, lambda b, dim=None: comb(lambda i: bref(b, i))
    if head == "ng":
        base, bref = build(spec[1], ctx, tag + ".base", D)
        deg = spec[2]
        k = K.NewtonGirardAdditiveKernel(base, num_dims=D, max_degree=deg, batch_shape=bs)
        k.outputscale = ctx.pv(tag + ".os", (*bs, deg), 0.3, 2.0)
        return k, lambda b, dim=None: R.newton_girard(lambda i: bref(b, i), _vec(k.outputscale, b))
    raise AssertionError(spec)


def leaf_names(spec):
    if len(spec) == 1:
        return [spec[0]]
    out = []
    for s in spec[1:]:
        if isinstance(s, list):
            out += leaf_names(s)
    return out


# ----------------------------------------------------------------------------------------------------------------------
def make_inputs(cell, g, bs, D, domain):
    """x1, x2 (None for the x2=None shape) with the kernel's batch shape; the geometry is a function of the cell only, the values of g"""
    n1, n2, rel = SHAPES[cell["shape"]]
    geom = cell["geom"]
    if domain == "hamming":
        T = cell["d"]
        c1 = (util.rand(g, *bs, n1, T) * VOCAB).floor().long().clamp(max=VOCAB - 1)
        c2 = (util.rand(g, *bs, n2, T) * VOCAB).floor().long().clamp(max=VOCAB - 1)
        if geom == "far":
            base = c1[..., :1, :]
            c1 = (base + torch.arange(n1).view(n1, 1)) % VOCAB
            c2 = (base + n1 + torch.arange(n2).view(n2, 1)) % VOCAB
        if geom in ("dup", "near"):
            step = 1 if geom == "near" else 0
            if n1 >= 2:
                c1[..., 1, :] = c1[..., 0, :]
                c1[..., 1, 0] = (c1[..., 1, 0] + step) % VOCAB
            if rel == "distinct":
                c2[..., 0, :] = c1[..., 0, :]
                c2[..., 0, -1] = (c2[..., 0, -1] + step) % VOCAB
                if n2 >= 2:
                    c2[..., n2 - 1, :] = c2[..., 0, :]
        oh = lambda c: torch.nn.functional.one_hot(c, VOCAB).to(F64).reshape(*c.shape[:-1], -1)  # noqa: E731
        x1, x2 = oh(c1), oh(c2)
    else:
        x1, x2 = util.randn(g, *bs, n1, D), util.randn(g, *bs, n2, D)
        mask = torch.ones(D, dtype=F64)
        if domain == "gskl":
            mask[D // 2:] = 0.0  # far / near offsets act on the means; log-variances stay O(1)
        if geom == "far":
            x1 = x1 + 25.0 * torch.arange(n1, dtype=F64).view(n1, 1) * mask
            x2 = x2 + 25.0 * (n1 + torch.arange(n2, dtype=F64)).view(n2, 1) * mask
        if geom in ("dup", "near"):
            delta = (1e-9 if geom == "near" else 0.0) * mask
            if n1 >= 2:
                x1[..., 1, :] = x1[..., 0, :] + delta
            if rel == "distinct":
                x2[..., 0, :] = x1[..., 0, :] - delta
                if n2 >= 2:
                    x2[..., n2 - 1, :] = x2[..., 0, :] + delta
        if domain == "cyl":  # inside the unit ball, no zero coordinate
            x1 = x1 / (1.0 + x1.norm(dim=-1, keepdim=True))
            x2 = x2 / (1.0 + x2.norm(dim=-1, keepdim=True))
    if rel == "same":
        x2 = x1.clone()
    elif rel == "none":
        x2 = None
    elif rel == "perturbed" and domain != "hamming":
        x2 = x1 * (1.0 + 5e-6)
    return x1, x2


def call_kernel(k, x1, x2, mode, path):
    """the real API call: kernel(x1, x2).to_dense() / kernel(x1, x2, diag=True) under the cell's path selector"""
    with contextlib.ExitStack() as st:
        if path == "nograd":
            st.enter_context(torch.no_grad())
        elif path == "trace":
            st.enter_context(gpytorch.settings.trace_mode(True))
        elif path == "autograd":
            x1 = x1.clone().requires_grad_(True)
            x2 = None if x2 is None else x2.clone().requires_grad_(True)
        args = (x1,) if x2 is None else (x1, x2)
        if mode == "diag":
            out = k(*args, diag=True)
        else:
            out = k(*args)
        return util.dense(out).detach()


def kinked_tolerance(name, k, bs, x1, x2, D):
    """Matern-1/2 and piecewise polynomial q = 0 have slope |k'(0)| != 0 in the distance r.  The library forms r^2 = |a|^2 - 2ab + |b|^2 on
    mean-centred, lengthscale-scaled rows; rounding gives |err(r^2)| <= 4 (D + 2) eps S^2 with S the largest such row norm, hence
    |err(r)| <= sqrt(4 (D + 2) eps) S when the true r is ~ 0.  Cells that contain a (nearly) coincident pair get
    1e-9 + |k'(0)| sqrt(4 (D + 2) eps) S; all others the default 1e-9."""
    x2 = x1 if x2 is None else x2
    tol = 1e-9
    for b in ([()] if not len(bs) else [(i,) for i in range(bs[0])]):
        ls = _vec(k.lengthscale, b)
        a, c = x1[b] / ls, x2[b] / ls
        if float(torch.cdist(a, c).min()) < 1e-6:
            m = x1[b].mean(-2, keepdim=True) / ls
            S = float(torch.cat([a - m, c - m]).norm(dim=-1).max())
            tol = max(tol, 1e-9 + KINKED[name](D) * (4 * (D + 2) * EPS) ** 0.5 * S)
    return tol


def reference(cell, ref, bs, x1, x2, order, near=None):
    """dense reference with the kernel's batch shape: all pairs of rows, batch element by batch element"""
    x2 = x1 if x2 is None else x2
    outs = []
    for b in ([()] if not len(bs) else [(i,) for i in range(bs[0])]):
        f = ref(b)
        a, c = x1[b], x2[b]
        if order == 0:
            M = R.pairwise(f, a, c)
        else:
            kw = {} if near is None else {"near_block": R.matern52_grad_closed(near(b)), "near_r": R.scaled_dist(near(b))}
            M = R.grad_layout(f, a, c, order=order, **kw)
        outs.append(M.diagonal() if cell["mode"] == "diag" else M)
    return outs[0] if not len(bs) else torch.stack(outs)


FAR_KERNELS = ["rbf", "matern05", "matern15", "matern25", "rq", "pp0", "pp2", "periodic", "cosine"]


def far_cells():
    # translation-invariant kernels far from the origin, > 25 rows (torch.cdist switches to its matmul formulation there)
    return [{"fam": "farorigin", "kernel": k, "offset": off, "n": n, "ard": ard} for k in FAR_KERNELS for off in (0.0, 2.0e6)
            for n in ((30, 28), (26, 40)) for ard in (False, True) if not (ard and k == "cosine")]


def run_far(cell, seed):
    from gpytorch import kernels as GK

    fails = Fails()
    name, off, (n1, n2), ard = cell["kernel"], cell["offset"], cell["n"], cell["ard"]
    feats = {"kernel": name, "fam": "farorigin", "offset": off, "n1": n1, "n2": n2, "ard": ard, "mode": "full"}
    g = util.gen(seed, "c05far|" + util.jdump({k: v for k, v in cell.items() if k != "offset"}))
    D = 1 if name == "cosine" else 2
    kw = {"ard_num_dims": D} if ard else {}
    k = {"rbf": lambda: GK.RBFKernel(**kw), "matern05": lambda: GK.MaternKernel(nu=0.5, **kw), "matern15": lambda: GK.MaternKernel(nu=1.5, **kw),
         "matern25": lambda: GK.MaternKernel(nu=2.5, **kw), "rq": lambda: GK.RQKernel(**kw), "pp0": lambda: GK.PiecewisePolynomialKernel(q=0, **kw),
         "pp2": lambda: GK.PiecewisePolynomialKernel(q=2, **kw), "periodic": lambda: GK.PeriodicKernel(**kw), "cosine": lambda: GK.CosineKernel()}[name]()
    if hasattr(k, "lengthscale") and k.has_lengthscale:
        k.lengthscale = (0.8 + util.rand(g, 1, D)) if ard else 1.3
    x1, x2 = util.randn(g, n1, D), util.randn(g, n2, D)
    with fails.guard("value"), torch.no_grad():
        want = k(x1, x2).to_dense()       # the kernel is translation invariant: k(x + c, x' + c) = k(x, x')
        got = k(x1 + off, x2 + off).to_dense()
        # coordinates of magnitude 2e6 carry an absolute rounding error of ~2e6 eps = 5e-10 in the differences
        tol = 1e-9 if off == 0.0 else 1e-6
        ok, msg = util.close(got, want, tol, tol)
        if not ok:
            fails.add("value", f"kernel is not translation invariant far from the origin: k(x + c, x' + c) != k(x, x'): err={msg}", f"c = {off}, {n1}x{n2} rows")
    for f in fails:
        f["features"] = feats
    return {"fails": fails, "sig": "far:" + ("ok" if not fails else "mismatch"), "features": feats, "ops": 2}


def run_cell(cell, seed):
    if cell.get("fam") == "farorigin":
        return run_far(cell, seed)
    spec = cell["spec"]
    name = spec_name(spec)
    fails = Fails()
    n1, n2, rel = SHAPES[cell["shape"]]
    leaves = leaf_names(spec)
    feats = {"kernel": name, "fam": cell["fam"], "op": spec[0] if len(spec) > 1 else "none", "d": cell["d"], "n1": n1, "n2": n2, "x2": rel,
             "shape": f"{n1}x{n2}:{rel}", "ard": cell["ard"], "batch": cell["batch"], "val": cell["val"], "mode": cell["mode"], "path": cell["path"],
             "geom": cell["geom"], "leaves": ",".join(leaves)}
    g = util.gen(seed, "c05|" + util.jdump(cell))
    if cell["fam"] == "util":
        return run_sum_interaction(cell, g, fails, feats)
    ctx = Ctx(cell)
    d = cell["d"]
    domain = leaves[0] if leaves[0] in ("hamming", "gskl", "cyl") else "real"
    D = {"hamming": d * VOCAB, "gskl": 2 * d}.get(domain, d)
    order = 2 if "rbfgradgrad" in leaves else (1 if cell["fam"] == "deriv" else 0)
    tol = 1e-9
    notes = {}
    evaluated = False
    with fails.guard("build"):
        k, ref = build(spec, ctx, "k", D)
    if fails:
        for f in fails:
            f.setdefault("features", feats)
        return {"fails": fails, "sig": f"{cell['fam']}:build-failed", "features": feats, "ops": 1, "nontrivial": False}
    x1, x2 = make_inputs(cell, g, tuple(ctx.bs), D, domain)
    near = (lambda b: _vec(k.lengthscale, b)) if "matern52grad" in leaves else None
    want = reference(cell, ref, tuple(ctx.bs), x1, x2, order, near)
    if name in KINKED:
        tol = kinked_tolerance(name, k, tuple(ctx.bs), x1, x2, D)
        notes["kinked_tolerance_cells"] = int(tol > 1e-9)
    with fails.guard("value"):
        got = call_kernel(k, x1, x2, cell["mode"], cell["path"])
        evaluated = True
        ok, msg = util.close(got, want, tol, tol)
        if not ok:
            fails.add("value", f"kernel != documented covariance function: err={msg}{characterise(cell, name, got, want, tol, k, ctx, x1, x2)}",
                      f"{name} d={d} {feats['shape']} got={_fmt(got)} want={_fmt(want)}")
    if "pp" in name:
        notes["pp_inside_support"] = int((want > 0).sum())
        notes["pp_outside_support"] = int((want == 0).sum())
    for f in fails:
        f.setdefault("features", feats)
    sig = f"{cell['fam']}:{cell['mode']}:{cell['path']}:" + ",".join(sorted({f["sub"] + "/" + f["symptom"][:40] for f in fails}))
    return {"fails": fails, "sig": sig, "features": feats, "ops": 2, "nontrivial": evaluated, "notes": notes}


def _fmt(t):
    return str([round(float(v), 6) for v in t.reshape(-1)[:8]])


def characterise(cell, name, got, want, tol, k, ctx, x1, x2):
    """say what a wrong value equals, where a simple alternative explains it"""
    if tuple(got.shape) != tuple(want.shape):
        return ""
    if torch.isnan(got).any():
        return "; result contains NaN"
    bs = tuple(ctx.bs)
    try:
        if name == "pp2":  # the r^2 coefficient with j + 4j + 3 in place of j^2 + 4j + 3
            alt = reference(cell, lambda b: R.piecewise_polynomial(_vec(k.lengthscale, b), 2, q2_coef=lambda j: (j + 4 * j + 3) / 3.0), bs, x1, x2, 0)
            if util.close(got, alt, tol, tol)[0]:
                return "; equals the formula with r^2 coefficient (j + 4j + 3)/3 instead of (j^2 + 4j + 3)/3"
        if name == "hamming" and len(bs) and cell["mode"] == "full" and got.shape[-2] == bs[0]:
            # alpha / beta of shape (batch, 1) broadcast against (batch, n1, n2): row i is evaluated with the hyperparameters of batch element i
            xx2 = x1 if x2 is None else x2
            alt = torch.stack([torch.stack([R.pairwise(R.hamming_imq(_vec(k.alpha, (i,))[0], _vec(k.beta, (i,))[0], VOCAB), x1[b][i:i + 1], xx2[b])[0]
                                            for i in range(x1.shape[-2])]) for b in range(bs[0])])
            if util.close(got, alt, tol, tol)[0]:
                return "; equals the formula with row i using alpha/beta of BATCH ELEMENT i (hyperparameters aligned with the row dimension)"
    except Exception:  # characterisation is best effort
        pass
    if got.dim() >= 2 and got.shape[-1] == got.shape[-2] and util.close(got, want.mT, tol, tol)[0]:
        return "; equals the TRANSPOSE of the reference"
    return ""


def run_sum_interaction(cell, g, fails, feats):
    from gpytorch.utils.sum_interaction_terms import sum_interaction_terms

    D, deg, n = cell["d"], cell["deg"], cell["n"]
    feats = dict(feats, deg=deg, n=n)
    covars = util.randn(g, D, n, n)
    with fails.guard("sum_interaction_terms"):
        got = sum_interaction_terms(covars, max_degree=deg, dim=-3)
        fails.check_close("sum_interaction_terms", got, R.sum_interaction_terms(covars, deg), 1e-9, 1e-9,
                          "sum over all index sets of size <= max_degree of the elementwise products")
    for f in fails:
        f.setdefault("features", feats)
    return {"fails": fails, "sig": "util:" + ",".join(sorted({f["sub"] for f in fails})), "features": feats, "ops": 1}
