"""C16 — missing observations (NaN policy) behave as if the observations were deleted (Engine G over ALL NaN patterns + orders).

Oracle: the same model class on the data with the NaN entries deleted (dense conditional / dense MLL on the observed subset).
For batches the documented semantics are the oracle: 'mask' deletes the union over the batch, 'fill' deletes per element.
A second, characterising oracle recognises the known defect 'covariance computed as if all inputs were observed'.
"""
import itertools
import math

import torch

import gpytorch
from gpytorch import settings as S

from gpmc import models, util
from gpmc.refs import dense
from gpmc.util import Fails, F64

PROPERTY = "C16"
RULE = ("cells = model {single output n=4, batch (2,) n=3, Kronecker multitask (n,t)=(3,2)} x EVERY NaN pattern (2^n - 1, 2^(n t) - 1, "
        "per-batch-element patterns) x policy order {mask, fill, mask->fill, fill->mask, mask->train->eval->fill} x settings {default, "
        "fast_pred_var, eager kernels}; plus MLL under mask and Gaussian expected_log_prob / log_marginal under both policies; "
        "distinct/non-trivial = distinct (model, pattern) with at least one NaN and one observed value")
ASSUMPTIONS = ["'fill' under CG (max_cholesky_size 0) is compared at 5e-3: linear_cg's residual floor times the -999 fill value",
               "deletion oracle computed densely from one eager kernel/mean/likelihood evaluation on the observed subset",
               "fill on the multitask model / MLL is documented as unsupported: a refusal is accepted, a wrong value is not"]

CTX = {"default": lambda: [], "fpv": lambda: [S.fast_pred_var()], "nolazy": lambda: [S.lazily_evaluate_kernels(False)],
       "cg": lambda: [S.max_cholesky_size(0), S.eval_cg_tolerance(1e-12), S.max_cg_iterations(400)],
       "eager0": lambda: [S.max_eager_kernel_size(0)]}
import itertools as _it

# every sequence over {mask, fill} up to length 3 (a cache filled under one policy is reused or must be rebuilt under the next),
# plus mode switches in between
ORDERS = [list(o) for k in (1, 2, 3) for o in _it.product(["mask", "fill"], repeat=k)] + [
    ["mask", "train", "eval", "fill"], ["fill", "train", "eval", "fill"], ["fill", "ignore_clean", "fill"],
    # a first prediction under the default policy 'ignore' (its output is NaN wherever a NaN target enters and is not judged) must not
    # leave anything behind that a later prediction under 'mask' / 'fill' reuses
    ["ignore", "mask"], ["ignore", "fill"], ["mask", "ignore", "fill"]]


def cells(tier, seed):
    out = []
    for bits in itertools.product([0, 1], repeat=4):
        if sum(bits) in (0, 4) and sum(bits) == 4:
            continue
        for ctx in CTX:
            out.append({"kind": "single", "pattern": list(bits), "ctx": ctx})
        for ctx in ("default", "fpv"):
            out.append({"kind": "fixed", "pattern": list(bits), "ctx": ctx})
            if tier == "thorough":
                out.append({"kind": "matern", "pattern": list(bits), "ctx": ctx})
            # kernel-specific prediction strategies (inducing points, random features, grid interpolation)
            for k in ("sgpr", "rff", "kiss"):
                out.append({"kind": k, "pattern": list(bits), "ctx": ctx})
    if tier == "thorough":
        # five training points (all 31 patterns), and a batch of three elements with every triple of patterns over two points
        for bits in itertools.product([0, 1], repeat=5):
            if sum(bits) == 5:
                continue
            for ctx in ("default", "fpv", "cg"):
                out.append({"kind": "single", "pattern": list(bits), "ctx": ctx})
    for bits in itertools.product([0, 1], repeat=6):
        if sum(bits) == 6:
            continue
        for ctx in (["default", "fpv"] if tier == "thorough" else ["default"]):
            out.append({"kind": "multitask", "pattern": list(bits), "ctx": ctx})
        # independent outputs held task-major (MultitaskMultivariateNormal.from_independent_mvns)
        out.append({"kind": "multitask_ni", "pattern": list(bits), "ctx": "default"})
    for b0 in itertools.product([0, 1], repeat=3):
        for b1 in itertools.product([0, 1], repeat=3):
            if sum(b0) == 3 or sum(b1) == 3 or (sum(b0) == 0 and sum(b1) == 0):
                continue
            out.append({"kind": "batch", "pattern": [list(b0), list(b1)], "ctx": "default"})
    # a batch of two models (batched kernel / mean / noise) that SHARE their training inputs and targets (n x d, n)
    for bits in itertools.product([0, 1], repeat=3):
        if sum(bits) < 3:
            out.append({"kind": "kbatch", "pattern": list(bits), "ctx": "default"})
    for bits in itertools.product([0, 1], repeat=4):
        if sum(bits) == 4:
            continue
        out.append({"kind": "elp", "pattern": list(bits), "ctx": "default"})
    for bits in itertools.product([0, 1], repeat=6):
        if sum(bits) < 6:
            out.append({"kind": "elp-mt", "pattern": list(bits), "ctx": "default"})
    # batched targets whose batch elements miss different entries (all pairs of patterns over 3 outputs)
    for b0 in itertools.product([0, 1], repeat=3):
        for b1 in itertools.product([0, 1], repeat=3):
            if sum(b0) == 3 or sum(b1) == 3:
                continue
            out.append({"kind": "elp", "pattern": [list(b0), list(b1)], "ctx": "default"})
    return out


STRATEGY_KINDS = ("sgpr", "rff", "kiss")


def settings_ctx(name):
    import contextlib
    st = contextlib.ExitStack()
    for c in CTX[name]():
        st.enter_context(c)
    return st


def build(kind, seed, X, y):
    fam = {"single": "exact", "batch": "exact", "kbatch": "exact", "multitask": "multitask", "fixed": "fixednoise_learn", "matern": "matern_ard",
           "sgpr": "sgpr", "rff": "rff", "kiss": "kiss"}[kind]
    mb = (2,) if kind in ("batch", "kbatch") else ()
    m = models.ExactModel(X, y, fam, seed, batch_shape=mb)
    models.perturb_(m, seed, "c16" + kind)
    with torch.no_grad():
        for name, p in m.named_parameters():
            if "raw_noise" in name:
                p.clamp_(min=-2.0)
    m.eval()
    return m


class IndepOutputs(gpytorch.models.ExactGP):
    """t = 2 independent outputs: batched mean / kernel, joint prior from_independent_mvns (NON-interleaved, task-major covariance)"""

    def __init__(self, X, y, seed):
        torch.manual_seed(util.seed_for(seed, "c16ni"))
        lik = gpytorch.likelihoods.MultitaskGaussianLikelihood(num_tasks=2, rank=0)
        super().__init__(X, y, lik)
        bs = torch.Size([2])
        self.mean_module = gpytorch.means.ConstantMean(batch_shape=bs)
        self.covar_module = gpytorch.kernels.ScaleKernel(gpytorch.kernels.RBFKernel(batch_shape=bs), batch_shape=bs)
        self.fam = "multitask_ni"

    def forward(self, x):
        mean, covar = self.mean_module(x), self.covar_module(x)
        return gpytorch.distributions.MultitaskMultivariateNormal.from_independent_mvns(
            [gpytorch.distributions.MultivariateNormal(mean[k], covar[k]) for k in range(2)])


def run_indep_outputs(cell, seed, feats):
    """every quantity per output k equals the single-output GP of task k on ITS observed points (the outputs are independent by construction)"""
    fails = Fails()
    g = util.gen(seed, "c16|multitask_ni")
    n, d, m, t = 3, 1, 2, 2
    X, y0, Xs = util.rand(g, n, d), util.randn(g, n, t), util.rand(g, m, d)
    nanmask = torch.tensor(cell["pattern"], dtype=torch.bool).view(n, t)
    y = y0.clone()
    y[nanmask] = float("nan")

    def mk(yy):
        mod = IndepOutputs(X, yy, seed)
        models.perturb_(mod, seed, "c16ni")
        with torch.no_grad():
            for name, p in mod.named_parameters():
                if "raw_noise" in name or "raw_task_noises" in name:
                    p.clamp_(min=-2.0)
        return mod

    clean = mk(y0)
    clean.eval()
    with torch.no_grad():
        Xall = torch.cat([X, Xs], -2)
        Kb = clean.covar_module(Xall).to_dense()           # 2 x (n+m) x (n+m)
        mub = clean.mean_module(Xall)                        # 2 x (n+m)
        noise = clean.likelihood.task_noises + clean.likelihood.noise   # per task
    ops = 0
    # Only the MLL clause applies to this model class: an exact GP whose prior is held task-major cannot PREDICT under any policy
    # (exact_prediction splits the joint covariance assuming the interleaved order - not a matter of missing observations), so the
    # posterior loop below is kept for completeness but not run.
    for pol in ():
        f2 = dict(feats, policy=pol, order=pol)
        model = mk(y)
        model.eval()
        try:
            with S.observation_nan_policy(pol), torch.no_grad():
                out = model(Xs)
                gm, gc = out.mean, out.covariance_matrix
                inter = getattr(out, "_interleaved", True)
            ops += 1
        except Exception as e:
            fails.append({"sub": "predict", "symptom": util.exc_str(e), "detail": "", "features": f2})
            continue
        if torch.isnan(gm).any() or torch.isnan(gc).any():
            fails.append({"sub": "no-nan", "symptom": "NaN in the posterior under policy " + pol, "detail": "", "features": f2})
            continue
        for k in range(t):
            o = ~nanmask[:, k]
            Kxx = Kb[k][:n, :n][o][:, o] + noise[k] * torch.eye(int(o.sum()), dtype=F64)
            Ksx, Kss = Kb[k][n:, :n][:, o], Kb[k][n:, n:]
            if int(o.sum()) == 0:
                wm, wc = mub[k][n:], Kss
            else:
                wm, wc = dense.conditional(Kxx, Ksx, Kss, mub[k][:n][o], mub[k][n:], y0[:, k][o])
            idx = torch.arange(m) * t + k if inter else k * m + torch.arange(m)
            ok, msg = util.close(gm[:, k], wm, 1e-7, 1e-7)
            if not ok:
                fails.append({"sub": "mean", "symptom": f"posterior mean of output {k} != single-output GP on its observed points: err={msg}", "detail": "", "features": f2})
            ok, msg = util.close(gc[idx][:, idx], wc, 1e-7, 1e-7)
            if not ok:
                fails.append({"sub": "covariance", "symptom": f"posterior covariance block of output {k} != single-output GP on its observed points: err={msg}", "detail": "", "features": f2})
    # MLL under mask: n_total * MLL == sum over outputs of log N(y_k,obs)
    if int((~nanmask).sum()) > 0:
        f2 = dict(feats, policy="mask", order="mll")
        with fails.guard("mll"):
            model = mk(y)
            model.train()
            mll = gpytorch.mlls.ExactMarginalLogLikelihood(model.likelihood, model)
            with S.observation_nan_policy("mask"):
                val = mll(model(X), y).detach()
            ops += 1
            want = torch.zeros((), dtype=F64)
            for k in range(t):
                o = ~nanmask[:, k]
                if int(o.sum()):
                    want = want + dense.gauss_logpdf(y0[:, k][o], mub[k][:n][o], Kb[k][:n, :n][o][:, o] + noise[k] * torch.eye(int(o.sum()), dtype=F64))
            ok1, msg1 = util.close(val * y.numel(), want, 1e-8, 1e-8)
            if not ok1:
                fails.append({"sub": "mll", "symptom": f"n_total * masked MLL != sum over outputs of log N(y_obs): err={msg1}", "detail": f"got={float(val):.6f}", "features": f2})
        for f in fails:
            f.setdefault("features", f2)
    return {"fails": fails, "sig": ",".join(sorted({f["sub"] for f in fails})) or "ok", "features": feats, "ops": ops,
            "nontrivial": 0 < int(nanmask.sum()) < nanmask.numel()}


def deletion_reference(model, X, y, Xs, obs_flat, kind):
    """dense posterior on the observed subset. obs_flat: bool mask over the flattened (point[,task]) training outputs"""
    mt = kind == "multitask"
    t = 2 if mt else 1
    n, m = X.shape[-2], Xs.shape[-2]
    with torch.no_grad():
        Xall = torch.cat([X, Xs], -2)
        prior = model.forward(Xall)
        K = prior.covariance_matrix
        mu = prior.mean.reshape(*prior.mean.shape[: prior.mean.dim() - (2 if mt else 1)], -1)
        nt = n * t
        I = torch.eye(nt, dtype=F64).expand(*K.shape[:-2], nt, nt)
        zero = torch.zeros(*K.shape[:-2], n, t, dtype=F64) if mt else torch.zeros(*K.shape[:-2], n, dtype=F64)
        Sn = model.likelihood(type(prior)(zero, I), X).covariance_matrix - I
    yv = y.reshape(*y.shape[: y.dim() - (2 if mt else 1)], -1)
    o = obs_flat
    Kxx = (K[..., :nt, :nt] + Sn)[..., o, :][..., :, o]
    Ksx = K[..., nt:, :nt][..., :, o]
    Kss = K[..., nt:, nt:]
    if int(o.sum()) == 0:
        return mu[..., nt:], Kss, K, Sn, mu
    mean, cov = dense.conditional(Kxx, Ksx, Kss, mu[..., :nt][..., o], mu[..., nt:], yv[..., o])
    return mean, cov, K, Sn, mu


def run_cell(cell, seed):
    kind = cell["kind"]
    fails = Fails()
    feats = {"kind": kind, "ctx": cell["ctx"], "n_nan": int(torch.tensor(cell["pattern"]).sum())}
    if kind == "elp":
        return run_elp(cell, seed, feats)
    if kind == "elp-mt":
        return run_elp_mt(cell, seed, feats)
    if kind == "multitask_ni":
        return run_indep_outputs(cell, seed, feats)
    g = util.gen(seed, "c16|" + kind + ("" if len(cell["pattern"]) in (4, 6, 2) or kind != "single" else f"|{len(cell['pattern'])}"))
    if kind in ("single", "fixed", "matern", "sgpr", "rff", "kiss"):
        n, d, m = len(cell["pattern"]), 2, 3
        X, y0, Xs = util.rand(g, n, d), util.randn(g, n), util.rand(g, m, d)
        nanmask = torch.tensor(cell["pattern"], dtype=torch.bool)
    elif kind == "multitask":
        n, d, m = 3, 1, 2
        X, y0, Xs = util.rand(g, n, d), util.randn(g, n, 2), util.rand(g, m, d)
        nanmask = torch.tensor(cell["pattern"], dtype=torch.bool).view(n, 2)
    elif kind == "kbatch":
        n, d, m = 3, 1, 2
        X, y0, Xs = util.rand(g, n, d), util.randn(g, n), util.rand(g, m, d)
        nanmask = torch.tensor(cell["pattern"], dtype=torch.bool)
    else:
        n, d, m = 3, 1, 2
        X, y0, Xs = util.rand(g, 2, n, d), util.randn(g, 2, n), util.rand(g, 2, m, d)
        nanmask = torch.tensor(cell["pattern"], dtype=torch.bool)
    y = y0.clone()
    y[nanmask] = float("nan")
    ops = 0
    orders = ORDERS if kind not in ("batch", "kbatch") else [o for o in ORDERS if len(o) <= 2 and "train" not in o]
    clean = build(kind, seed, X, y0)
    for order in orders:
        model = build(kind, seed, X, y)
        for step in order:
            if step in ("train", "eval"):
                getattr(model, step)()
                continue
            if step == "ignore_clean":
                continue
            if step == "ignore":
                try:
                    with settings_ctx(cell["ctx"]), S.observation_nan_policy("ignore"), torch.no_grad():
                        model(Xs).covariance_matrix
                    ops += 1
                except Exception:
                    pass
                continue
            pol = step
            f2 = dict(feats, policy=pol, order="->".join(order))
            # which observations does the documented semantics delete?
            if kind == "batch" and pol == "mask":
                obs = ~nanmask.any(0)  # union over the batch
                obs_list = [obs, obs]
            elif kind == "batch":
                obs_list = [~nanmask[0], ~nanmask[1]]
            elif kind == "kbatch":
                obs_list = [~nanmask, ~nanmask]
            else:
                obs_list = [~nanmask.reshape(-1)]
            try:
                with settings_ctx(cell["ctx"]), S.observation_nan_policy(pol), torch.no_grad():
                    out = model(Xs)
                    mean = out.mean.reshape(*out.mean.shape[: out.mean.dim() - (2 if kind == "multitask" else 1)], -1)
                    cov = out.covariance_matrix
                ops += 1
            except Exception as e:
                unsupported = pol == "fill" and kind == "multitask"
                if not unsupported:
                    fails.append({"sub": "predict", "symptom": util.exc_str(e), "detail": "", "features": f2})
                continue
            if torch.isnan(mean).any() or torch.isnan(cov).any():
                fails.append({"sub": "no-nan", "symptom": "NaN in the posterior under policy " + pol, "detail": "", "features": f2})
                continue
            for b, obs in enumerate(obs_list):
                if kind in ("batch", "kbatch"):
                    Xb_, yb_, Xsb_ = (X[b], y0[b], Xs[b]) if kind == "batch" else (X, y0, Xs)
                    sub = build("single", seed, Xb_, yb_)
                    models.copy_into_slice = None
                    # replica of batch element b: slice parameters
                    with torch.no_grad():
                        src = dict(model.named_parameters())
                        for k, p in sub.named_parameters():
                            p.data = src[k].data[b].reshape(p.shape).clone()
                    wm, wc, K, Sn, mu = deletion_reference(sub, Xb_, yb_, Xsb_, obs, "single")
                    gm, gc = mean[b], cov[b]
                    allm, allc, _, _, _ = deletion_reference(sub, Xb_, yb_, Xsb_, torch.ones_like(obs), "single")
                elif kind in STRATEGY_KINDS:
                    # kernel-specific strategies: the statement taken literally - the SAME model class built on the data set with the NaN
                    # observations deleted (same hyperparameters / inducing points / random features / grid; what that model computes is
                    # C01's and C09's subject)
                    def lib_on(keep):
                        ref_model = build(kind, seed, X[keep], y0[keep])
                        with settings_ctx(cell["ctx"]), S.observation_nan_policy("ignore"), torch.no_grad():
                            o = ref_model(Xs)
                            return o.mean.clone(), o.covariance_matrix.clone()
                    wm, wc = lib_on(obs)
                    gm, gc = mean, cov
                    allm, allc = lib_on(torch.ones_like(obs))
                else:
                    wm, wc, K, Sn, mu = deletion_reference(clean, X, y0, Xs, obs, kind)
                    gm, gc = mean, cov
                    allm, allc, _, _, _ = deletion_reference(clean, X, y0, Xs, torch.ones_like(obs), kind)
                # CG: linear_cg's hard-coded residual floor (1e-10 relative to |rhs|) times the -999 fill value of the missing
                # entries limits 'fill' under CG to ~1e-3 absolute whatever tolerance is requested (measured 8.2e-4)
                tol = (5e-3 if pol == "fill" else 1e-5) if cell["ctx"] == "cg" else (1e-6 if kind == "kiss" else 1e-7)
                ok, msg = util.close(gm, wm, tol, tol)
                if not ok:
                    fails.append({"sub": "mean", "symptom": f"posterior mean != mean after deleting the NaN observations: err={msg}", "detail": f"b={b}", "features": f2})
                ok, msg = util.close(gc, wc, tol, tol)
                if not ok:
                    charact = "covariance equals the one conditioning on ALL inputs (NaN rows kept)" if util.close(gc, allc, 1e-7, 1e-7)[0] else "uncharacterised"
                    fails.append({"sub": "covariance", "symptom": f"posterior covariance != covariance after deleting the NaN observations: err={msg}; {charact}",
                                  "detail": f"b={b}", "features": f2})
    # fantasy model of a model with NaN targets (and NaN among the fantasy targets) == deletion oracle on the concatenated data
    if kind == "single" and cell["ctx"] in ("default", "fpv") and 0 < int(nanmask.sum()) < nanmask.numel():
        gf = util.gen(seed, "c16fant")
        Xf, yf0 = util.rand(gf, 2, X.shape[-1]), util.randn(gf, 2)
        for pol, fant_nan in itertools.product(("mask", "fill"), (False, True)):
            f2 = dict(feats, policy=pol, order="fantasy" + ("+nan" if fant_nan else ""))
            yf = yf0.clone()
            if fant_nan:
                yf[1] = float("nan")
            try:
                model = build(kind, seed, X, y)
                with settings_ctx(cell["ctx"]), S.observation_nan_policy(pol), torch.no_grad():
                    model(Xs)
                    fm = model.get_fantasy_model(Xf, yf)
                    out = fm(Xs)
                    gm, gc = out.mean, out.covariance_matrix
                ops += 2
            except Exception as e:
                fails.append({"sub": "fantasy-nan", "symptom": util.exc_str(e), "detail": "", "features": f2})
                continue
            Xall, yall0 = torch.cat([X, Xf]), torch.cat([y0, yf0])
            obs = torch.cat([~nanmask, torch.tensor([True, not fant_nan])])
            clean2 = build(kind, seed, Xall, yall0)
            wm, wc, _, _, _ = deletion_reference(clean2, Xall, yall0, Xs, obs, kind)
            if torch.isnan(gm).any() or torch.isnan(gc).any():
                fails.append({"sub": "fantasy-nan", "symptom": "NaN in the fantasy model's posterior", "detail": "", "features": f2})
                continue
            ok, msg = util.close(gm, wm, 1e-7, 1e-7)
            if not ok:
                fails.append({"sub": "fantasy-nan", "symptom": f"fantasy posterior mean != deletion oracle on concatenated data: err={msg}", "detail": "", "features": f2})
            ok, msg = util.close(gc, wc, 1e-7, 1e-7)
            if not ok:
                fails.append({"sub": "fantasy-nan", "symptom": f"fantasy posterior covariance != deletion oracle on concatenated data: err={msg}", "detail": "", "features": f2})
    # MLL under mask: n_total * mll == n_observed * mll_deleted  (fill is documented as unsupported for the MLL)
    if kind in ("single", "multitask", "fixed", "matern") and cell["ctx"] == "default" and int((~nanmask).sum()) > 0:
        f2 = dict(feats, policy="mask", order="mll")
        with fails.guard("mll"):
            model = build(kind, seed, X, y)
            model.train()
            mll = gpytorch.mlls.ExactMarginalLogLikelihood(model.likelihood, model)
            with S.observation_nan_policy("mask"):
                val = mll(model(X), y)
            ops += 1
            obs = ~nanmask.reshape(-1)
            with torch.no_grad():
                prior = clean.forward(X)
                marg = clean.likelihood(prior, X)
                C = marg.covariance_matrix[..., obs, :][..., :, obs]
                mu = marg.mean.reshape(-1)[obs]
                want = dense.gauss_logpdf(y0.reshape(-1)[obs], mu, C)
            n_total = y.numel()
            n_obs = int(obs.sum())
            # documented: "rescaled by the count of observed values"
            # "rescaled by the count of observed values": the library normalises by the total count, so
            # n_total * MLL(masked) must equal n_obs * MLL(deleted) = log N(y_obs)
            ok1, msg1 = util.close(val * n_total, want, 1e-8, 1e-8)
            if not ok1:
                fails.append({"sub": "mll", "symptom": f"n_total * masked MLL != log N(y_obs; deleted data): err={msg1}", "detail": f"n_total={n_total} n_obs={n_obs} got={float(val):.6f} want={float(want / n_obs):.6f} (per n_total {float(want / n_total):.6f})", "features": f2})
        for f in fails:
            f.setdefault("features", f2)
    if kind == "sgpr" and cell["ctx"] == "default" and int((~nanmask).sum()) > 0:
        # the SGPR objective (marginal of the Nystrom model + its added trace term) under 'mask' == the same objective on the deleted data
        f2 = dict(feats, policy="mask", order="mll")
        with fails.guard("mll"):
            obs = ~nanmask
            vals = []
            for Xa, ya, pol in ((X, y, "mask"), (X[obs], y0[obs], "ignore")):
                model = build(kind, seed, Xa, ya)
                model.train()
                mll = gpytorch.mlls.ExactMarginalLogLikelihood(model.likelihood, model)
                with S.observation_nan_policy(pol):
                    vals.append(mll(model(Xa), ya).detach())
            ops += 2
            ok1, msg1 = util.close(vals[0] * y.numel(), vals[1] * int(obs.sum()), 1e-8, 1e-8)
            if not ok1:
                fails.append({"sub": "mll", "symptom": f"n_total * masked SGPR objective != n_obs * objective on the deleted data: err={msg1}",
                              "detail": f"masked={float(vals[0]):.6f} deleted={float(vals[1]):.6f}", "features": f2})
        for f in fails:
            f.setdefault("features", f2)
    return {"fails": fails, "sig": ",".join(sorted({f["sub"] for f in fails})) or "ok", "features": feats, "ops": ops,
            "nontrivial": 0 < int(nanmask.sum()) < nanmask.numel()}


def run_elp_batch(cell, seed, feats, nanmask):
    """batch of 2 x 3 targets: 'fill' drops exactly the NaN entries of each batch element, 'mask' (documented) the union over the batch"""
    fails = Fails()
    g = util.gen(seed, "c16elpb")
    b, n = nanmask.shape
    m, C = util.randn(g, b, n), torch.stack([util.spd(g, n) for _ in range(b)])
    y0 = util.randn(g, b, n)
    y = y0.clone()
    y[nanmask] = float("nan")
    lik = gpytorch.likelihoods.GaussianLikelihood()
    s2 = 0.3
    lik.noise = s2
    dist = gpytorch.distributions.MultivariateNormal(m, C)
    var = C.diagonal(dim1=-2, dim2=-1)
    refs = {"expected_log_prob": -0.5 * (((y0 - m) ** 2 + var) / s2 + math.log(s2) + math.log(2 * math.pi)),
            "log_marginal": -0.5 * ((y0 - m) ** 2 / (var + s2) + torch.log(var + s2) + math.log(2 * math.pi))}
    for pol in ("mask", "fill"):
        f2 = dict(feats, policy=pol, batched=True)
        obs = (~nanmask.any(0)).expand(b, n) if pol == "mask" else ~nanmask
        for name, ref in refs.items():
            with fails.guard(name):
                nb = len(fails)
                with S.observation_nan_policy(pol), torch.no_grad():
                    got = getattr(lik, name)(y, dist)
                if torch.isnan(got).any():
                    fails.add(name, "NaN in output")
                    continue
                want = (ref * obs).sum(-1)
                gs = got.sum(-1) if got.dim() == 2 else got
                if gs.shape != want.shape or util.maxerr(gs, want) > 1e-9:
                    fails.add(name, f"per batch element sum of terms != sum over the entries that count as observed: err={util.maxerr(gs, want) if gs.shape == want.shape else float('nan'):.3e}",
                              f"got={gs.tolist()} want={want.tolist()} nan={nanmask.tolist()}")
            for f in fails[nb:]:
                f["features"] = f2
    for f in fails:
        f.setdefault("features", dict(feats, batched=True))
    return {"fails": fails, "sig": "elp-batch", "features": feats, "ops": 4, "nontrivial": 0 < int(nanmask.sum()) < nanmask.numel()}


def run_elp_mt(cell, seed, feats):
    """MultitaskGaussianLikelihood (diagonal task noise) on an n x t MultitaskMultivariateNormal in BOTH layouts: expected_log_prob /
    log_marginal with NaN targets == the sum of the terms of the observed (point, task) entries"""
    fails = Fails()
    n, t = 3, 2
    nanmask = torch.tensor(cell["pattern"], dtype=torch.bool).view(n, t)
    g = util.gen(seed, "c16elpmt")
    m, Cint = util.randn(g, n, t), util.spd(g, n * t)            # Cint: point-major (interleaved) order
    y0 = util.randn(g, n, t)
    y = y0.clone()
    y[nanmask] = float("nan")
    lik = gpytorch.likelihoods.MultitaskGaussianLikelihood(num_tasks=t, rank=0)
    with torch.no_grad():
        lik.task_noises = torch.tensor([0.2, 0.45], dtype=F64)
        lik.noise = torch.tensor([0.1], dtype=F64)
    s2 = torch.tensor([0.3, 0.55], dtype=F64)                     # per task: task noise + global noise
    var = Cint.diagonal().view(n, t)
    elp_ref = -0.5 * (((y0 - m) ** 2 + var) / s2 + s2.log() + math.log(2 * math.pi))
    lm_ref = -0.5 * ((y0 - m) ** 2 / (var + s2) + torch.log(var + s2) + math.log(2 * math.pi))
    obs = ~nanmask
    MT = gpytorch.distributions.MultitaskMultivariateNormal
    for inter in (True, False):
        C = Cint if inter else Cint.view(n, t, n, t).permute(1, 0, 3, 2).reshape(n * t, n * t)
        dist = MT(m, C, interleaved=inter)
        for pol in ("mask",):   # 'fill' is documented as unsupported for multitask models
            f2 = dict(feats, policy=pol, interleaved=inter)
            for name, ref in (("expected_log_prob", elp_ref), ("log_marginal", lm_ref)):
                try:
                    with S.observation_nan_policy(pol), torch.no_grad():
                        got = getattr(lik, name)(y, dist)
                except Exception as e:
                    fails.append({"sub": name, "symptom": util.exc_str(e), "detail": "", "features": f2})
                    continue
                if torch.isnan(got).any():
                    fails.append({"sub": name, "symptom": "NaN in output", "detail": "", "features": f2})
                    continue
                want_sum = ref[obs].sum()
                if abs(float(got.sum() - want_sum)) > 1e-9:
                    charact = ""
                    if not inter:
                        # the known wrong value: the point-major mask applied to the task-major variances
                        vt = C.diagonal()[obs.reshape(-1)]
                        yy, mm, ss = y0[obs], m[obs], s2.expand(n, t)[obs]
                        alt = (-0.5 * (((yy - mm) ** 2 + vt) / ss + ss.log() + math.log(2 * math.pi))).sum() if name == "expected_log_prob" else \
                            (-0.5 * ((yy - mm) ** 2 / (vt + ss) + torch.log(vt + ss) + math.log(2 * math.pi))).sum()
                        if abs(float(got.sum() - alt)) < 1e-9:
                            charact = " (= variances of OTHER (point, task) entries: point-major mask on the task-major covariance)"
                    fails.append({"sub": name, "symptom": f"sum of terms != sum over the observed (point, task) entries: err={abs(float(got.sum() - want_sum)):.3e}{charact}",
                                  "detail": "", "features": f2})
    return {"fails": fails, "sig": "elp-mt", "features": feats, "ops": 4, "nontrivial": 0 < int(nanmask.sum()) < n * t}


def run_elp(cell, seed, feats):
    """Gaussian expected_log_prob / log_marginal terms with NaN targets == the terms of the observed entries"""
    fails = Fails()
    nanmask = torch.tensor(cell["pattern"], dtype=torch.bool)
    if nanmask.dim() == 2:
        return run_elp_batch(cell, seed, feats, nanmask)
    g = util.gen(seed, "c16elp")
    n = 4
    m, C = util.randn(g, n), util.spd(g, n)
    y0 = util.randn(g, n)
    y = y0.clone()
    y[nanmask] = float("nan")
    lik = gpytorch.likelihoods.GaussianLikelihood()
    lik.noise = 0.3
    dist = gpytorch.distributions.MultivariateNormal(m, C)
    s2 = 0.3
    var = C.diagonal()
    elp_ref = -0.5 * (((y0 - m) ** 2 + var) / s2 + math.log(s2) + math.log(2 * math.pi))
    lm_ref = -0.5 * ((y0 - m) ** 2 / (var + s2) + torch.log(var + s2) + math.log(2 * math.pi))
    obs = ~nanmask
    for pol in ("mask", "fill"):
        f2 = dict(feats, policy=pol)
        for name, fn, ref in (("expected_log_prob", lik.expected_log_prob, elp_ref), ("log_marginal", lik.log_marginal, lm_ref)):
            try:
                with S.observation_nan_policy(pol), torch.no_grad():
                    got = fn(y, dist)
            except Exception as e:
                fails.append({"sub": name, "symptom": util.exc_str(e), "detail": "", "features": f2})
                continue
            if torch.isnan(got).any():
                fails.append({"sub": name, "symptom": "NaN in output", "detail": "", "features": f2})
                continue
            want_sum = ref[obs].sum()
            if abs(float(got.sum() - want_sum)) > 1e-9:
                fails.append({"sub": name, "symptom": f"sum of terms != sum over observed entries: err={abs(float(got.sum() - want_sum)):.3e}", "detail": "", "features": f2})
            if got.numel() == int(obs.sum()):
                if util.maxerr(got, ref[obs]) > 1e-9:
                    fails.append({"sub": name, "symptom": "elementwise terms differ from the observed entries' terms", "detail": "", "features": f2})
            elif got.numel() == n:
                if util.maxerr(got[obs], ref[obs]) > 1e-9 or float(got[~obs].abs().sum()) != 0.0:
                    fails.append({"sub": name, "symptom": "elementwise terms differ (observed) or non-zero (missing)", "detail": "", "features": f2})
    return {"fails": fails, "sig": "elp", "features": feats, "ops": 4, "nontrivial": 0 < int(nanmask.sum()) < n}
