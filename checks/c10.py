"""C10 — MultivariateNormal is the distribution it claims to be (Engine G; index expressions exhaustive on small shapes).

Reference: torch.distributions.MultivariateNormal on densified, explicitly broadcast arguments; closed-form KL; position
bookkeeping for indexing (as in C11): d[idx] = marginal of the selected components, batch elements independent.
"""
import itertools
import math

import torch

import gpytorch
from gpytorch.distributions import Delta
from gpytorch.distributions import MultivariateNormal as MVN
from linear_operator import to_linear_operator
from linear_operator.operators import (CholLinearOperator, DiagLinearOperator, RootLinearOperator, TriangularLinearOperator)

from gpmc import util
from gpmc.refs import dense
from gpmc.util import Fails, F64

PROPERTY = "C10"
RULE = ("cells = sub-check x event size {1,2,3} x covariance representation {dense tensor, DenseLO, Diag, Chol, Root, Sum, batch-broadcast} x "
        "(mean batch, covariance batch, value batch) broadcastable triples x log_prob path {fast, Cholesky}; KL over all ordered pairs of "
        "representations; rsample on every basis vector; arithmetic / expand / every unsqueeze dim / add_jitter; __getitem__ over the full product "
        "of per-dimension index alphabets; distinct/non-trivial = distinct (configuration, selected positions) or distinct cell that evaluated")
ASSUMPTIONS = ["sample-moment convergence is replaced by x = mean + L e (owned base samples) with L L^T = covariance",
               "rsample(base_samples=) is documented for an N x N root: skipped for the N x (N+2) RootLinearOperator representation",
               "index tensors in one dimension at a time; expressions torch rejects / selecting nothing / leaving no dimension are outside the domain"]

KINDS = ["dense", "lo", "diag", "chol", "root", "rootwide", "sum", "sumroot", "bcast"]
SHAPES = [(), (2,), (1,), (2, 1), (3, 2)]


def mk(g, bs, N, kind):
    C = util.spd(g, *bs, N)
    if kind == "dense":
        return C, C
    if kind == "lo":
        return to_linear_operator(C), C
    if kind == "diag":
        dg = util.rand(g, *bs, N) + 0.5
        return DiagLinearOperator(dg), torch.diag_embed(dg)
    if kind == "chol":
        return CholLinearOperator(TriangularLinearOperator(torch.linalg.cholesky(C))), C
    if kind == "root":
        A = util.randn(g, *bs, N, N) + 2 * torch.eye(N, dtype=F64)
        return RootLinearOperator(A), A @ A.mT
    if kind == "rootwide":  # a root with more columns than rows (N x (N + 2)): the covariance of a low-dimensional projection
        A = util.randn(g, *bs, N, N + 2)
        return RootLinearOperator(A), A @ A.mT
    if kind == "sum":
        dg = util.rand(g, *bs, N) + 0.5
        return to_linear_operator(C) + DiagLinearOperator(dg), C + torch.diag_embed(dg)
    if kind == "sumroot":  # dense + low-rank root (what a sum kernel with a LinearKernel summand evaluates to)
        R = util.randn(g, *bs, N, 2)
        return to_linear_operator(C) + RootLinearOperator(R), C + R @ R.mT
    if kind == "bcast":  # covariance without batch dims, broadcast against a batched mean
        C0 = util.spd(g, N)
        return to_linear_operator(C0), C0.expand(*bs, N, N)
    raise AssertionError(kind)


def cells(tier, seed):
    out = []
    Ns = [1, 2, 3]
    for N, kind, fast in itertools.product(Ns, KINDS, [True, False]):
        for mb, cb, vb in itertools.product(SHAPES, SHAPES, SHAPES + [(4, 2)]):
            if kind == "bcast" and cb != ():
                continue
            try:
                torch.broadcast_shapes(mb, cb, vb)
            except RuntimeError:
                continue
            if tier == "quick" and N == 2:
                continue
            out.append({"what": "log_prob", "N": N, "kind": kind, "fast": fast, "mb": list(mb), "cb": list(cb), "vb": list(vb)})
    for bs, k1, k2 in itertools.product([(), (2,), (3, 2)], KINDS[:-1], KINDS[:-1]):
        out.append({"what": "kl", "bs": list(bs), "k1": k1, "k2": k2, "N": 3})
    for bs, k1, N in itertools.product([(), (2,), (2, 3)], KINDS[:-1], Ns):
        out.append({"what": "ops", "bs": list(bs), "kind": k1, "N": N})
    # a lazily held covariance WITHOUT batch dimensions under a batched mean (the distribution's batch shape is the mean's)
    for bs in [(2,), (2, 3)]:
        out.append({"what": "ops", "bs": list(bs), "kind": "bcast", "N": 3})
        for other in ("dense", "bcast"):
            out.append({"what": "kl", "bs": list(bs), "k1": "bcast", "k2": other, "N": 3})
            out.append({"what": "kl", "bs": list(bs), "k1": other, "k2": "bcast", "N": 3})
        for first in range(len(alpha(bs[0], tier)) - 1):
            out.append({"what": "getitem", "bs": list(bs), "kind": "bcast", "N": 3, "first": first, "tier": tier})
    for bs, k1 in itertools.product([(), (2,), (2, 2)], KINDS[:-1]):
        for first in range(len(alpha((bs + (3,))[0], tier)) - (1 if bs else 0)):
            out.append({"what": "getitem", "bs": list(bs), "kind": k1, "N": 3, "first": first, "tier": tier})
            if k1 == "dense" and len(bs) <= 1:
                # the same index expressions under a raised variance floor: `variance` is clamped, the covariance of a marginal is not
                out.append({"what": "getitem", "bs": list(bs), "kind": k1, "N": 3, "first": first, "tier": tier, "minvar": 10.0})
    return out


def alpha(size, tier):
    if tier == "quick":
        ends = [None, 0, 1, -1, size + 1]
        steps = [None, 2]
    else:
        ends = [None] + list(range(-size - 1, size + 2))
        steps = [None, 1, 2]
    A = [["int", i] for i in range(-size, size)]
    A += [["slice", a, b, s] for a in ends for b in ends for s in steps]
    A += [["tensor", [0]], ["tensor", [size - 1, 0]], ["tensor", [-1, 0, 0]]]
    # the other index objects torch accepts for `mean[idx]`: numpy integers, 0-dim tensors, boolean masks, python lists
    A += [["npint", size - 1], ["tensor0", 0], ["mask", [i != 1 for i in range(size)]], ["list", [size - 1, 0]]]
    A += [["ellipsis"]]
    return A


def mkidx(e):
    if e[0] == "int":
        return e[1]
    if e[0] == "slice":
        return slice(e[1], e[2], e[3])
    if e[0] == "tensor":
        return torch.tensor(e[1], dtype=torch.long)
    if e[0] == "npint":
        import numpy
        return numpy.int64(e[1])
    if e[0] == "tensor0":
        return torch.tensor(e[1], dtype=torch.long)
    if e[0] == "mask":
        return torch.tensor(e[1], dtype=torch.bool)
    if e[0] == "list":
        return list(e[1])
    return Ellipsis


def run_cell(cell, seed):
    fails = Fails()
    what = cell["what"]
    g = util.gen(seed, "c10|" + util.jdump({k: v for k, v in cell.items() if k != "first"}))
    feats = {k: (len(v) if isinstance(v, list) else v) for k, v in cell.items() if k not in ("first", "tier")}
    states = None
    notes = {}
    ops = 1
    if what == "log_prob":
        N, kind = cell["N"], cell["kind"]
        mb, cb, vb = tuple(cell["mb"]), tuple(cell["cb"]), tuple(cell["vb"])
        feats["bt"] = f"{cell['mb']}/{cell['cb']}/{cell['vb']}"
        mean = util.randn(g, *mb, N)
        c, C = mk(g, cb, N, kind)
        v = util.randn(g, *vb, N)
        with fails.guard("log_prob"):
            d = MVN(mean, c)
            B = torch.broadcast_shapes(mb, cb)
            ref = torch.distributions.MultivariateNormal(mean.expand(*B, N), C.expand(*B, N, N)).log_prob(v)
            with gpytorch.settings.fast_computations(log_prob=cell["fast"]), gpytorch.settings.max_cholesky_size(800):
                got = d.log_prob(v)
            fails.check_close("log_prob", got, ref, 1e-8, 1e-9, "log_prob != Gaussian log density on broadcast arguments")
            if N > 1:
                # a value whose event dimension has size 1 broadcasts over the N components (the same number observed for every component)
                v1 = util.randn(g, *vb, 1)
                ref1 = torch.distributions.MultivariateNormal(mean.expand(*B, N), C.expand(*B, N, N)).log_prob(v1.expand(*vb, N))
                with gpytorch.settings.fast_computations(log_prob=cell["fast"]), gpytorch.settings.max_cholesky_size(800):
                    got1 = d.log_prob(v1)
                fails.check_close("log_prob", got1, ref1, 1e-8, 1e-9, "log_prob of a value of event size 1 (broadcast over the components)")
            if tuple(d.batch_shape) != tuple(B) or tuple(d.event_shape) != (N,):
                fails.add("shapes", f"batch_shape {tuple(d.batch_shape)} event_shape {tuple(d.event_shape)} want {tuple(B)}, ({N},)")
    elif what == "kl":
        bs, N = tuple(cell["bs"]), cell["N"]
        m1, m2 = util.randn(g, *bs, N), util.randn(g, *bs, N)
        c1, C1 = mk(g, bs, N, cell["k1"])
        c2, C2 = mk(g, bs, N, cell["k2"])
        with fails.guard("kl"):
            kl = torch.distributions.kl_divergence(MVN(m1, c1), MVN(m2, c2))
            fails.check_close("kl", kl, dense.kl_mvn(m1, C1, m2, C2), 1e-8, 1e-9, "KL != closed form")
            kl0 = torch.distributions.kl_divergence(MVN(m1, c1), MVN(m1, c1))
            fails.check_close("kl-self", kl0, torch.zeros_like(kl0), 1e-9, 0, "KL(p||p) != 0")
        with fails.guard("kl-delta"):
            kld = torch.distributions.kl_divergence(Delta(m1), MVN(m2, c2))
            want = -torch.distributions.MultivariateNormal(m2, C2).log_prob(m1)
            fails.check_close("kl-delta", kld, want, 1e-8, 1e-9, "'KL'(delta_m || p) != -log p(m) (documented convention)")
    elif what == "ops":
        ops = run_ops(cell, g, fails)
    elif what == "getitem":
        if cell.get("minvar"):
            with gpytorch.settings.min_variance(double_value=cell["minvar"]):
                states, n = run_getitem(cell, g, fails, feats)
            states = [util.digest(["minvar", x]) for x in states]
        else:
            states, n = run_getitem(cell, g, fails, feats)
        notes["index_expressions_in_domain"] = n
        ops = n
    for f in fails:
        f.setdefault("features", feats)
    res = {"fails": fails, "sig": what + ":" + ",".join(sorted({f["sub"] for f in fails})), "features": feats, "ops": ops, "notes": notes}
    if states is not None:
        res["state_digests"] = states
        res["nontrivial"] = len(states) > 0
    return res


def run_ops(cell, g, fails):
    bs, N, kind = tuple(cell["bs"]), cell["N"], cell["kind"]
    m = util.randn(g, *bs, N)
    gstate = g.get_state()
    c, C = mk(g, bs, N, kind)
    d = MVN(m, c)
    n = 0

    def fresh():
        """the same distribution on a newly built covariance operator (no cached factor anywhere)"""
        g2 = torch.Generator()
        g2.set_state(gstate)
        return MVN(m, mk(g2, bs, N, kind)[0])

    with fails.guard("rsample"):
        if kind == "rootwide":
            raise util.Skip()  # documented for an N x N root and N base samples only
        E = torch.eye(N, dtype=F64).view(N, *([1] * len(bs)), N).expand(N, *bs, N)
        S = d.rsample(base_samples=E) - m
        L = S.movedim(0, -1)
        fails.check_close("rsample", L @ L.mT, C, 1e-8, 1e-9, "rsample(base_samples=e_i) - mean must be the columns of L with L L^T = cov")
        e = util.randn(g, 5, *bs, N)
        x = d.rsample(base_samples=e)
        fails.check_close("rsample", x, m + (L @ e.unsqueeze(-1)).squeeze(-1), 1e-8, 1e-9, "rsample is not mean + L e (linear in e)")
        for ss in [(), (4,), (2, 3)]:
            b = d.get_base_samples(torch.Size(ss))
            if tuple(b.shape) != ss + bs + (N,):
                fails.add("base-samples-shape", f"get_base_samples({ss}).shape = {tuple(b.shape)}")
            torch.manual_seed(5)
            xs = d.rsample(torch.Size(ss))
            if tuple(xs.shape) != ss + bs + (N,):
                fails.add("rsample-shape", f"rsample({ss}).shape = {tuple(xs.shape)}")
        n += 6
    with fails.guard("rsample-noarg-layout"):
        if kind in ("dense", "diag", "lo"):
            for i0 in range(N):
                v = torch.full((N,), 1e-24, dtype=F64)
                v[i0] = 1.0
                dd = MVN(m, torch.diag(v).expand(*bs, N, N).contiguous() if kind != "diag" else DiagLinearOperator(v.expand(*bs, N).contiguous()))
                torch.manual_seed(11)
                x = dd.rsample(torch.Size((2,))) - m
                mask = torch.ones(N, dtype=torch.bool)
                mask[i0] = False
                if (N > 1 and float(x[..., mask].abs().max()) > 1e-6) or float(x[..., i0].abs().min()) < 1e-9:
                    fails.add("rsample-noarg-layout", f"noise of rsample() is not on component {i0}")
                n += 1
    with fails.guard("variance"):
        var = C.diagonal(dim1=-1, dim2=-2)
        fails.check_close("variance", d.variance, var, 1e-12, 1e-12)
        fails.check_close("stddev", d.stddev, var.sqrt(), 1e-12, 1e-12)
        lo, hi = d.confidence_region()
        fails.check_close("confidence_region", lo, m - 2 * var.sqrt(), 1e-10, 1e-12)
        fails.check_close("confidence_region", hi, m + 2 * var.sqrt(), 1e-10, 1e-12)
        n += 3
    n += derived_ops(d, m, C, bs, N, g, fails, "as-is")
    # short histories: the same operations on a distribution that has first served another request (which may cache a factor)
    for warm, fn in WARMUPS:
        nb = len(fails)
        dw = fresh()
        try:
            fn(dw, m)
        except Exception:
            continue  # the warm-up request itself is judged elsewhere (log_prob / getitem cells)
        n += 1 + derived_ops(dw, m, C, bs, N, g, fails, warm)
        for f in fails[nb:]:
            f["detail"] = f"[after {warm}] " + f.get("detail", "")
    return n


def _lp_chol(d, m):
    with gpytorch.settings.fast_computations(log_prob=False):
        d.log_prob(m + 0.1)


WARMUPS = [("scale_tril", lambda d, m: d.scale_tril), ("log_prob(cholesky path)", _lp_chol), ("log_prob(fast path)", lambda d, m: d.log_prob(m + 0.1)),
           ("entropy", lambda d, m: d.entropy()), ("precision_matrix", lambda d, m: d.precision_matrix), ("variance", lambda d, m: d.variance),
           ("rsample", lambda d, m: d.rsample())]


def derived_ops(d, m, C, bs, N, g, fails, warm):
    n = 0
    arith = [("+1.5", lambda x: x + 1.5, lambda m: m + 1.5, lambda C: C), ("*3", lambda x: x * 3, lambda m: m * 3, lambda C: C * 9),
             ("*-2", lambda x: x * -2, lambda m: m * -2, lambda C: C * 4), ("/2", lambda x: x / 2, lambda m: m / 2, lambda C: C / 4),
             ("*1", lambda x: x * 1, lambda m: m, lambda C: C), ("d+d2", None, None, None), ("1.5+d", lambda x: 1.5 + x, lambda m: m + 1.5, lambda C: C)]
    for name, op, fm, fc in arith:
        with fails.guard("arith" + name):
            if name == "d+d2":
                m2 = util.randn(g, *bs, N)
                c2, C2 = mk(g, bs, N, "dense")
                o = d + MVN(m2, c2)
                wm, wc = m + m2, C + C2
            else:
                o = op(d)
                wm, wc = fm(m), fc(C)
            fails.check_close("arith" + name, o.mean, wm, 1e-10, 1e-12)
            fails.check_close("arith" + name, o.covariance_matrix, wc, 1e-10, 1e-12)
            n += 1 + derived_consistency(o, wm, wc, g, fails, "arith" + name)
    with fails.guard("expand"):
        e = d.expand(torch.Size([4, *bs]))
        fails.check_close("expand", e.mean, m.expand(4, *bs, N), 0, 0)
        fails.check_close("expand", e.covariance_matrix, C.expand(4, *bs, N, N), 1e-12, 0)
        v = util.randn(g, 4, *bs, N)
        fails.check_close("expand", e.log_prob(v), torch.distributions.MultivariateNormal(m, C).log_prob(v), 1e-8, 1e-9)
        n += 1 + derived_consistency(e, m.expand(4, *bs, N), C.expand(4, *bs, N, N), g, fails, "expand")
    for dim in range(-len(bs) - 1, len(bs) + 1):
        with fails.guard("unsqueeze"):
            u = d.unsqueeze(dim)
            wm = m.unsqueeze(dim if dim >= 0 else dim - 1)
            wc = C.unsqueeze(dim if dim >= 0 else dim - 2)
            fails.check_close("unsqueeze", u.mean, wm, 0, 0, f"dim={dim}")
            fails.check_close("unsqueeze", u.covariance_matrix, wc, 1e-12, 0, f"dim={dim}")
            n += 1 + derived_consistency(u, wm, wc, g, fails, "unsqueeze")
    with fails.guard("add_jitter"):
        j = d.add_jitter(1e-2)
        fails.check_close("add_jitter", j.covariance_matrix, C + 1e-2 * torch.eye(N, dtype=F64), 1e-12, 1e-12)
        fails.check_close("add_jitter", j.mean, m, 0, 0)
        fails.check_close("add_jitter", d.add_jitter().covariance_matrix, C + 1e-4 * torch.eye(N, dtype=F64), 1e-12, 1e-12, "documented default 1e-4")
        n += 1
    return n


def derived_consistency(o, wm, wc, g, fails, sub):
    """a distribution produced by an operation must itself be the distribution N(wm, wc): log_prob on both paths, scale_tril"""
    v = util.randn(g, *wm.shape)
    ref = torch.distributions.MultivariateNormal(wm, wc).log_prob(v)
    for fast in (True, False):
        try:
            with gpytorch.settings.fast_computations(log_prob=fast):
                got = o.log_prob(v)
            ok, msg = util.close(got, ref, 1e-8, 1e-9)
            if not ok:
                fails.add(sub, f"log_prob of the result (fast={fast}) != log N(v; mean, cov) of the result: err={msg}")
        except Exception as e:
            fails.add(sub, f"log_prob of the result (fast={fast}) raises: {util.exc_str(e)}")
    L = o.scale_tril
    ok, msg = util.close(L @ L.mT, wc, 1e-8, 1e-9)
    if not ok:
        fails.add(sub, f"scale_tril of the result: L L^T != covariance: err={msg}")
    if float(L.diagonal(dim1=-1, dim2=-2).min()) <= 0 or float(L.triu(1).abs().max() if L.shape[-1] > 1 else 0.0) > 0:
        fails.add(sub, "scale_tril of the result is not a lower Cholesky factor (non-positive diagonal or upper entries)")
    return 3


def run_getitem(cell, g, fails, feats):
    bs, N, kind, tier = tuple(cell["bs"]), cell["N"], cell["kind"], cell["tier"]
    m = util.randn(g, *bs, N)
    c, C = mk(g, bs, N, kind)
    d = MVN(m, c)
    shape = bs + (N,)
    dims = [alpha(s, tier) for s in shape]
    # batch dimensions: index tensors without repeated entries (a batch element selected twice would be two perfectly
    # correlated copies once the batch dimension becomes the event; no agreed distributional meaning)
    dims = [[e for e in a if not (e[0] == "tensor" and len(set(x % s for x in e[1])) < len(e[1]))] if i < len(shape) - 1 else a
            for i, (a, s) in enumerate(zip(dims, shape))]
    first = dims[0][cell["first"]]
    nb = int(torch.Size(bs).numel())
    F = torch.block_diag(*C.reshape(nb, N, N)) if nb > 1 else C.reshape(N, N)
    pos = torch.arange(m.numel()).view(m.shape)
    states, seen = [], set()
    rest = dims[1:]
    for tail in itertools.product(*rest) if rest else [()]:
        full = (first,) + tuple(tail)
        if sum(1 for e in full if e[0] == "ellipsis") > 1:
            continue
        adv = [e for e in full if e[0] in ("tensor", "list", "mask")]
        if len(adv) > 2 or (len(adv) == 2 and (any(e[0] == "mask" for e in adv) or len(adv[0][1]) != len(adv[1][1]))):
            continue  # at most two advanced indices, paired element by element (as in mean[bi, ei])
        variants = [full]
        if len(full) > 1 and full[-1][0] == "slice" and full[-1][1:] == [None, None, None]:
            variants.append(full[:-1])  # batch-only index
        for var in variants:
            idx = tuple(mkidx(e) for e in var)
            if len(idx) == 1 and cell["first"] % 2 == 0:
                idx = idx[0]  # also exercise the non-tuple form
            try:
                P = pos[idx]
            except Exception:
                continue
            if P.dim() < 1 or P.numel() == 0:
                continue
            kinds = "/".join(e[0] for e in var)
            f2 = dict(feats, idx_kinds=kinds, last_kind=var[-1][0] if len(var) == len(shape) else "batch-only",
                      paired_adv=sum(1 for e in var if e[0] in ("tensor", "list", "mask")) == 2)
            try:
                r = d[idx]
                rm, rc = r.mean, r.covariance_matrix
            except Exception as e:
                key = (kinds, type(e).__name__)
                if key not in seen:
                    seen.add(key)
                    fails.append({"sub": "getitem", "symptom": util.exc_str(e), "detail": f"idx={idx!r}", "features": f2})
                states.append(util.digest([cell["bs"], kind, P.reshape(-1).tolist()]))
                continue
            states.append(util.digest([cell["bs"], kind, P.reshape(-1).tolist()]))
            wm = m[idx]
            ev = P.shape[-1]
            want = F[P.unsqueeze(-1), P.unsqueeze(-2)]
            bad = None
            if tuple(rm.shape) != tuple(wm.shape) or util.maxerr(rm, wm) > 1e-12:
                bad = f"mean of d[idx] != mean[idx] ({tuple(rm.shape)} vs {tuple(wm.shape)})"
            elif tuple(rc.shape) != tuple(want.shape) or util.maxerr(rc, want) > 1e-10:
                bad = f"covariance of d[idx] is not the marginal of the selected components (shape {tuple(rc.shape)} want {tuple(want.shape)})"
            if bad:
                key = (kinds, bad[:30])
                if key not in seen:
                    seen.add(key)
                    fails.append({"sub": "getitem", "symptom": bad, "detail": f"idx={idx!r}", "features": f2})
    return states, len(states)
