"""C17 — constraints, parameter setters and priors: bounds, bijection, round trips.

Four kinds of cells ("what"):

transform         Engine G sweep: constraint class x bounds lattice (scalar and tensor valued) x transform x dtype x a slice of the raw
                  lattice (strided float32 bit patterns in value order, dense +-64 ulp neighbourhoods of 0 and of the saturation points,
                  a float64 lattice over +-1e30).  Oracle: transform(raw) is never NaN, lies in the closed interval [lower, upper] of the
                  constraint's own bound buffers, is non-decreasing along increasing raw, and inverse_transform(transform(raw)) == raw
                  (1e-6) on the interior.
history           Engine S: for every constrained parameter of every constructible exported kernel / mean / likelihood / noise model
                  (found by reflection), all operation sequences up to the depth bound over {public setter with interior / exact lower /
                  exact upper / below / above / tensor / one-element-out-of-bounds values, initialize(raw=..), initialize(public=..), SGD
                  step lr 1 and 1e6, register_constraint with other bounds}.  Oracle: a plain map {raw value, bounds, transform kind} and the
                  reference transform of gpmc.refs.priors.
prior-density     every exported prior class x parameter lattice x value lattice vs the documented density (scipy / closed forms),
                  normalisation by quadrature where a normalised density is documented.
prior-closure     a module built with a prior on each of its `*_prior` constructor arguments: log_prob(closure(module)) equals the
                  reference density at the public (constrained) parameter value.
sample-from-prior module.sample_from_prior(name) stores the sampled value (same seed -> same draw from the prior object).
"""
import copy
import inspect
import itertools
import logging
import math
import re

import numpy as np
import torch

import gpytorch
import gpytorch.kernels as GK
import gpytorch.likelihoods as GL
import gpytorch.means as GM
import gpytorch.priors as GP
from gpytorch.constraints import GreaterThan, Interval, LessThan, Positive
from gpytorch.likelihoods import noise_models as GN

from gpmc import util
from gpmc.refs import priors as R
from gpmc.util import Fails

PROPERTY = "C17"
RULE = ("transform cells = constraint class x 66 interval pairs / 12 one-sided bounds (scalar) + tensor-valued bound vectors x transform "
        "{sigmoid | softplus, exp} x dtype {float64, float32} x chunk of the value-ordered float32 bit-pattern range (stride 4096 quick, "
        "16 thorough, offset = config index mod stride) + dense neighbourhoods + float64 lattice; history cells = (constrained parameter "
        "found by reflection, access path, first operation), each exploring every continuation up to the depth bound; prior cells = prior "
        "class x parameter case, module x prior argument x prior class; distinct/non-trivial = distinct (features, outcome signature)")
ASSUMPTIONS = [
    "closed interval membership is judged against the constraint's own lower_bound / upper_bound buffers in the dtype of the computation; "
    "+-inf is accepted as a member of an interval whose bound on that side is infinite",
    "interior (for the round trip) = raw values whose image is strictly inside the bounds and where 8 ulp of the image (at the magnitude of "
    "the image and of the finite bounds) correspond to less than 1e-7 * max(1, |raw|) in raw, i.e. where float64 can represent the inverse "
    "to 1e-6 at all; float32 cells check NaN / bounds / monotonicity only",
    "reference transforms: numpy expit / logaddexp / exp; the transform family of a module's own constraint is identified by its values at "
    "raw = 0 and raw = 1",
    "SmoothedBoxPrior: the docstring's exponent is read as -d^2 / (2 sigma^2) (Gaussian tails, the reading under which the stated "
    "normalisation holds); HorseshoePrior: the docstring's (lb + ub) / 2 formula, no normalisation claimed; LKJ priors: the documented "
    "proportionality |Sigma|^(eta-1) is checked through differences of log_prob between matrices",
    "modules that cannot be built from simple arguments are listed in the evidence (not_constructible) and not explored",
]

F32, F64 = torch.float32, torch.float64

# ======================================================================================================================
# Part 1: transforms
BOUND_VALUES = [-1e8, -1e3, -1.0, -0.5, -1e-6, 0.0, 1e-6, 0.3, 1.0, 1.0000001, 1e3, 1e8]
PAIRS = list(itertools.combinations(BOUND_VALUES, 2))  # 66 pairs, lo < hi
SAT_CANDIDATES = [15.2, 16.635532, 17.328680, 20.0, 33.3, 35.35, 36.04365, 36.7368, 37.429948, 40.0, 87.33655, 88.72284, 103.97208,
                  708.3964, 709.782712893384, 745.1332191019412]


def transform_configs():
    cfgs = []
    for lo, hi in PAIRS:
        cfgs.append({"cls": "Interval", "lo": lo, "hi": hi, "tf": "sigmoid", "tensor": False})
    for b in BOUND_VALUES:
        for tf in ("softplus", "exp"):
            cfgs.append({"cls": "GreaterThan", "lo": b, "hi": None, "tf": tf, "tensor": False})
            cfgs.append({"cls": "LessThan", "lo": None, "hi": b, "tf": tf, "tensor": False})
    for tf in ("softplus", "exp"):
        cfgs.append({"cls": "Positive", "lo": None, "hi": None, "tf": tf, "tensor": False})
    # a registered transform given WITHOUT its inverse (the inverse of torch.exp is looked up in the library's transform registry)
    cfgs.append({"cls": "Positive", "lo": None, "hi": None, "tf": "exp", "tensor": False, "inv": "registry"})
    cfgs.append({"cls": "GreaterThan", "lo": BOUND_VALUES[len(BOUND_VALUES) // 2], "hi": None, "tf": "exp", "tensor": False, "inv": "registry"})
    # the default transforms under their other standard spellings (still without an explicit inverse)
    cfgs.append({"cls": "Positive", "lo": None, "hi": None, "tf": "softplus", "tensor": False, "spelling": "nn.Softplus()"})
    cfgs.append({"cls": "GreaterThan", "lo": BOUND_VALUES[len(BOUND_VALUES) // 2], "hi": None, "tf": "softplus", "tensor": False, "spelling": "F.softplus"})
    cfgs.append({"cls": "Interval", "lo": PAIRS[0][0], "hi": PAIRS[0][1], "tf": "sigmoid", "tensor": False, "spelling": "F.sigmoid"})
    cfgs.append({"cls": "Interval", "lo": PAIRS[0][0], "hi": PAIRS[0][1], "tf": "sigmoid", "tensor": False, "spelling": "nn.Sigmoid()"})
    # tensor-valued bounds
    cfgs.append({"cls": "Interval", "lo": "pairs_lo", "hi": "pairs_hi", "tf": "sigmoid", "tensor": True})
    cfgs.append({"cls": "Interval", "lo": -2e8, "hi": "values", "tf": "sigmoid", "tensor": True})
    cfgs.append({"cls": "Interval", "lo": "values", "hi": 2e8, "tf": "sigmoid", "tensor": True})
    cfgs.append({"cls": "Interval", "lo": "col_lo", "hi": "row_hi", "tf": "sigmoid", "tensor": True})
    for tf in ("softplus", "exp"):
        cfgs.append({"cls": "GreaterThan", "lo": "values", "hi": None, "tf": tf, "tensor": True})
        cfgs.append({"cls": "LessThan", "lo": None, "hi": "values", "tf": tf, "tensor": True})
    for i, c in enumerate(cfgs):
        c["idx"] = i
    return cfgs


def _bound(spec):
    if spec is None or isinstance(spec, (int, float)):
        return spec
    if spec == "pairs_lo":
        return torch.tensor([p[0] for p in PAIRS], dtype=F64)
    if spec == "pairs_hi":
        return torch.tensor([p[1] for p in PAIRS], dtype=F64)
    if spec == "values":
        return torch.tensor(BOUND_VALUES, dtype=F64)
    if spec == "col_lo":  # (6, 1) lower bounds, all below the (1, 6) upper bounds
        return torch.tensor(BOUND_VALUES[:6], dtype=F64).unsqueeze(-1)
    if spec == "row_hi":
        return torch.tensor(BOUND_VALUES[6:], dtype=F64).unsqueeze(0)
    raise KeyError(spec)


def build_constraint(cfg, dtype):
    kw = {}
    if cfg["tf"] == "exp":
        kw = {"transform": torch.exp, "inv_transform": torch.log}
        if cfg.get("inv") == "registry":
            kw = {"transform": torch.exp}
    sp = cfg.get("spelling")
    if sp:
        kw = {"transform": {"nn.Softplus()": torch.nn.Softplus(), "F.softplus": torch.nn.functional.softplus, "F.sigmoid": torch.nn.functional.sigmoid,
                            "nn.Sigmoid()": torch.nn.Sigmoid()}[sp]}
    lo, hi = _bound(cfg["lo"]), _bound(cfg["hi"])
    if cfg["cls"] == "Interval":
        c = Interval(lo, hi, **(kw if sp else {}))
    elif cfg["cls"] == "GreaterThan":
        c = GreaterThan(lo, **kw)
    elif cfg["cls"] == "LessThan":
        c = LessThan(hi, **kw)
    else:
        c = Positive(**kw)
    if dtype == "float32":
        c = c.to(F32)
    return c


def ordered_f32(k):
    """value-ordered float32 lattice: k in [0, 2^32) (int64 numpy) -> float32, increasing in k (k < 2^31: negatives)"""
    k = np.asarray(k, dtype=np.int64)
    bits = np.where(k >= 2 ** 31, k - 2 ** 31, 2 ** 32 - 1 - k).astype(np.uint32)
    return bits.view(np.float32)


def neighbourhood(p, dtype, n=64):
    """the n floats below and above p (and p) in `dtype` (numpy dtype)"""
    it = np.int32 if dtype == np.float32 else np.int64
    p = dtype(p)
    if p == 0:
        pos = np.arange(0, n + 1, dtype=it).view(dtype)
        return np.concatenate([-pos, pos])
    b = np.array([abs(p)], dtype=dtype).view(it)[0]
    v = (b + np.arange(-n, n + 1, dtype=it)).view(dtype)
    return np.sign(p) * v


def f64_lattice():
    e = 10.0 ** np.linspace(-30, 30, 20000)
    lin = np.linspace(-100, 100, 40001)
    fine = np.linspace(-50, 50, 20001) * (1 + 2.0 ** -30)
    return np.concatenate([-e, e, lin, fine])  # 100 002 points


def _bisect_saturation(c, npdt, sign):
    """smallest |v| (sign * v > 0) at which transform(v) equals transform(sign * 1e30) (element 0), by bisection on the bit pattern;
    only used to pick lattice points"""
    it = np.int32 if npdt == np.float32 else np.int64
    tdt = F32 if npdt == np.float32 else F64

    def f(v):
        return float(c.transform(torch.tensor([sign * v], dtype=tdt)).reshape(-1)[0])

    top = f(npdt(1e30))
    if top != top:
        return None
    a, b = 0, int(np.array([1e30], dtype=npdt).view(it)[0])
    while b - a > 1:
        m = (a + b) // 2
        v = np.array([m], dtype=it).view(npdt)[0]
        if f(v) == top:
            b = m
        else:
            a = m
    return sign * float(np.array([b], dtype=it).view(npdt)[0])


def raw_blocks(cfg, dtype, chunk, nchunks, stride, c, block):
    """yields (raw values ascending, starts_new_sequence): first the strided float32 lattice of this chunk in cache-sized blocks, then
    (chunk 0 only) the dense neighbourhoods and the float64 lattice as a second ascending sequence"""
    npdt = np.float32 if dtype == "float32" else np.float64
    per = 2 ** 32 // nchunks
    off = cfg["idx"] % stride
    k0, k1 = chunk * per + off, min((chunk + 1) * per + stride + off, 2 ** 32)  # one stride of overlap: monotone across chunk borders
    first = True
    for b0 in range(k0, k1, stride * block):
        x = ordered_f32(np.arange(b0, min(b0 + stride * block, k1), stride, dtype=np.int64))
        x = x[np.isfinite(x)].astype(npdt)
        if x.size:
            yield x, first
            first = False
    if chunk == 0:
        extra = []
        pts = [0.0] + SAT_CANDIDATES + [-s for s in SAT_CANDIDATES]
        if not cfg["tensor"]:
            for sign in (1.0, -1.0):
                s = _bisect_saturation(c, npdt, sign)
                if s is not None and np.isfinite(s):
                    pts.append(s)
        for p in pts:
            extra.append(neighbourhood(p, npdt))
            if npdt == np.float64:
                extra.append(neighbourhood(p, np.float32).astype(np.float64))
        if npdt == np.float64:
            extra.append(f64_lattice())
        x = np.concatenate(extra)
        x = np.unique(x[np.isfinite(x)])  # sorted ascending; -0.0 and 0.0 collapse
        for b0 in range(0, x.size, block):
            yield x[b0:b0 + block], b0 == 0


def transform_cells(tier):
    out = []
    cfgs = transform_configs()
    for cfg in cfgs:
        for dtype in ("float64", "float32"):
            if tier == "quick":
                stride, nchunks = (4096, 1) if not cfg["tensor"] else (65536, 1)
            else:
                stride, nchunks = (16, 64) if not cfg["tensor"] else (4096, 4)
            for ch in range(nchunks):
                out.append({"what": "transform", "cfg": cfg, "dtype": dtype, "chunk": ch, "nchunks": nchunks, "stride": stride})
    return out


def _ulp_at(m, tdt):
    m = float(m)
    if m == 0 or not math.isfinite(m):
        return float(torch.finfo(tdt).tiny)
    npdt = np.float32 if tdt == F32 else np.float64
    return float(np.spacing(npdt(abs(m))))


BLOCK = 1 << 17  # points per block: the dozen elementwise passes of the oracle stay in cache


def run_transform(cell, seed):
    cfg, dtype = cell["cfg"], cell["dtype"]
    tdt = F32 if dtype == "float32" else F64
    fails = Fails()
    bdesc = f"{cfg['lo']},{cfg['hi']}"
    feats = {"what": "transform", "cls": cfg["cls"], "param": cfg["tf"], "bounds": bdesc, "tensor_bounds": cfg["tensor"], "dtype": dtype,
             "chunk": cell["chunk"]}
    c = build_constraint(cfg, dtype)
    lo, hi = c.lower_bound, c.upper_bound
    bshape = torch.broadcast_shapes(lo.shape, hi.shape)
    ncol = max(1, int(np.prod(bshape))) if cfg["tensor"] else 1
    notes = {"transform_points": 0, "saturated_points": 0, "interior_points": 0}
    nblocks = 0
    eps = torch.finfo(tdt).eps
    sat_thr = -math.log(4 * eps)
    fin = [t for t in (lo, hi) if torch.isfinite(t).all()]
    Bmag = None  # magnitude of the finite bounds (per column for tensor bounds)
    for t in fin:
        Bmag = t.abs() if Bmag is None else torch.maximum(Bmag, t.abs())
    unit = _ulp_at(float(Bmag.max()) if Bmag is not None else 0.0, tdt)
    check_hi, check_lo = bool(torch.isfinite(hi).all()), bool(torch.isfinite(lo).all())
    st = {"nan_raw": None, "over": 0.0, "over_raw": None, "over_n": 0, "over_sat": True, "under": 0.0, "under_raw": None, "under_n": 0,
          "under_sat": True, "drop": 0.0, "drop_at": None, "drop_thr": True, "inf": 0, "rt": 0.0, "rt_at": None, "dtype_differs": 0}
    block = max(1024, BLOCK // ncol)
    prev_x, prev_y = None, None
    with torch.no_grad():
        for x_np, new_seq in raw_blocks(cfg, dtype, cell["chunk"], cell["nchunks"], cell["stride"], c, block):
            x = torch.from_numpy(x_np)
            nblocks += 1
            notes["transform_points"] += int(x.numel() * ncol)
            if new_seq:
                prev_x, prev_y = None, None
            X = x.reshape(-1, *([1] * len(bshape))) if cfg["tensor"] else x
            try:
                y = c.transform(X)
            except Exception as e:  # noqa: BLE001
                fails.add("transform", util.exc_str(e), f"raw block starting at {x[0].item()!r}")
                break
            if y.dtype != tdt:
                st["dtype_differs"] = 1
            yy = y.reshape(x.numel(), -1)
            if not cfg["tensor"] and x.numel() > 1:
                # shortcut: the whole block sits exactly on one finite bound (saturated region): inside the closed interval, constant (so
                # monotone within the block), no interior point. A NaN makes min != max, so NaN blocks take the full path.
                y0, y1 = float(y.min()), float(y.max())
                if y0 == y1 and ((check_hi and y0 == float(hi)) or (check_lo and y0 == float(lo))):
                    if prev_y is not None and float(prev_y.reshape(-1)[0]) > y0:
                        pass  # a drop across the block border: fall through to the full path
                    else:
                        notes["saturated_points"] += int(x.numel())
                        notes["saturated_blocks"] = notes.get("saturated_blocks", 0) + 1
                        prev_x, prev_y = x[-1:], yy[-1:]
                        continue
            # --- never NaN
            if torch.isnan(y).any() and st["nan_raw"] is None:
                st["nan_raw"] = x[torch.isnan(yy).any(-1).nonzero()[0].item()].item()
            # --- closed interval
            for side, chk, bound in (("over", check_hi, hi), ("under", check_lo, lo)):
                if not chk:
                    continue
                ex = (y - bound) if side == "over" else (bound - y)
                m = float(ex.max())
                if m > 0:
                    rows = (ex > 0).reshape(x.numel(), -1).any(-1)
                    raws = x[rows]
                    st[side] = max(st[side], m)
                    st[side + "_n"] += int((ex > 0).sum())
                    if st[side + "_raw"] is None:
                        st[side + "_raw"] = raws[0].item()
                    st[side + "_sat"] &= bool((raws >= sat_thr).all()) if side == "over" else bool((raws <= -sat_thr).all())
            has_inf = bool(torch.isinf(y).any())
            if has_inf:
                st["inf"] += int(torch.isinf(y).sum())
            # --- monotone (within the block and across the block border)
            ycat, xcat = (yy, x) if prev_y is None else (torch.cat([prev_y, yy]), torch.cat([prev_x, x]))
            if ycat.shape[0] > 1:
                d = ycat[1:] - ycat[:-1]
                if has_inf:
                    d = torch.where(torch.isnan(d), torch.zeros_like(d), d)
                dmin = float(d.min())
                if dmin < 0:
                    rows = (d < 0).any(-1).nonzero().reshape(-1)
                    if -dmin > st["drop"]:
                        i = int(rows[0])
                        st["drop_at"] = (xcat[i].item(), xcat[i + 1].item(), ycat[i].reshape(-1)[0].item(), ycat[i + 1].reshape(-1)[0].item())
                    st["drop"] = max(st["drop"], -dmin)
                    st["drop_thr"] &= bool((((xcat[rows].abs() - 20.0).abs() <= 1e-12) | ((xcat[rows + 1].abs() - 20.0).abs() <= 1e-12)).all())
            prev_x, prev_y = x[-1:], yy[-1:]
            notes["saturated_points"] += int((y == hi).sum()) + int((y == lo).sum())
            # --- round trip on the interior (float64 only)
            if tdt == F64:
                try:
                    r = c.inverse_transform(y)
                except Exception as e:  # noqa: BLE001
                    fails.add("roundtrip", util.exc_str(e), "")
                    break
                Xb = X.expand(y.shape) if X.dim() == y.dim() else X
                dT = _ref_derivative(cfg, lo, hi, Xb)
                scale = y.abs() if Bmag is None else torch.maximum(y.abs(), Bmag)
                ref_mag = torch.clamp(Xb.abs(), min=1.0)
                draw = 8 * torch.clamp(eps * scale, min=5e-324) / dT  # 8 ulp of the image (never below the subnormal spacing) in raw units
                interior = (y > lo) & (y < hi) & (draw <= 1e-7 * ref_mag)
                notes["interior_points"] += int(interior.sum())
                err = (r - Xb).abs() / ref_mag
                bad = interior & ~(err <= 1e-6)
                if bad.any():
                    err = torch.where(torch.isnan(err), torch.full_like(err, float("inf")), err)
                    err = torch.where(bad, err, torch.zeros_like(err))
                    j = int(err.argmax())
                    if float(err.max()) > st["rt"]:
                        st["rt"] = float(err.max())
                        st["rt_at"] = (Xb.reshape(-1)[j].item(), y.reshape(-1)[j].item(), r.reshape(-1)[j].item())
    sigs = []
    if st["dtype_differs"]:
        notes["result_dtype_differs"] = 1
    if st["nan_raw"] is not None:
        fails.add("nan", "transform(finite raw) is NaN err=nan", f"raw={st['nan_raw']!r} bounds={bdesc}")
    for side, name in (("over", "upper"), ("under", "lower")):
        if st[side] > 0:
            if st[side] <= 2 * unit and st[side + "_sat"]:
                sym = f"exceeds {name} by <= 2 ulp at saturation err={st[side]:.3e}"
            else:
                sym = f"outside the closed interval ({name} side) err={st[side]:.3e}"
            fails.add("bounds", sym, f"first raw={st[side + '_raw']!r} n={st[side + '_n']} bounds={bdesc} ulp(max|bound|)={unit:.3e}")
            sigs.append("out-" + name)
    if st["inf"]:
        notes["infinite_images"] = st["inf"]
        sigs.append("inf")
    if st["drop"] > 0:
        thr_gap = math.log1p(math.exp(-20.0))
        if cfg["tf"] == "softplus" and st["drop_thr"] and st["drop"] <= thr_gap * (1 + 1e-6) + 2 * unit:
            sym = f"decreases by <= log1p(exp(-20)) = 2.06e-9 across the softplus threshold |raw| = 20 err={st['drop']:.3e}"
        else:
            sym = f"decreases along increasing raw err={st['drop']:.3e}"
        a = st["drop_at"]
        fails.add("monotone", sym, f"raw {a[0]!r} -> {a[1]!r}: {a[2]!r} -> {a[3]!r}")
        sigs.append("nonmono")
    if st["rt"] > 0:
        a = st["rt_at"]
        fails.add("roundtrip", f"inverse_transform(transform(raw)) != raw err={st['rt']:.3e}", f"raw={a[0]!r} image={a[1]!r} back={a[2]!r} bounds={bdesc}")
        sigs.append("rt")
    if notes["saturated_points"]:
        sigs.append("sat")
    if notes["interior_points"]:
        sigs.append("interior")
    for f in fails:
        f.setdefault("features", feats)
    return {"fails": fails, "sig": "transform:" + ",".join(sigs) + "|" + ",".join(sorted({f["sub"] for f in fails})), "features": feats,
            "ops": 2 * nblocks, "notes": notes, "nontrivial": nblocks > 0}


def _ref_derivative(cfg, lo, hi, X):
    """|d transform / d raw| by the closed form (float64 torch); used only to delimit the well-conditioned interior"""
    tf, cls = cfg["tf"], cfg["cls"]
    if cls == "Interval":
        e = torch.exp(-X.abs())
        return (hi - lo) * e / (1 + e) ** 2
    Z = -X if cls == "LessThan" else X
    if tf == "softplus":
        return torch.sigmoid(Z) + torch.zeros_like(lo if cls != "LessThan" else hi)
    return torch.exp(Z) + torch.zeros_like(lo if cls != "LessThan" else hi)


# ======================================================================================================================
# Part 2: catalogue by reflection
def _simple(name):
    S = {
        "base_kernel": lambda: GK.RBFKernel(), "radial_base_kernel": lambda: GK.RBFKernel(), "data_covar_module": lambda: GK.RBFKernel(),
        "kernels": lambda: [GK.RBFKernel(), GK.MaternKernel()], "num_dims": lambda: 2, "num_angular_weights": lambda: 3,
        "distance_function": lambda: (lambda a, b: (a.unsqueeze(-2) - b.unsqueeze(-3)).pow(2).sum(-1)),
        "grid": lambda: [torch.linspace(0, 1, 5)], "grid_size": lambda: 8, "vocab_size": lambda: 3, "num_tasks": lambda: 2,
        "inducing_points": lambda: torch.linspace(0, 1, 4).unsqueeze(-1), "likelihood": lambda: GL.GaussianLikelihood(),
        "base_kernels": lambda: [GK.RBFKernel(), GK.MaternKernel()], "power": lambda: 2, "num_samples": lambda: 4,
        "num_mixtures": lambda: 2, "input_size": lambda: 2, "base_means": lambda: [GM.ConstantMean(), GM.ZeroMean()],
        "noise": lambda: torch.full((3,), 0.5), "noise_covar": lambda: GN.HomoskedasticNoise(), "targets": lambda: torch.tensor([0, 1, 1]),
        "likelihoods": lambda: [GL.GaussianLikelihood(), GL.GaussianLikelihood()], "num_classes": lambda: 3, "num_features": lambda: 2,
        "num_deltas": lambda: 4,
    }
    return S.get(name)


_EFFECTIVELY_REQUIRED = ("num_mixtures", "num_classes", "num_features", "num_dims", "num_deltas")


def exported_classes():
    out, seen = [], set()
    for mod in (GK, GM, GL, GN):
        names = getattr(mod, "__all__", None) or sorted(n for n in dir(mod) if isinstance(getattr(mod, n), type)
                                                        and getattr(mod, n).__module__ == mod.__name__)
        for n in names:
            c = getattr(mod, n, None)
            if isinstance(c, type) and issubclass(c, gpytorch.Module) and c not in seen:
                seen.add(c)
                out.append((mod.__name__.split(".")[-1] + "." + n, c))
    return out


_CLASSES = None


def class_by_name(name):
    global _CLASSES
    if _CLASSES is None:
        _CLASSES = dict(exported_classes())
    return _CLASSES[name]


def accepts(cls, key):
    for c in cls.__mro__:
        if "__init__" not in vars(c):
            continue
        sig = inspect.signature(c.__init__)
        if key in sig.parameters:
            return True
        if not any(p.kind == p.VAR_KEYWORD for p in sig.parameters.values()):
            return False
    return False


def construct(cls, extra):
    sig = inspect.signature(cls.__init__)
    args, kw = [], {}
    for pn, p in list(sig.parameters.items())[1:]:
        if p.kind == p.VAR_KEYWORD or pn in extra:
            continue
        mk = _simple(pn)
        if p.kind == p.VAR_POSITIONAL:
            if mk is None:
                raise TypeError("no simple value for *" + pn)
            args = list(mk())
        elif p.default is inspect._empty:
            if mk is None:
                raise TypeError("no simple value for " + pn)
            kw[pn] = mk()
        elif mk is not None and pn in _EFFECTIVELY_REQUIRED:
            kw[pn] = mk()
    for k in extra:
        if not accepts(cls, k):
            raise TypeError("does not accept " + k)
    kw.update(extra)
    torch.manual_seed(1234)  # modules with random initial values (IndexKernel, SpectralDelta, RFF): owned
    return cls(*args, **kw)


VARIANTS = ["plain", "batch_ard", "batch", "ard", "learn", "rank1"]


def variant_kwargs(vn):
    if vn.startswith("constr:"):
        return {vn[7:] + "_constraint": Interval(-1.0, 2.0)}
    return {"plain": {}, "batch_ard": {"batch_shape": torch.Size([2]), "ard_num_dims": 2}, "batch": {"batch_shape": torch.Size([2])},
            "ard": {"ard_num_dims": 2}, "learn": {"learn_additional_noise": True}, "rank1": {"rank": 1}}[vn]


def resolve(root, path):
    m = root
    for a in path:
        m = getattr(m, a)
    return m


def bounds_of(c):
    if c is None:
        return None, None
    return c.lower_bound.detach().to(F64).numpy().copy(), c.upper_bound.detach().to(F64).numpy().copy()


def kind_of(c):
    """transform family of a constraint, by its values at raw 0 and 1 (behaviour, not attribute names)"""
    if c is None or not c.enforced:
        return "none"
    lo, hi = bounds_of(c)
    got = [c.transform(torch.full((), r, dtype=F64)).detach().numpy() for r in (0.0, 1.0)]
    for kind in ("sigmoid", "softplus", "exp"):
        if np.isfinite(lo).all() and np.isfinite(hi).all() and kind != "sigmoid":
            continue
        if not (np.isfinite(lo).all() and np.isfinite(hi).all()) and kind == "sigmoid":
            continue
        want = [R.ref_transform(kind, lo, hi, r) for r in (0.0, 1.0)]
        if all(np.allclose(g, w, rtol=1e-12, atol=1e-300) for g, w in zip(got, want)):
            return kind
    return None


def find_accessors(cls, vn, pname, pub):
    """(module path, property name) pairs through which the parameter can be assigned publicly: the owner's own property and any
    property of an enclosing module that reads and writes the same value (e.g. GaussianLikelihood.noise)"""
    *path, raw = pname.split(".")
    out = [(list(path), pub)]
    for k in range(len(path)):
        root = construct(cls, variant_kwargs(vn))
        anc = resolve(root, path[:k])
        owner = resolve(root, path)
        for q in sorted(dir(type(anc))):
            prop = getattr(type(anc), q, None)
            if not isinstance(prop, property) or prop.fset is None or q.startswith("_"):
                continue
            try:
                c = root.constraint_for_parameter_name(pname)
                lo, hi = bounds_of(c)
                v1 = _interior(lo, hi, 0.41)
                setattr(owner, pub, torch.as_tensor(_interior(lo, hi, 0.67), dtype=F64))
                old = getattr(anc, q)
                setattr(owner, pub, torch.as_tensor(v1, dtype=F64))
                new = getattr(anc, q)
                if not (torch.is_tensor(old) and torch.is_tensor(new)) or new.shape != getattr(owner, pub).shape:
                    continue
                if torch.allclose(new, torch.as_tensor(v1, dtype=F64).expand_as(new), rtol=1e-9) and not torch.allclose(old, new):
                    v2 = _interior(lo, hi, 0.23)
                    setattr(anc, q, torch.as_tensor(v2, dtype=F64))
                    if torch.allclose(getattr(owner, pub), torch.as_tensor(v2, dtype=F64).expand_as(new), rtol=1e-9):
                        out.append((list(path[:k]), q))
            except Exception:
                continue
    return out


def _interior(lo, hi, frac):
    """a scalar strictly inside all of the (possibly tensor-valued) bounds"""
    lo = -np.inf if lo is None else float(np.max(lo))
    hi = np.inf if hi is None else float(np.min(hi))
    if math.isfinite(lo) and math.isfinite(hi):
        return lo + frac * (hi - lo)
    if math.isfinite(lo):
        return lo + 2 * frac
    if math.isfinite(hi):
        return hi - 2 * frac
    return 2 * frac


_TARGETS = None


def discover_targets():
    """every constrained parameter with a public property, deduplicated by (owner class, raw name, shape, bounds, access path);
    parameters owned by the constructed class itself are taken before nested ones"""
    global _TARGETS
    if _TARGETS is not None:
        return _TARGETS
    targets, seen, not_constructible, prior_args = [], set(), [], []
    entries = []
    for name, cls in exported_classes():
        built_any = False
        variants = list(VARIANTS)
        for vn in variants:
            try:
                m = construct(cls, variant_kwargs(vn))
            except Exception as e:
                if vn == "plain":
                    not_constructible.append(f"{name}: {type(e).__name__}: {str(e)[:60]}")
                continue
            built_any = True
            plist = list(m.named_parameters_and_constraints())
            if vn == "plain":
                for pname, p, c in plist:
                    raw = pname.split(".")[-1]
                    if c is None and "." not in pname and raw.startswith("raw_") and accepts(cls, raw[4:] + "_constraint"):
                        variants.append("constr:" + raw[4:])
            entries.append((name, cls, vn, plist, m))
        if built_any:
            for pn in inspect.signature(cls.__init__).parameters:
                if pn.endswith("_prior") or pn == "prior":
                    prior_args.append((name, pn))
    for nested in (False, True):
        for name, cls, vn, plist, m in entries:
            for pname, p, c in plist:
                if ("." in pname) != nested or c is None:
                    continue
                *path, raw = pname.split(".")
                owner = resolve(m, path)
                pub = raw[4:] if raw.startswith("raw_") else None
                prop = getattr(type(owner), pub, None) if pub else None
                if not (isinstance(prop, property) and prop.fset is not None):
                    targets.append({"entry": name, "variant": vn, "pname": pname, "owner_cls": type(owner).__name__, "raw": raw,
                                    "pub": None, "acc_path": path, "acc_prop": None, "shape": list(p.shape), "bounds": repr(c)})
                    continue
                for acc_path, acc_prop in find_accessors(cls, vn, pname, pub):
                    acc_cls = type(resolve(m, acc_path)).__name__
                    key = (type(owner).__name__, raw, tuple(p.shape), repr(c), acc_cls, acc_prop)
                    if key in seen:
                        continue
                    seen.add(key)
                    targets.append({"entry": name, "variant": vn, "pname": pname, "owner_cls": type(owner).__name__, "raw": raw, "pub": pub,
                                    "acc_path": acc_path, "acc_prop": acc_prop, "acc_cls": acc_cls, "shape": list(p.shape),
                                    "bounds": repr(c)[:40]})
    _TARGETS = (targets, not_constructible, prior_args)
    return _TARGETS


# ----------------------------------------------------------------------------------------------------------------------
# Engine S over one parameter
SET_OPS = ["set:interior", "set:lower", "set:upper", "set:below", "set:above", "set:tensor", "set:one_below", "set:one_above"]
ALPHABET = SET_OPS + ["init_raw", "init_raw_big", "init_pub", "step:1", "step:1e6",
                      "reg:interval", "reg:interval_neg", "reg:greater", "reg:less", "reg:tensor"]


def history_cells(tier):
    targets, _, _ = discover_targets()
    depth = 2 if tier == "quick" else 3
    out = []
    have_ba = {(t["owner_cls"], t["raw"]) for t in targets if t["variant"] == "batch_ard"}
    for t in targets:
        if t["pub"] is None:
            continue
        if tier == "quick" and t["variant"] in ("batch", "ard") and (t["owner_cls"], t["raw"]) in have_ba:
            continue  # quick: the plain and the batch+ARD shape of each parameter; thorough: every shape
        for op in ALPHABET:
            out.append({"what": "history", "target": t, "first": op, "depth": depth})
    return out


class PModel:
    """the plain map: raw value, bounds and transform family of ONE parameter"""

    def __init__(self, shape, lo, hi, kind, raw):
        self.shape, self.lo, self.hi, self.kind, self.raw = tuple(shape), lo, hi, kind, raw

    def copy(self):
        return PModel(self.shape, self.lo.copy(), self.hi.copy(), self.kind, self.raw.copy())

    def value(self):
        return np.broadcast_to(R.ref_transform(self.kind, self.lo, self.hi, self.raw), self.shape)

    def inside(self, v):
        v = np.asarray(v, float)
        with np.errstate(invalid="ignore"):
            return bool(np.all((v >= self.lo) & (v <= self.hi)))

    def digest(self):
        return util.digest([self.kind, np.round(self.lo, 10).tolist(), np.round(self.hi, 10).tolist(),
                            np.where(np.isfinite(self.raw), np.round(self.raw, 9), self.raw).tolist()])


def _new_constraint(op, shape, g):
    """constraint registered by a reg:* operation and its (kind, lo, hi) for the model"""
    if op == "reg:interval":
        return Interval(0.05, 3.0), "sigmoid", np.array(0.05), np.array(3.0)
    if op == "reg:interval_neg":
        return Interval(-0.5, 0.3), "sigmoid", np.array(-0.5), np.array(0.3)
    if op == "reg:greater":
        return GreaterThan(0.2), "softplus", np.array(0.2), np.array(np.inf)
    if op == "reg:less":
        return LessThan(5.0), "softplus", np.array(-np.inf), np.array(5.0)
    if op == "reg:tensor":
        n = int(np.prod(shape))
        lo = (0.1 + 0.1 * np.arange(n) / max(1, n - 1)).reshape(shape)
        hi = (2.0 + 1.0 * np.arange(n)[::-1] / max(1, n - 1)).reshape(shape)
        return Interval(torch.tensor(lo), torch.tensor(hi)), "sigmoid", lo, hi
    raise KeyError(op)


class HistoryRun:
    def __init__(self, cell, seed):
        self.cell, self.t = cell, cell["target"]
        self.fails = Fails()
        self.seen_fail = set()
        self.ops = 0
        self.notes = {"histories": 0, "accepted_sets": 0, "rejected_sets": 0, "float_retries": 0}
        self.digests = set()
        g = util.gen(seed, "c17|hist|" + util.jdump(self.t))
        self.u = float(util.rand(g, 1)[0]) * 0.1  # generic perturbation of interior values
        self.fr = util.rand(g, int(np.prod(self.t["shape"])) or 1).numpy()
        self.cls = class_by_name(self.t["entry"])
        self.path = self.t["pname"].split(".")[:-1]

    # -- access helpers on a live module
    def owner(self, root):
        return resolve(root, self.path)

    def acc(self, root):
        return resolve(root, self.t["acc_path"])

    def read(self, root):
        return getattr(self.acc(root), self.t["acc_prop"]).detach().to(F64).numpy().copy()

    def lib_raw(self, root):
        return getattr(self.owner(root), self.t["raw"]).detach().to(F64).numpy().copy()

    def snapshot(self, root):
        return [p.detach().clone() for p in root.parameters()]

    def fail(self, sub, symptom, hist, detail=""):
        key = (sub, re.sub(r"[0-9][0-9.e+-]*", "#", symptom)[:60])  # one representative per (sub-check, symptom class) and cell
        if key in self.seen_fail:
            return
        self.seen_fail.add(key)
        self.fails.add(sub, symptom, f"history={'>'.join(hist)} {detail}")
        self.fails[-1]["features"] = {"ops": ">".join(hist), "last_op": hist[-1]}

    # -- values for the set operations, from the MODEL's current bounds
    def value_for(self, op, pm):
        lo, hi = pm.lo, pm.hi
        scalar_bounds = lo.size == 1 and hi.size == 1
        fl, fh = np.isfinite(lo).all(), np.isfinite(hi).all()
        n = int(np.prod(pm.shape))
        what = op.split(":")[1]

        def mag(b):
            return np.maximum(1.0, np.abs(b))

        if what == "interior":
            return float(_interior(lo, hi, 0.37 + self.u)), True
        if what in ("lower", "below"):
            if not fl:
                return None, None
            v = lo if what == "lower" else lo - 0.1 * mag(lo)
            return (float(v.reshape(-1)[0]) if scalar_bounds else torch.tensor(np.broadcast_to(v, pm.shape).copy())), what == "lower"
        if what in ("upper", "above"):
            if not fh:
                return None, None
            v = hi if what == "upper" else hi + 0.1 * mag(hi)
            return (float(v.reshape(-1)[0]) if scalar_bounds else torch.tensor(np.broadcast_to(v, pm.shape).copy())), what == "upper"
        # tensor-shaped values: distinct interior value per element
        lob, hib = np.broadcast_to(lo, pm.shape), np.broadcast_to(hi, pm.shape)
        frac = (0.2 + 0.6 * self.fr.reshape(pm.shape)) if n > 0 else self.fr
        with np.errstate(invalid="ignore"):
            base = np.where(np.isfinite(lob) & np.isfinite(hib), lob + frac * (hib - lob),
                            np.where(np.isfinite(lob), lob + 0.2 + 2 * frac, np.where(np.isfinite(hib), hib - 0.2 - 2 * frac, 2 * frac - 1)))
        base = np.array(base, dtype=float)
        if what == "tensor":
            return torch.tensor(base), True
        if n < 2:
            return None, None
        flat = base.reshape(-1)
        if what == "one_below":
            if not fl:
                return None, None
            b = lob.reshape(-1)[-1]
            flat[-1] = b - 1e-6 * max(1.0, abs(b))
        else:
            if not fh:
                return None, None
            b = hib.reshape(-1)[-1]
            flat[-1] = b + 1e-6 * max(1.0, abs(b))
        return torch.tensor(flat.reshape(pm.shape)), False

    def enabled(self, op, pm):
        if op.startswith("set:"):
            return self.value_for(op, pm)[0] is not None
        if op == "reg:tensor":
            return int(np.prod(pm.shape)) > 1
        return True

    # -- invariants in every state
    def check_state(self, root, pm, hist, compare_model=True, want=None):
        try:
            got = self.read(root)
        except Exception as e:
            self.fail("bounds", "reading the parameter raises " + util.exc_str(e), hist)
            return
        if np.isnan(got).any():
            self.fail("bounds", "parameter reads NaN err=nan", hist)
            return
        with np.errstate(invalid="ignore"):
            over = np.where(got > pm.hi, got - pm.hi, 0.0).max()
            under = np.where(got < pm.lo, pm.lo - got, 0.0).max()
        if over > 0 or under > 0:
            unit = _ulp_at(max([abs(float(b)) for b in (pm.lo.max(), pm.hi.min()) if math.isfinite(b)] + [0.0]), F64)
            side, e = ("upper", over) if over > 0 else ("lower", under)
            sym = (f"reads back above {side} by <= 2 ulp (raw saturated) err={e:.3e}" if side == "upper" and e <= 2 * unit
                   else f"reads back outside its bounds ({side}) err={e:.3e}")
            self.fail("bounds", sym, hist, f"value={got.reshape(-1)[:3].tolist()} bounds=[{pm.lo.reshape(-1)[:2].tolist()}, {pm.hi.reshape(-1)[:2].tolist()}]")
        want = pm.value() if want is None else want
        if compare_model:
            ok, msg = util.close(torch.tensor(np.broadcast_to(got, np.broadcast_shapes(got.shape, want.shape)).copy()),
                                 torch.tensor(np.broadcast_to(want, np.broadcast_shapes(got.shape, want.shape)).copy()), 1e-12, 1e-8)
            if not ok:
                sub = "readback" if hist[-1].startswith(("set:", "init_pub")) else "model"
                self.fail(sub, f"value after {hist[-1].split(':')[0]} != expected err={msg}", hist,
                          f"got={got.reshape(-1)[:3].tolist()} want={np.asarray(want).reshape(-1)[:3].tolist()}")
                self.resync(root, pm)  # continue from what the library actually holds: one defect is reported once, not along every extension

    def ulp_note(self, root, pm, raw=None, value=None):
        """characterise a rejection: does the library's own transform of the raw value overshoot the upper bound by <= 2 ulp?"""
        try:
            c = root.constraint_for_parameter_name(self.t["pname"])
            with torch.no_grad():
                rawt = torch.as_tensor(raw, dtype=F64) if raw is not None else c.inverse_transform(torch.as_tensor(value, dtype=F64))
                ex = float((c.transform(rawt) - c.upper_bound).max())
            fin = [abs(float(b)) for b in (pm.lo.max(), pm.hi.min()) if math.isfinite(b)]
            if 0 < ex <= 2 * _ulp_at(max(fin + [0.0]), F64):
                return " [transform(raw) exceeds upper by <= 2 ulp at saturation]"
        except Exception:  # noqa: BLE001
            pass
        return ""

    def resync(self, root, pm):
        pm.raw = np.broadcast_to(self.lib_raw(root), pm.shape).copy()

    # -- one transition on the library object and on the model
    def apply(self, op, root, pm, hist):
        self.ops += 1
        t = self.t
        if op.startswith("set:") or op == "init_pub":
            if op == "init_pub":
                v, inb = float(_interior(pm.lo, pm.hi, 0.61 - self.u)), True
            else:
                v, inb = self.value_for(op, pm)
            before = self.snapshot(root)
            # value ladder: python float -> 0-dim tensor -> tensor of the parameter's shape. A setter that does not take a bare float
            # (TypeError / AttributeError) or does not broadcast a scalar is not a fail: the next rung is tried. In-bounds values must be
            # accepted on some rung; out-of-bounds values must be rejected on EVERY rung.
            rungs = [v]
            if isinstance(v, float):
                rungs.append(torch.tensor(v, dtype=F64))
                if int(np.prod(pm.shape)) > 1:
                    rungs.append(torch.full(pm.shape, v, dtype=F64))
            raised = None
            for k, val in enumerate(rungs):
                try:
                    if op == "init_pub":
                        self.acc(root).initialize(**{t["acc_prop"]: val})
                    else:
                        setattr(self.acc(root), t["acc_prop"], val)
                    raised = None
                    v = val
                    if k:
                        self.notes["float_retries"] += 1
                    break
                except Exception as e:  # noqa: BLE001 - any exception type is a rejection
                    raised = e
                    if k == 0 and isinstance(val, float) and not isinstance(e, (TypeError, AttributeError)) and not inb:
                        pass  # rejected as a float: still try the tensor forms, all must be rejected
                    if k == 0 and isinstance(val, float) and isinstance(e, (TypeError, AttributeError)):
                        self.notes["setter_refuses_float"] = self.notes.get("setter_refuses_float", 0) + 1
                    continue
            vnp = v.detach().numpy() if torch.is_tensor(v) else np.asarray(v, float)
            if inb:
                if raised is not None:
                    what = {"set:lower": "of exactly the lower bound ", "set:upper": "of exactly the upper bound "}.get(op, "")
                    self.fail("accept", f"in-bounds assignment {what}rejected{self.ulp_note(root, pm, value=vnp)}: {util.exc_str(raised)[:100]}", hist,
                              f"value={vnp.reshape(-1)[:3].tolist()}")
                    self.resync(root, pm)
                    self.check_state(root, pm, hist, compare_model=False)
                    return
                self.notes["accepted_sets"] += 1
                pm.raw = np.broadcast_to(R.ref_inverse(pm.kind, pm.lo, pm.hi, vnp), pm.shape).copy()
                self.check_state(root, pm, hist, want=np.broadcast_to(vnp, pm.shape))
            else:
                if raised is None:
                    self.fail("reject", "out-of-bounds assignment accepted err=" + f"{self._oob(pm, vnp):.3e}", hist,
                              f"value={vnp.reshape(-1)[-3:].tolist()} reads {self.read(root).reshape(-1)[-3:].tolist()}")
                    self.resync(root, pm)
                    return
                self.notes["rejected_sets"] += 1
                after = self.snapshot(root)
                if len(before) != len(after) or any(not torch.equal(a, b) and not (torch.isnan(a) & torch.isnan(b)).all()
                                                    for a, b in zip(before, after)):
                    self.fail("frame", "rejected assignment changed a parameter err=1", hist)
                    self.resync(root, pm)
                self.check_state(root, pm, hist)
            return
        if op in ("init_raw", "init_raw_big"):
            if op == "init_raw":
                r = 0.3 + self.u
                rnp = np.full(pm.shape, r)
            else:
                n = int(np.prod(pm.shape))
                rnp = (40.0 * (-1.0) ** np.arange(n)).reshape(pm.shape)
                r = torch.tensor(rnp)
            err = None
            for val in ([r, torch.tensor(rnp)] if isinstance(r, float) else [r]):
                try:
                    root.initialize(**{t["pname"]: val})
                    err = None
                    break
                except (TypeError, AttributeError) as e:
                    err = e
                    if isinstance(val, float):  # documented ("a tensor, a float, or an int") but refused for constrained parameters: noted, not failed
                        self.notes["initialize_raw_float_refused"] = self.notes.get("initialize_raw_float_refused", 0) + 1
                        continue
                    break
                except Exception as e:  # noqa: BLE001
                    err = e
                    break
            if err is not None:
                self.fail("accept", f"initialize(raw=finite) rejected{self.ulp_note(root, pm, raw=rnp)}: {util.exc_str(err)[:100]}", hist,
                          f"raw={rnp.reshape(-1)[:2].tolist()}")
                return
            pm.raw = rnp.copy()
            self.check_state(root, pm, hist)
            return
        if op.startswith("step:"):
            lr = float(op.split(":")[1])
            try:
                p = getattr(self.owner(root), t["raw"])
                opt = torch.optim.SGD([p], lr=lr)
                opt.zero_grad()
                p.sum().backward()
                opt.step()
            except Exception as e:  # noqa: BLE001
                self.fail("model", "optimiser step raises " + util.exc_str(e)[:120], hist)
                return
            pm.raw = pm.raw - lr
            self.check_state(root, pm, hist)
            return
        if op.startswith("reg:"):
            c, kind, lo, hi = _new_constraint(op, pm.shape, None)
            try:
                self.owner(root).register_constraint(t["raw"], c)
            except Exception as e:  # noqa: BLE001
                self.fail("model", "register_constraint raises " + util.exc_str(e)[:120], hist)
                return
            pm.kind, pm.lo, pm.hi = kind, np.asarray(lo, float), np.asarray(hi, float)
            self.check_state(root, pm, hist)
            return
        raise KeyError(op)

    @staticmethod
    def _oob(pm, v):
        with np.errstate(invalid="ignore"):
            return float(max(np.where(v > pm.hi, v - pm.hi, 0).max(), np.where(v < pm.lo, pm.lo - v, 0).max()))

    def run(self):
        t = self.t
        template = construct(self.cls, variant_kwargs(t["variant"]))
        c = template.constraint_for_parameter_name(t["pname"])
        kind = kind_of(c)
        if kind is None or kind == "none":
            return {"fails": [], "sig": "history:unidentified-transform", "features": self.features(), "ops": 0, "nontrivial": False}
        lo, hi = bounds_of(c)
        pm0 = PModel(t["shape"], lo, hi, kind, self.lib_raw(template))
        self.check_state(template, pm0, ["<fresh>"])

        def rec(root, pm, hist, d):
            for op in ([self.cell["first"]] if d == 0 else ALPHABET):
                if not self.enabled(op, pm):
                    continue
                r2, pm2 = copy.deepcopy(root), pm.copy()
                h2 = hist + [op]
                self.notes["histories"] += 1
                self.apply(op, r2, pm2, h2)
                self.digests.add(pm2.digest())
                if d + 1 < self.cell["depth"]:
                    rec(r2, pm2, h2, d + 1)

        rec(template, pm0, [], 0)
        subs = sorted({f["sub"] for f in self.fails})
        return {"fails": self.fails, "sig": f"history:{self.notes['histories'] > 0}|" + ",".join(subs), "features": self.features(),
                "ops": self.ops, "notes": self.notes, "state_digests": sorted(self.digests), "nontrivial": self.notes["histories"] > 0}

    def features(self):
        t = self.t
        via = "" if not t.get("acc_cls") or t["acc_cls"] == t["owner_cls"] else f"{t['acc_cls']}.{t['acc_prop']}"
        return {"what": "history", "cls": t["owner_cls"], "param": t["raw"], "bounds": t["bounds"], "via": via,
                "shape": "x".join(map(str, t["shape"])), "first": self.cell["first"], "variant": t["variant"]}


def run_history(cell, seed):
    hr = HistoryRun(cell, seed)
    res = hr.run()
    for f in res["fails"]:
        f["features"] = dict(hr.features(), **f.get("features", {}))
    return res


# ======================================================================================================================
# Part 3a: prior densities
def _T(v):
    return torch.as_tensor(v, dtype=F64)


VALUES_POS = [1e-3, 0.05, 0.3, 1.0, 2.5, 7.0, 100.0]
VALUES_REAL = [-30.0, -1.0, -0.1, 0.0] + VALUES_POS

PRIOR_CASES = {
    "NormalPrior": [{"loc": l, "scale": s} for l in (-2.0, 0.0, 0.5) for s in (0.01, 1.7, 100.0)] + [{"loc": [-1.0, 0.5], "scale": [0.3, 2.0]}],
    "LogNormalPrior": [{"loc": l, "scale": s} for l in (-1.0, 0.0, 0.2) for s in (0.1, 0.8, 3.0)] + [{"loc": [-1.0, 0.5], "scale": [0.3, 2.0]}],
    "GammaPrior": [{"concentration": a, "rate": b} for a in (0.5, 1.0, 2.5, 30.0) for b in (0.1, 1.5, 20.0)]
    + [{"concentration": [0.7, 3.0], "rate": [2.0, 0.5]}],
    "HalfNormalPrior": [{"scale": s} for s in (0.01, 1.3, 50.0)] + [{"scale": [0.3, 2.0]}],
    "HalfCauchyPrior": [{"scale": s} for s in (0.01, 0.7, 50.0)] + [{"scale": [0.3, 2.0]}],
    "UniformPrior": [{"a": a, "b": b} for a, b in ((0.0, 1.0), (0.01, 9.0), (-3.0, 200.0), (-2.0, -1.0))] + [{"a": [0.0, -1.0], "b": [1.0, 3.0]}],
    "SmoothedBoxPrior": [{"a": a, "b": b, "sigma": s} for a, b in ((0.5, 2.0), (-1.0, 1.0), (0.0, 100.0)) for s in (0.01, 0.1, 1.0)]
    + [{"a": [0.0, -1.0], "b": [1.0, 3.0], "sigma": [0.1, 0.5]}, {"a": [0.0, -1.0], "b": [1.0, 3.0], "sigma": 0.2}],
    "HorseshoePrior": [{"scale": s} for s in (0.1, 0.8, 1.0, 5.0)] + [{"scale": [0.3, 2.0]}],
    "MultivariateNormalPrior": [{"n": n, "by": by} for n in (1, 2, 3) for by in ("covariance_matrix", "precision_matrix", "scale_tril")],
    "LKJPrior": [{"n": n, "eta": e} for n in (2, 3, 4) for e in (0.5, 1.0, 2.5)],
    "LKJCholeskyFactorPrior": [{"n": n, "eta": e} for n in (2, 3, 4) for e in (0.5, 1.0, 2.5)],
    "LKJCovariancePrior": [{"n": n, "eta": e, "sd": sd} for n in (2, 3) for e in (1.0, 2.5)
                           for sd in ("SmoothedBoxPrior", "GammaPrior", "LogNormalPrior", "HalfCauchyPrior")],
}
TRANSFORM_CASES = ["NormalPrior", "GammaPrior", "SmoothedBoxPrior", "HorseshoePrior", "LogNormalPrior"]


def prior_cells(tier):
    out = []
    exported = [n for n in GP.__all__ if n != "Prior"]
    for cls in exported:
        cases = PRIOR_CASES.get(cls)
        if cases is None:
            out.append({"what": "prior-density", "cls": cls, "case": None, "tf": False})
            continue
        for case in cases:
            out.append({"what": "prior-density", "cls": cls, "case": case, "tf": False})
        if cls in TRANSFORM_CASES:
            out.append({"what": "prior-density", "cls": cls, "case": cases[1], "tf": True})
    return out


def _corr_matrices(n, g, k=5):
    """a small lattice of n x n correlation matrices: identity, equicorrelated, near singular, random"""
    mats = [np.eye(n)]
    for rho in (0.3, -0.9 / max(1, n - 1), 0.95):
        mats.append((1 - rho) * np.eye(n) + rho * np.ones((n, n)))
    for _ in range(k):
        a = util.randn(g, n, n + 1).numpy()
        S = a @ a.T
        d = np.sqrt(np.diag(S))
        mats.append(S / d[:, None] / d[None, :])
    for M in mats:
        np.fill_diagonal(M, 1.0)
    return mats


def run_prior_density(cell, seed):
    cls, case = cell["cls"], cell["case"]
    fails = Fails()
    feats = {"what": "prior-density", "cls": cls, "param": util.jdump(case)[:80], "bounds": "", "tf": cell["tf"]}
    notes = {"density_points": 0}
    g = util.gen(seed, "c17|prior|" + util.jdump(cell))
    if case is None:
        fails.add("coverage", f"exported prior class {cls} has no reference density in this check", "")
        return {"fails": fails, "sig": "prior:uncovered", "features": feats}
    P = getattr(GP, cls)
    kw = {"transform": torch.exp} if cell["tf"] else {}
    pre = (lambda v: np.exp(v)) if cell["tf"] else (lambda v: v)

    def cmp(sub, got, want, detail="", atol=1e-9, rtol=1e-9):
        got = got.detach()
        want = torch.as_tensor(np.asarray(want, float))
        if tuple(got.shape) != tuple(want.shape):
            e = float("nan")
            if got.numel() and want.numel():
                e = abs(float(got.sum()) - float(want.sum()))
            fails.add(sub, f"log_prob has shape {tuple(got.shape)}, the documented density gives {tuple(want.shape)}; sum differs err={e:.3e}", detail)
            return
        notes["density_points"] += int(want.numel())
        fails.check_close(sub, got, want, atol, rtol, detail)

    with torch.no_grad():
        with fails.guard("log_prob"):
            if cls in ("NormalPrior", "LogNormalPrior", "GammaPrior", "HalfNormalPrior", "HalfCauchyPrior", "UniformPrior", "HorseshoePrior"):
                args = {k: _T(v) for k, v in case.items()}
                batched = any(isinstance(v, list) for v in case.values())
                p = P(*args.values(), **kw)
                ref = {"NormalPrior": R.logpdf_normal, "LogNormalPrior": R.logpdf_lognormal, "GammaPrior": R.logpdf_gamma,
                       "HalfNormalPrior": R.logpdf_halfnormal, "HalfCauchyPrior": R.logpdf_halfcauchy, "UniformPrior": R.logpdf_uniform,
                       "HorseshoePrior": R.logpdf_horseshoe_doc}[cls]
                np_args = [np.asarray(v, float) for v in case.values()]
                if cls in ("NormalPrior",):
                    vals = sorted(set(VALUES_REAL + [float(np.ravel(case["loc"])[0]) + k * float(np.ravel(case["scale"])[0]) for k in (-8, -1, 0, 0.5, 3)]))
                elif cls == "HorseshoePrior":
                    vals = [-7.0, -0.3] + VALUES_POS
                elif cls == "UniformPrior":
                    a, b = float(np.max(case["a"])), float(np.min(case["b"]))
                    vals = [a + f * (b - a) for f in (1e-9, 0.01, 0.25, 0.5, 0.99)]
                else:
                    vals = list(VALUES_POS)
                if cell["tf"]:
                    vals = [math.log(v) for v in vals if v > 0]
                x = np.array(vals)[:, None] if batched else np.array(vals)
                cmp("log_prob", p.log_prob(_T(x)), ref(pre(x), *np_args), f"values={vals}")
                # a prior of the same class built with OTHER parameters that receives this prior's state evaluates this prior's density
                # (nothing the density depends on may be derived once at construction and kept outside the state)
                if cls != "UniformPrior":
                    p2 = P(*[_T(np.asarray(v, float) * 1.7 + 0.3) for v in case.values()], **kw)
                else:
                    p2 = P(_T(np.asarray(case["a"], float) - 1.0), _T(np.asarray(case["b"], float) + 1.0), **kw)
                p2.load_state_dict(p.state_dict())
                cmp("log_prob-after-load", p2.log_prob(_T(x)), ref(pre(x), *np_args), "prior built with other parameters, then load_state_dict of this one")
                # normalisation (documented densities of the standard families integrate to one)
                if not batched and not cell["tf"] and cls != "HorseshoePrior":
                    lp = lambda t: p.log_prob(_T(t)).item()  # noqa: E731
                    if cls == "NormalPrior":
                        l, s = case["loc"], case["scale"]
                        mass = R.quad_mass(lp, l - 40 * s, l + 40 * s, [l - s, l, l + s])
                    elif cls == "UniformPrior":
                        a, b = case["a"], case["b"]
                        mass = R.quad_mass(lp, a + 1e-12 * (b - a), b - 1e-12 * (b - a))
                    elif cls == "LogNormalPrior":
                        l, s = case["loc"], case["scale"]  # integrate in log space: substitution x = e^t
                        mass = R.quad_mass(lambda t: lp(math.exp(t)) + t, l - 40 * s, l + 40 * s, [l - s, l, l + s])
                    elif cls == "GammaPrior":
                        a, b = case["concentration"], case["rate"]
                        mass = R.quad_mass(lambda t: lp(math.exp(t)) + t, -700 / max(a, 1), math.log(a / b + 60 * math.sqrt(a) / b + 60 / b),
                                           [math.log(a / b)])
                    elif cls == "HalfNormalPrior":
                        mass = R.quad_mass(lp, 1e-300, 40 * case["scale"], [case["scale"]])
                    else:  # HalfCauchy: heavy tail, x = e^t
                        s = case["scale"]
                        mass = R.quad_mass(lambda t: lp(math.exp(t)) + t, math.log(s) - 60, math.log(s) + 60, [math.log(s)])
                    if abs(mass - 1) > 1e-6:
                        fails.add("normalisation", f"exp(log_prob) integrates to {mass:.8f}, not 1 err={abs(mass - 1):.3e}", util.jdump(case))
            elif cls == "SmoothedBoxPrior":
                a, b, s = (np.atleast_1d(np.asarray(case[k], float)) for k in ("a", "b", "sigma"))
                p = P(_T(case["a"]), _T(case["b"]), sigma=_T(case["sigma"]), **kw)
                d = int(np.broadcast_shapes(a.shape, b.shape, s.shape)[-1])
                pts = []
                for k in range(d):
                    ak, bk, sk = np.broadcast_to(a, (d,))[k], np.broadcast_to(b, (d,))[k], np.broadcast_to(s, (d,))[k]
                    pts.append([ak - 30 * sk, ak - 3 * sk, ak - 0.5 * sk, ak, ak + 0.3 * (bk - ak), 0.5 * (ak + bk), bk, bk + 1e-3 * sk, bk + 2 * sk, bk + 10 * sk])
                if d == 1:
                    x = np.array(pts[0])[:, None]
                else:
                    x = np.array(list(itertools.product(*[pp[1::2] for pp in pts])))
                if cell["tf"]:
                    x = np.log(x[(x > 0).all(-1)])
                cmp("log_prob", p.log_prob(_T(x)), R.logpdf_smoothed_box(pre(x), a, b, s).sum(-1), "Gaussian tails of std sigma outside [a,b], flat inside, normalised")
                p2 = P(_T(np.asarray(case["a"], float) - 0.3), _T(np.asarray(case["b"], float) + 0.7), sigma=_T(np.asarray(case["sigma"], float) * 3.0), **kw)
                p2.load_state_dict(p.state_dict())
                cmp("log_prob-after-load", p2.log_prob(_T(x)), R.logpdf_smoothed_box(pre(x), a, b, s).sum(-1),
                    "prior built with other parameters, then load_state_dict of this one")
                if d == 1 and not cell["tf"]:
                    a0, b0, s0 = float(a[0]), float(b[0]), float(s[0])
                    mass = R.quad_mass(lambda t: p.log_prob(_T([t])).item(), a0 - 40 * s0, b0 + 40 * s0, [a0 - s0, a0, b0, b0 + s0])
                    if abs(mass - 1) > 1e-6:
                        fails.add("normalisation", f"exp(log_prob) integrates to {mass:.8f}, not 1 err={abs(mass - 1):.3e}", util.jdump(case))
            elif cls == "MultivariateNormalPrior":
                n = case["n"]
                loc = util.randn(g, n)
                cov = util.spd(g, n)
                arg = {"covariance_matrix": cov, "precision_matrix": torch.linalg.inv(cov), "scale_tril": torch.linalg.cholesky(cov)}[case["by"]]
                p = P(loc, **{case["by"]: arg})
                x = torch.cat([loc.unsqueeze(0), torch.zeros(1, n, dtype=F64), 3 * util.randn(g, 6, n)])
                want = np.atleast_1d(R.logpdf_mvn(x.numpy(), loc.numpy(), cov.numpy()))
                cmp("log_prob", p.log_prob(x), want, f"parameterised by {case['by']}", 1e-9, 1e-9)
            elif cls in ("LKJPrior", "LKJCholeskyFactorPrior"):
                n, eta = case["n"], case["eta"]
                p = P(n, _T(eta))
                mats = _corr_matrices(n, g)
                S = np.stack(mats)
                Ls = np.linalg.cholesky(S)
                if cls == "LKJPrior":
                    got = p.log_prob(_T(S))
                    want = R.lkj_corr_unnormalised(S, eta)
                    alt = R.lkj_cholesky_unnormalised(Ls, np.asarray(eta))
                    what = "documented pdf(Sigma) ~ |Sigma|^(eta-1): log_prob(Sigma_k) - log_prob(I) must equal (eta-1) log|Sigma_k|"
                else:
                    got = p.log_prob(_T(Ls))
                    want = R.lkj_cholesky_unnormalised(Ls, np.asarray(eta))
                    alt = None
                    what = "density over Cholesky factors whose push-forward is ~ |Sigma|^(eta-1): differences of log_prob"
                gd = (got - got[0]).detach()
                wd = want - want[0]
                notes["density_points"] += len(mats)
                ok, msg = util.close(gd, torch.as_tensor(wd), 1e-8, 1e-8)
                if not ok:
                    if alt is not None and util.close(gd, torch.as_tensor(alt - alt[0]), 1e-8, 1e-8)[0]:
                        fails.add("log_prob", f"not proportional to |Sigma|^(eta-1): equals the Cholesky-factor density prod L_ii^(n-i+2eta-2) "
                                  f"(extra Jacobian prod L_ii^(n-i)) err={msg}", what)
                    else:
                        fails.add("log_prob", f"differences of log_prob != documented density err={msg}", what)
                if n == 2:  # one free parameter rho: mass over rho in (-1, 1) of the (claimed proportional) density -> finite, and for
                    # torch's normalised LKJCholesky equals 1; not claimed by the docstring, recorded only
                    notes["lkj_n2"] = 1
            elif cls == "LKJCovariancePrior":
                n, eta = case["n"], case["eta"]
                sd_kind = case["sd"]
                sdp, sdref = {
                    "SmoothedBoxPrior": (lambda: GP.SmoothedBoxPrior(0.1, 3.0, 0.05), lambda s: R.logpdf_smoothed_box(s, 0.1, 3.0, 0.05)),
                    "GammaPrior": (lambda: GP.GammaPrior(2.0, 1.5), lambda s: R.logpdf_gamma(s, 2.0, 1.5)),
                    "LogNormalPrior": (lambda: GP.LogNormalPrior(0.2, 0.8), lambda s: R.logpdf_lognormal(s, 0.2, 0.8)),
                    "HalfCauchyPrior": (lambda: GP.HalfCauchyPrior(0.7), lambda s: R.logpdf_halfcauchy(s, 0.7)),
                }[sd_kind]
                p = P(n, eta, sdp())
                mats = _corr_matrices(n, g, k=3)
                Cs, sds = [], []
                for i, M in enumerate(mats):
                    sd = 0.3 + 2.0 * util.rand(g, n).numpy()
                    Cs.append(M * sd[:, None] * sd[None, :])
                    sds.append(sd)
                got = torch.stack([p.log_prob(_T(C)).sum() for C in Cs])
                shape1 = tuple(p.log_prob(_T(Cs[0])).shape)
                want = np.array([R.lkj_corr_unnormalised(M, eta) + sdref(sd).sum() for M, sd in zip(mats, sds)])
                notes["density_points"] += len(mats)
                gd, wd = (got - got[0]).detach(), want - want[0]
                ok, msg = util.close(gd, torch.as_tensor(wd), 1e-8, 1e-8)
                if shape1 != ():
                    altn = np.array([n * R.lkj_cholesky_unnormalised(np.linalg.cholesky(M), np.asarray(eta)) + sdref(sd).sum() for M, sd in zip(mats, sds)])
                    altok = util.close(gd, torch.as_tensor(altn - altn[0]), 1e-8, 1e-8)[0]
                    fails.add("log_prob", f"log_prob of one covariance matrix has shape {shape1} instead of (): scalar sd_prior is not summed over the n "
                              f"standard deviations, the correlation term is repeated n times{' (total = n*corr + sum sd)' if altok else ''} err={msg}",
                              "documented: prior over the full covariance matrix = LKJ over correlations x sd_prior for each marginal sd")
                elif not ok:
                    altn = np.array([R.lkj_cholesky_unnormalised(np.linalg.cholesky(M), np.asarray(eta)) + sdref(sd).sum() for M, sd in zip(mats, sds)])
                    if util.close(gd, torch.as_tensor(altn - altn[0]), 1e-8, 1e-8)[0]:
                        fails.add("log_prob", f"correlation part not proportional to |R|^(eta-1): equals the Cholesky-factor density (extra Jacobian "
                                  f"prod L_ii^(n-i)); sd part right err={msg}", "")
                    else:
                        fails.add("log_prob", f"differences of log_prob != (eta-1) log|R| + sum log p_sd(sd_i) err={msg}", "")
    for f in fails:
        f.setdefault("features", feats)
    return {"fails": fails, "sig": "prior:" + cls + "|" + ",".join(sorted({f["sub"] for f in fails})), "features": feats, "ops": 3, "notes": notes,
            "nontrivial": notes["density_points"] > 0}


# ======================================================================================================================
# Part 3b: priors registered on modules
MODULE_PRIORS = ["NormalPrior", "LogNormalPrior", "GammaPrior", "HalfCauchyPrior", "HalfNormalPrior", "UniformPrior", "SmoothedBoxPrior",
                 "HorseshoePrior", "MultivariateNormalPrior", "LKJCovariancePrior"]


def module_prior_cells(tier):
    _, _, prior_args = discover_targets()
    out = []
    for entry, kwarg in prior_args:
        for vn in (("plain", "batch_ard", "rank1") if tier == "quick" else ("plain", "batch_ard", "batch", "ard", "rank1")):
            try:
                construct(class_by_name(entry), variant_kwargs(vn))
            except Exception:
                continue
            for pk in MODULE_PRIORS:
                for pshape in ("scalar", "full"):
                    for what in ("prior-closure", "sample-from-prior"):
                        out.append({"what": what, "entry": entry, "variant": vn, "kwarg": kwarg, "prior": pk, "pshape": pshape})
    return out


def make_prior(kind, c, spread, shape):
    """prior object concentrated near c (array broadcastable to `shape`, or scalar) and its elementwise reference log density"""
    cT = _T(c)
    if kind == "NormalPrior":
        return GP.NormalPrior(cT, _T(0.05 * spread)), lambda v: R.logpdf_normal(v, c, 0.05 * spread)
    if kind == "LogNormalPrior":
        return GP.LogNormalPrior(torch.log(cT), _T(0.05)), lambda v: R.logpdf_lognormal(v, np.log(c), 0.05)
    if kind == "GammaPrior":
        return GP.GammaPrior(_T(200.0) + 0 * cT, 200.0 / cT), lambda v: R.logpdf_gamma(v, 200.0, 200.0 / np.asarray(c))
    if kind == "HalfCauchyPrior":
        return GP.HalfCauchyPrior(cT), lambda v: R.logpdf_halfcauchy(v, c)
    if kind == "HalfNormalPrior":
        return GP.HalfNormalPrior(cT), lambda v: R.logpdf_halfnormal(v, c)
    if kind == "UniformPrior":
        return GP.UniformPrior(cT - 0.1 * spread, cT + 0.1 * spread), lambda v: R.logpdf_uniform(v, np.asarray(c) - 0.1 * spread, np.asarray(c) + 0.1 * spread)
    if kind == "SmoothedBoxPrior":
        return (GP.SmoothedBoxPrior(cT - 0.1 * spread, cT + 0.1 * spread, 0.01 * spread),
                lambda v: R.logpdf_smoothed_box(v, np.asarray(c) - 0.1 * spread, np.asarray(c) + 0.1 * spread, 0.01 * spread))
    if kind == "HorseshoePrior":
        return GP.HorseshoePrior(cT), lambda v: R.logpdf_horseshoe_doc(v, c)
    raise KeyError(kind)


def _quiet_construct(cls, kw):
    logging.disable(logging.WARNING)  # SpectralMixtureKernel logs 'Priors not implemented' on the root logger
    try:
        return construct(cls, kw)
    finally:
        logging.disable(logging.NOTSET)


def _find_pub(owner, val, hints):
    """name of the public attribute (property or parameter) of `owner` whose value the closure returns"""
    names = [h for h in hints if h] + sorted(n for n in dir(type(owner)) if isinstance(getattr(type(owner), n, None), property)
                                             and not n.startswith("_")) + [n for n in owner._parameters]
    for n in names:
        try:
            cur = getattr(owner, n)
        except Exception:  # noqa: BLE001
            continue
        if torch.is_tensor(cur) and cur.shape == val.shape and torch.equal(cur.detach(), val.detach()):
            return n
    return None


def run_module_prior(cell, seed):
    what = cell["what"]
    fails = Fails()
    cls = class_by_name(cell["entry"])
    feats = {"what": what, "cls": cell["entry"].split(".")[-1], "param": cell["kwarg"], "bounds": "", "prior": cell["prior"],
             "variant": cell["variant"], "pshape": cell["pshape"]}
    g = util.gen(seed, "c17|mp|" + util.jdump({k: cell[k] for k in ("entry", "variant", "kwarg", "prior", "pshape")}))
    notes = {}

    def rnd(shape):
        return util.rand(g, *shape).numpy() if len(shape) else util.rand(g, 1).numpy()[0]

    def done(sig, nontrivial=True):
        for f in fails:
            f.setdefault("features", feats)
        return {"fails": fails, "sig": f"{what}:{sig}|" + ",".join(sorted({f["sub"] for f in fails})), "features": feats, "ops": 3,
                "notes": notes, "nontrivial": nontrivial}

    base_kw = variant_kwargs(cell["variant"])
    kwarg = cell["kwarg"]
    stem = kwarg[:-6] if kwarg.endswith("_prior") else None
    # --- probe: what does a prior passed through this argument get registered on?  (elementwise parameter or a covariance matrix)
    probe_m, probe = None, None
    for mk in (lambda: GP.NormalPrior(0.0, 1.0), lambda: GP.LKJCovariancePrior(2, 2.0, GP.SmoothedBoxPrior(0.05, 4.0, 0.05))):
        try:
            probe = mk()
            probe_m = _quiet_construct(cls, dict(base_kw, **{kwarg: probe}))
            break
        except Exception:  # noqa: BLE001
            probe_m = None
    if probe_m is None:
        notes["construct_refused"] = 1
        return done("construct-refused", False)
    regs = [(nm, mod, clo) for nm, mod, pr, clo, sclo in probe_m.named_priors() if pr is probe]
    if not regs:
        notes["prior_not_registered"] = 1  # e.g. SpectralMixtureKernel: 'Priors not implemented' (logged refusal)
        return done("not-registered", False)
    any_checked = False
    for reg_i, (full, p_owner, p_closure) in enumerate(regs):
        local = full.split(".")[-1]
        opath = full.split(".")[:-1]
        f2 = dict(feats, prior_name=local, owner=type(p_owner).__name__)
        nf = len(fails)
        try:
            pval = p_closure(p_owner)
        except Exception as e:  # noqa: BLE001
            fails.add("closure-value", "closure raises " + util.exc_str(e)[:150], "")
            fails[-1]["features"] = f2
            continue
        if not torch.is_tensor(pval):
            fails.add("closure-value", f"closure returns {type(pval).__name__}, not the parameter value err=1", "")
            fails[-1]["features"] = f2
            continue
        is_matrix = pval.dim() >= 2 and pval.shape[-1] == pval.shape[-2] and pval.shape[-1] >= 2 and \
            _find_pub(p_owner, pval, [stem, local[:-6] if local.endswith("_prior") else None]) is None
        if is_matrix != (cell["prior"] == "LKJCovariancePrior"):
            notes["prior_kind_not_applicable"] = 1
            continue
        # ------------------------------------------------------------------------------------------------ matrix-valued closure
        if is_matrix:
            n = int(pval.shape[-1])
            if cell["pshape"] == "full":
                continue
            try:
                prior = GP.LKJCovariancePrior(n, 2.0, GP.SmoothedBoxPrior(0.05, 4.0, 0.05))
                m = _quiet_construct(cls, dict(base_kw, **{kwarg: prior}))
            except Exception:  # noqa: BLE001
                notes["construct_refused"] = 1
                continue
            mine = [(nm, mod, clo, sclo) for nm, mod, pr, clo, sclo in m.named_priors() if pr is prior and nm == full]
            if not mine:
                continue
            _, owner, closure, sclosure = mine[0]
            any_checked = True
            with fails.guard("closure-density" if what == "prior-closure" else "sample"):
                if what == "sample-from-prior":
                    if sclosure is None:
                        try:
                            torch.manual_seed(7)
                            owner.sample_from_prior(local)
                            fails.add("sample", "sample_from_prior on a prior without setting closure did not raise err=1", "")
                        except RuntimeError:
                            notes["no_setting_closure"] = 1
                    else:
                        notes["matrix_setting_closure_unchecked"] = 1
                else:
                    val = closure(owner)
                    got = prior.log_prob(val)
                    V = val.detach().numpy()
                    sd = np.sqrt(np.diagonal(V, axis1=-2, axis2=-1))
                    Rm = V / sd[..., :, None] / sd[..., None, :]
                    if n == 2:  # Cholesky-factor density and |R|^(eta-1) coincide for n = 2: absolute value incl. the LKJ normaliser
                        want = R.lkj_corr_unnormalised(Rm, 2.0) - R.lkj_log_normaliser(2, 2.0) + R.logpdf_smoothed_box(sd, 0.05, 4.0, 0.05).sum(-1)
                        fails.check_close("closure-density", got.detach(), torch.as_tensor(np.asarray(want)), 1e-8, 1e-8,
                                          "LKJCovariancePrior(2, 2.0, SmoothedBox) on the module's covariance closure")
                    # the closure is the documented task covariance: B B^T + diag(v)
                    if hasattr(owner, "covar_factor") and hasattr(owner, "var"):
                        Bf = owner.covar_factor.detach()
                        fails.check_close("closure-value", val.detach(), Bf @ Bf.mT + torch.diag_embed(owner.var.detach()), 1e-12, 1e-12,
                                          "closure != covar_factor covar_factor^T + diag(var)")
                    notes["matrix_closures"] = notes.get("matrix_closures", 0) + 1
            for f in fails[nf:]:
                f["features"] = f2
            continue
        # ------------------------------------------------------------------------------------------------ elementwise parameter
        pub = _find_pub(p_owner, pval, [stem, local[:-6] if local.endswith("_prior") else None,
                                        local[4:-6] if local.startswith("raw_") and local.endswith("_prior") else None])
        if pub is None:
            notes["no_public_name"] = 1
            continue
        f2["pub"] = pub
        shape = tuple(pval.shape)
        cons = p_owner.constraint_for_parameter_name("raw_" + pub) if ("raw_" + pub) in p_owner._parameters else None
        lo, hi = bounds_of(cons)
        c0 = _interior(lo, hi, 0.45)
        spread = min(1.0, (float(np.min(hi)) - float(np.max(lo))) if (lo is not None and np.isfinite(lo).all() and np.isfinite(hi).all()) else 1.0)
        if cell["pshape"] == "full":
            if int(np.prod(shape)) < 2:
                continue
            cc = c0 * (1 + 0.05 * rnd(shape))
        else:
            cc = c0
        try:
            if cell["prior"] == "MultivariateNormalPrior":
                d = shape[-1] if shape else 0
                if d < 2 or cell["pshape"] == "full":
                    continue
                cov = 1e-4 * spread ** 2 * util.spd(g, d).numpy()
                loc = np.full(d, c0)
                prior = GP.MultivariateNormalPrior(_T(loc), covariance_matrix=_T(cov))
                ref = lambda v, loc=loc, cov=cov: R.logpdf_mvn(v, loc, cov)  # noqa: E731  per-event
            else:
                prior, ref = make_prior(cell["prior"], cc, spread, shape)
        except Exception as e:  # noqa: BLE001
            fails.add("harness", "cannot build prior " + util.exc_str(e), "")
            continue
        # domain: a prior with event shape e applies to values whose trailing dimensions are e (torch.distributions convention)
        ev = tuple(prior.event_shape)
        if ev and tuple(shape[len(shape) - len(ev):]) != ev:
            notes["event_shape_mismatch"] = notes.get("event_shape_mismatch", 0) + 1
            continue
        try:
            m = _quiet_construct(cls, dict(base_kw, **{kwarg: prior}))
        except Exception:  # noqa: BLE001
            notes["construct_refused"] = 1
            continue
        mine = [(nm, mod, clo, sclo) for nm, mod, pr, clo, sclo in m.named_priors() if pr is prior and nm == full]
        if not mine:
            continue
        _, owner, closure, sclosure = mine[0]
        any_checked = True
        if what == "prior-closure":
            with fails.guard("closure-density"):
                base = np.broadcast_to(np.asarray(cc, float), shape) if np.shape(cc) == shape else np.full(shape, c0)
                v = base * (1 + 0.02 * (rnd(shape) - 0.5))
                owner.initialize(**{pub: _T(v)})
                val = closure(owner)
                fails.check_close("closure-value", val.detach(), getattr(owner, pub).detach(), 0, 0, "closure(module) != public parameter value")
                fails.check_close("closure-value", val.detach(), _T(v), 1e-12, 1e-8, "closure(module) != assigned (constrained) value")
                got = prior.log_prob(val).sum().detach()
                want = np.asarray(ref(v)).sum()
                fails.check_close("closure-density", got, torch.as_tensor(want), 1e-8, 1e-9,
                                  f"sum log_prob(closure(module)) vs reference density at the public value of {pub}")
                notes["closure_densities"] = notes.get("closure_densities", 0) + 1
        else:
            with fails.guard("sample"):
                if sclosure is None:
                    try:
                        owner.sample_from_prior(local)
                        fails.add("sample", "sample_from_prior without setting closure did not raise err=1", "")
                    except RuntimeError:
                        notes["no_setting_closure"] = notes.get("no_setting_closure", 0) + 1
                    for f in fails[nf:]:
                        f["features"] = f2
                    continue
                s = util.seed_for(seed, "sfp|" + util.jdump(f2))
                torch.manual_seed(s)
                draw = prior.sample().detach().clone()
                lo2 = -np.inf if lo is None else lo
                hi2 = np.inf if hi is None else hi
                d_np = draw.numpy()
                with np.errstate(invalid="ignore"):
                    inb = bool(np.all((d_np >= lo2) & (d_np <= hi2)))
                before = getattr(owner, pub).detach().clone()
                torch.manual_seed(s)
                try:
                    owner.sample_from_prior(local)
                    raised = None
                except Exception as e:  # noqa: BLE001
                    raised = e
                now = getattr(owner, pub).detach().clone()
                if inb:
                    if raised is not None:
                        # independent judge of the domain: does the plain public assignment of the very same tensor work?
                        twin = _quiet_construct(cls, dict(base_kw, **{kwarg: prior}))
                        t_owner = resolve(twin, opath)
                        try:
                            t_owner.initialize(**{pub: draw})
                            setter_ok = True
                        except Exception:  # noqa: BLE001
                            setter_ok = False
                        if setter_ok:
                            fails.add("sample", f"sample_from_prior raises for an in-bounds draw that the public setter accepts: {util.exc_str(raised)[:150]}",
                                      f"draw={d_np.reshape(-1)[:3].tolist()}")
                        else:
                            notes["draw_shape_refused_by_setter"] = notes.get("draw_shape_refused_by_setter", 0) + 1
                    else:
                        notes["samples_stored"] = notes.get("samples_stored", 0) + 1
                        try:
                            want = draw.expand_as(now)
                        except RuntimeError:
                            want = draw.reshape(now.shape) if draw.numel() == now.numel() else draw
                        ok, msg = util.close(now, want, 1e-12, 1e-8)
                        if not ok:
                            fails.add("sample", f"parameter after sample_from_prior != sampled value err={msg}",
                                      f"draw={d_np.reshape(-1)[:3].tolist()} reads={now.reshape(-1)[:3].tolist()}")
                        fails.check_close("sample", closure(owner).detach(), now, 0, 0, "closure(module) != public value after sampling")
                else:
                    notes["oob_draws"] = notes.get("oob_draws", 0) + 1
                    if raised is None:
                        fails.add("sample", "out-of-bounds draw stored without error err=1", f"draw={d_np.reshape(-1)[:3].tolist()} reads={now.reshape(-1)[:3].tolist()}")
                    elif not torch.equal(before, now):
                        fails.add("sample", "rejected draw changed the parameter err=1", "")
        for f in fails[nf:]:
            f["features"] = f2
    return done("checked:" + ",".join(sorted(notes)), any_checked)


# ======================================================================================================================
def cells(tier, seed):
    out = []
    out += prior_cells(tier)
    out += module_prior_cells(tier)
    out += history_cells(tier)
    out += transform_cells(tier)
    # two constraints of the same kind on one parameter (register_constraint(..., replace=False)) intersect to the common interval
    for a, b in itertools.product([(0.1, 2.0), (0.5, 5.0), (1.0, 1.5)], repeat=2):
        out.append({"what": "intersect", "a": list(a), "b": list(b)})
    # initialize() documents "a tensor, a float, or an int" as values - also for the raw parameters
    for target, val in itertools.product(["rbf.raw_lengthscale", "scale.raw_outputscale", "lik.noise_covar.raw_noise", "periodic.raw_period_length"], [0.5, 1, -0.25]):
        out.append({"what": "raw-float", "target": target, "val": val})
    # an assignment outside the SUPPORT of a registered prior: accepted or rejected, but a rejected assignment is not stored
    for target, route, first in itertools.product(["rbf.lengthscale", "scale.outputscale", "mtlik.noise", "lik.noise"], ["initialize", "setter"], [1.0, 1.5]):
        out.append({"what": "prior-support", "target": target, "route": route, "first": first})
    return out


def run_cell(cell, seed):
    what = cell["what"]
    if what == "transform":
        return run_transform(cell, seed)
    if what == "history":
        return run_history(cell, seed)
    if what == "prior-density":
        return run_prior_density(cell, seed)
    if what == "intersect":
        return run_intersect(cell, seed)
    if what == "prior-support":
        return run_prior_support(cell, seed)
    if what == "raw-float":
        return run_raw_float(cell, seed)
    return run_module_prior(cell, seed)


def run_raw_float(cell, seed):
    fails = []
    feats = {"what": "raw-float", "target": cell["target"]}
    kind, _, name = cell["target"].partition(".")
    m = {"rbf": lambda: GK.RBFKernel(), "scale": lambda: GK.ScaleKernel(GK.RBFKernel()), "lik": lambda: GL.GaussianLikelihood(),
         "periodic": lambda: GK.PeriodicKernel()}[kind]()
    try:
        m.initialize(**{name: cell["val"]})
        got = resolve(m, name.split("."))
        if float((got.detach() - float(cell["val"])).abs().max()) > 0:
            fails.append({"sub": "raw-float", "symptom": f"initialize({name}={cell['val']!r}) reads back {got.detach().reshape(-1).tolist()}", "detail": "", "features": feats})
    except Exception as e:
        fails.append({"sub": "raw-float", "symptom": util.exc_str(e), "detail": f"initialize({name}={cell['val']!r})", "features": feats})
    return {"fails": fails, "sig": "raw-float", "features": feats, "ops": 1}


def run_prior_support(cell, seed):
    fails = []
    feats = {"what": "prior-support", "target": cell["target"], "route": cell["route"]}
    pr = GP.UniformPrior(0.5, 2.0)
    mod, name = {"rbf.lengthscale": (lambda: GK.RBFKernel(lengthscale_prior=pr), "lengthscale"),
                 "scale.outputscale": (lambda: GK.ScaleKernel(GK.RBFKernel(), outputscale_prior=pr), "outputscale"),
                 "mtlik.noise": (lambda: GL.MultitaskGaussianLikelihood(num_tasks=2, noise_prior=pr), "noise"),
                 "lik.noise": (lambda: GL.GaussianLikelihood(noise_prior=pr), "noise")}[cell["target"]]
    m = mod()

    def assign(v):
        if cell["route"] == "initialize":
            m.initialize(**{name: v})
        else:
            setattr(m, name, v)

    def read():
        return float(getattr(m, name).detach().reshape(-1)[0])
    try:
        assign(cell["first"])
        if abs(read() - cell["first"]) > 1e-9:
            fails.append({"sub": "prior-support", "symptom": f"in-support assignment {cell['first']} reads back {read()}", "detail": "", "features": feats})
        for bad in (5.0, 0.01):
            before = read()
            try:
                assign(bad)
                rejected = False
            except (ValueError, RuntimeError):
                rejected = True
            after = read()
            want = before if rejected else bad
            if abs(after - want) > 1e-9:
                fails.append({"sub": "prior-support", "symptom": f"assignment of {bad} (outside the prior's support) was {'rejected' if rejected else 'accepted'} "
                              f"but the parameter reads back {after:.6g} (before: {before:.6g})", "detail": "", "features": feats})
            if not rejected:
                assign(cell["first"])
    except Exception as e:
        fails.append({"sub": "prior-support", "symptom": util.exc_str(e), "detail": "", "features": feats})
    return {"fails": fails, "sig": "prior-support", "features": feats, "ops": 3}


def run_intersect(cell, seed):
    fails = []
    feats = {"what": "intersect"}
    (alo, ahi), (blo, bhi) = cell["a"], cell["b"]
    lo, hi = max(alo, blo), min(ahi, bhi)
    try:
        c = Interval(alo, ahi).intersect(Interval(blo, bhi))
        got = (float(c.lower_bound), float(c.upper_bound))
        if got != (lo, hi):
            fails.append({"sub": "intersect", "symptom": f"Interval{tuple(cell['a'])}.intersect(Interval{tuple(cell['b'])}) has bounds {got}, want {(lo, hi)}",
                          "detail": "", "features": feats})
        k = gpytorch.kernels.RBFKernel(lengthscale_constraint=Interval(alo, ahi))
        k.register_constraint("raw_lengthscale", Interval(blo, bhi), replace=False)
        got = (float(k.raw_lengthscale_constraint.lower_bound), float(k.raw_lengthscale_constraint.upper_bound))
        if got != (lo, hi):
            fails.append({"sub": "intersect", "symptom": f"register_constraint(replace=False) left bounds {got}, want {(lo, hi)}", "detail": "", "features": feats})
    except Exception as e:
        fails.append({"sub": "intersect", "symptom": util.exc_str(e), "detail": "", "features": feats})
    return {"fails": fails, "sig": "intersect", "features": feats, "ops": 2}


def main(ctx):
    targets, not_constructible, prior_args = discover_targets()
    cs = cells(ctx.tier, ctx.seed)
    ctx.extra["cells_enumerated"] = len(cs)
    ctx.extra["cells_by_kind"] = {k: sum(1 for c in cs if c["what"] == k) for k in sorted({c["what"] for c in cs})}
    ctx.extra["constrained_parameter_targets"] = len([t for t in targets if t["pub"]])
    ctx.extra["constrained_without_public_setter"] = [f"{t['owner_cls']}.{t['raw']}" for t in targets if not t["pub"]]
    ctx.extra["not_constructible"] = not_constructible
    ctx.extra["prior_arguments"] = len(prior_args)
    ctx.bound = {"history_depth": 2 if ctx.tier == "quick" else 3, "float32_stride": 4096 if ctx.tier == "quick" else 16,
                 "alphabet": len(ALPHABET)}
    # long cells first so that the pool drains evenly
    order = sorted(range(len(cs)), key=lambda i: {"transform": 0, "history": 1}.get(cs[i]["what"], 2))
    ctx.map("run_cell", [cs[i] for i in order], chunksize=1 if ctx.tier == "thorough" else 4)
    if ctx.notes.get("interior_points", 0) == 0 or ctx.notes.get("samples_stored", 0) == 0 or ctx.notes.get("accepted_sets", 0) == 0:
        ctx.cap("vacuity: a sub-check never ran (interior round trips / stored samples / accepted assignments)")
