"""C15 — variational objectives equal their definition; the ELBO is a lower bound whose maximum is the collapsed bound (Engine G).

Three kinds of cell (feature `what`):
  objective : VariationalELBO / PredictiveLogLikelihood on ONE minibatch subset (all 2^5 - 1 subsets of an n = 5 data set are cells) of a
              whitened / unwhitened SVGP with a Gaussian / fixed-noise Gaussian likelihood, with / without registered priors and an added
              loss term; inside the cell num_data in {n, 2n} x beta in {0.5, 1, 2}.  Oracle = the property's formula written out:
              (1/B) sum_i E_q(f_i)[log p(y_i|f_i)] - (beta/N) KL(q(u)||p(u)) + (1/N) sum log priors - added losses  (PLL: log E_q(f_i)[p(y_i|f_i)]),
              q(f_i) and KL from the C14 closed forms (documented jitter modelled), priors evaluated scalar by scalar with scipy.
  bound     : for every q(u) in a lattice {prior, analytic optimum, 6 generic, near-singular S}: N * ELBO(full batch) <= exact
              log N(y; m, K + D) and <= the collapsed (Titsias) bound; equality with the collapsed bound at the analytic optimum.
  ngd       : NaturalVariationalDistribution started at every q(u) of the lattice; ONE gpytorch.optim.NGD step with lr = 1 lands on the
              collapsed bound.
bound / ngd run at the default jitter (1e-6, modelled in the reference) and at jitter 1e-10, where the textbook jitter-free collapsed bound
is compared too.
"""
import contextlib
import itertools
import math

import torch

import gpytorch
from gpytorch import settings as S
from gpytorch import variational as V
from gpytorch.distributions import MultivariateNormal
from gpytorch.likelihoods import FixedNoiseGaussianLikelihood, GaussianLikelihood
from gpytorch.mlls import PredictiveLogLikelihood, VariationalELBO
from gpytorch.mlls.added_loss_term import AddedLossTerm
from gpytorch.priors import GammaPrior, LogNormalPrior

from gpmc import util
from gpmc.refs import dense
from gpmc.refs import priors as RP
from gpmc.refs import variational as RV
from gpmc.util import Fails, F64

PROPERTY = "C15"
RULE = ("objective cells = strategy {whitened, unwhitened} x likelihood {Gaussian, FixedNoise} x objective {ELBO, PLL} x priors on/off x added "
        "loss on/off x ALL 31 non-empty subsets of an n = 5 data set, each with num_data in {5, 10} x beta in {0.5, 1, 2}; bound / ngd cells = "
        "strategy x likelihood x jitter {default, 1e-10} x 9-point q(u) lattice {prior, optimum, 6 generic, near-singular} (thorough: objective "
        "cells at three q(u) instead of one); "
        "distinct / non-trivial = distinct cell whose objective evaluated")
ASSUMPTIONS = [
    "K, m: one eager evaluation of the model's own kernel / mean on [Z; X]; noise read from the likelihood's public `noise` / the given vector",
    "q(f) and KL(q(u) || p(u)) as in C14 with the documented jitter: Ktz = Kzz + jitter I, whitened q(f) variances + jitter, the unwhitened "
    "strategy's p(u) in training mode after a call is N(mz, Kzz + jitter I)",
    "formula comparisons and comparisons with the collapsed bound of the strategy's documented (jittered) model at 1e-9, comparisons with the "
    "textbook jitter-free collapsed bound (jitter 1e-10 cells) at 1e-7, inequalities with 1e-9 relative slack",
    "'for every q(u)' is decided on the 9-point lattice only; the maximum is decided exactly through the closed-form optimum",
]

N_DATA, M_IND, DIM = 5, 3, 2
JIT_DEFAULT = 1e-6
ADDED = 0.37
QNAMES = ["prior", "optimal", "g0", "g1", "g2", "g3", "g4", "g5", "nearsingular"]
PRIOR_SPEC = {"lengthscale": ("gamma", 2.0, 3.0), "outputscale": ("lognormal", 0.1, 0.7), "noise": ("gamma", 1.5, 2.0)}


def cells(tier, seed):
    out = []
    subsets = sorted(range(1, 2 ** N_DATA), key=lambda b: (bin(b).count("1"), b))
    for strat, lik, obj, pri, add in itertools.product(["Variational", "Unwhitened"], ["Gaussian", "FixedNoise"], ["ELBO", "PLL"],
                                                       [0, 1], [0, 1]):
        for sub, qobj in itertools.product(subsets, ["g0"] if tier == "quick" else ["g0", "prior", "nearsingular"]):
            out.append({"what": "objective", "strategy": strat, "lik": lik, "dist": "Cholesky", "objective": obj, "priors": pri,
                        "added": add, "subset": sub, "q": qobj})
            if pri and not add and lik == "Gaussian" and (tier == "thorough" or sub in (subsets[0], subsets[-1])):
                # the model holds its likelihood as a sub-module too (model.likelihood = likelihood, as get_fantasy_model requires): the
                # prior-bearing module is reachable from the objective by two paths, its prior is still ONE prior
                out.append({"what": "objective", "strategy": strat, "lik": lik, "dist": "Cholesky", "objective": obj, "priors": pri,
                            "added": add, "subset": sub, "q": qobj, "holds": 1})
            if pri and not add and (tier == "thorough" or sub in (subsets[0], subsets[-1])):
                out.append({"what": "objective", "strategy": strat, "lik": lik, "dist": "Cholesky", "objective": obj, "priors": 2,
                            "added": add, "subset": sub, "q": qobj})
    for what, strat, lik, jit, q in itertools.product(["bound", "ngd"], ["Variational", "Unwhitened"], ["Gaussian", "FixedNoise"],
                                                      ["default", "1e-10"], QNAMES):
        out.append({"what": what, "strategy": strat, "lik": lik, "dist": "Cholesky" if what == "bound" else "Natural",
                    "objective": "ELBO", "jit": jit, "q": q})
    for mt, obj, sub in itertools.product(["IndepMT", "LMC"], ["ELBO", "PLL"], subsets if tier == "thorough" else subsets[::3]):
        out.append({"what": "objective-mt", "strategy": mt, "lik": "MultitaskGaussian", "dist": "Cholesky", "objective": obj, "subset": sub,
                    "q": "generic"})
        # task noise with off-diagonal entries (rank-1 factor): R = F F^T + diag(task noises) + sigma^2 I couples the tasks of a point
        out.append({"what": "objective-mt", "strategy": mt, "lik": "MultitaskGaussian", "dist": "Cholesky", "objective": obj, "subset": sub,
                    "q": "generic", "rank": 1})
    for strat in ("Variational", "Unwhitened"):
        for bs in ([2], [3], [2, 2]):
            out.append({"what": "ngd-batch", "strategy": strat, "lik": "Gaussian", "dist": "Natural", "objective": "ELBO", "bs": bs, "q": "generic"})
    return out


# ----------------------------------------------------------------------------------------------------------------------
def run_ngd_batch(cell, seed, fails, notes):
    """a batch of independent SVGPs with natural parameters: one NGD step (lr = 1) on the batch must move every element exactly as the
    same step moves a non-batched replica of that element (the non-batched step is tied to the collapsed bound by the 'ngd' cells)"""
    import itertools as it

    from gpytorch import kernels as K
    from gpytorch import variational as V

    bs = torch.Size(cell["bs"])
    g = util.gen(seed, "c15ngdb|" + util.jdump(cell))
    n, M, d = 5, 3, 1
    X, Z = util.rand(g, n, d), util.rand(g, M, d)
    Y = util.randn(g, *bs, n)
    ls = 0.5 + util.rand(g, *bs, 1, 1)
    os_ = 0.5 + util.rand(g, *bs)
    noise = 0.1 + util.rand(g, *bs, 1)
    cls = V.UnwhitenedVariationalStrategy if cell["strategy"] == "Unwhitened" else V.VariationalStrategy

    class M_(gpytorch.models.ApproximateGP):
        def __init__(self, b):
            b = torch.Size(b)
            vd = V.NaturalVariationalDistribution(M, batch_shape=b)
            super().__init__(cls(self, Z.clone(), vd, learn_inducing_locations=False))
            self.mean_module = gpytorch.means.ZeroMean()
            self.covar_module = K.ScaleKernel(K.RBFKernel(batch_shape=b), batch_shape=b)
            self.lik = gpytorch.likelihoods.GaussianLikelihood(batch_shape=b)

        def forward(self, x):
            return gpytorch.distributions.MultivariateNormal(self.mean_module(x), self.covar_module(x))

    def step(model, y, lsv, osv, nzv, nat):
        model.covar_module.base_kernel.lengthscale = lsv
        model.covar_module.outputscale = osv
        model.lik.noise = nzv
        model.train()
        model(X)  # initialise the variational parameters
        vd = model.variational_strategy._variational_distribution
        with torch.no_grad():
            vd.natural_vec.copy_(nat[0])
            vd.natural_mat.copy_(nat[1])
        mll = VariationalELBO(model.lik, model, num_data=n)
        opt = gpytorch.optim.NGD(model.variational_parameters(), num_data=n, lr=1.0)
        opt.zero_grad()
        (-mll(model(X), y)).sum().backward()
        opt.step()
        return vd.natural_vec.detach().clone(), vd.natural_mat.detach().clone()

    A = 0.3 * util.randn(g, *bs, M, M)
    nat = (util.randn(g, *bs, M), -0.5 * torch.eye(M, dtype=F64) - 0.2 * (A @ A.mT))
    with fails.guard("ngd-batch"):
        torch.manual_seed(1)
        bv, bm = step(M_(bs), Y, ls, os_, noise, nat)
        for b in it.product(*[range(k) for k in bs]):
            torch.manual_seed(1)
            rv, rm = step(M_(()), Y[b], ls[b], os_[b], noise[b], (nat[0][b], nat[1][b]))
            fails.check_close("ngd-batch", bv[b], rv, 1e-8, 1e-8, f"natural_vec of batch element {b} after one NGD step != non-batched replica")
            fails.check_close("ngd-batch", bm[b], rm, 1e-8, 1e-8, f"natural_mat of batch element {b} after one NGD step != non-batched replica")
    notes["ops"] = 2 * (1 + bs.numel())


def run_objective_mt(cell, seed, fails, notes):
    """multitask variational models (independent-multitask and LMC wrappers, q(f) a MultitaskMultivariateNormal over n x t outputs):
    objective = (1/B) sum over the B minibatch POINTS of the point's term (summed over its t tasks) - (beta/N) KL. The moments of q(f)
    are taken from the model (C14 decides them); the expected log-probability / predictive density, the KL and their combination are
    written out here from the likelihood's noise values and the variational parameters."""
    from gpytorch import kernels as K
    from gpytorch import variational as V

    g = util.gen(seed, "c15mt|" + cell["strategy"])
    n, M, d, t = N_DATA, 3, 1, 3
    Q = t if cell["strategy"] == "IndepMT" else 2   # number of latent GPs
    X, Z = util.rand(g, n, d), util.rand(g, Q, M, d)
    Y = util.randn(g, n, t)
    idx = torch.tensor([i for i in range(n) if cell["subset"] >> i & 1])

    class MT_(gpytorch.models.ApproximateGP):
        def __init__(self):
            vd = V.CholeskyVariationalDistribution(M, batch_shape=torch.Size([Q]))
            base = V.VariationalStrategy(self, Z.clone(), vd, learn_inducing_locations=False)
            if cell["strategy"] == "IndepMT":
                vs = V.IndependentMultitaskVariationalStrategy(base, num_tasks=t)
            else:
                vs = V.LMCVariationalStrategy(base, num_tasks=t, num_latents=Q, latent_dim=-1)
            super().__init__(vs)
            self.vd = vd
            self.mean_module = gpytorch.means.ConstantMean(batch_shape=torch.Size([Q]))
            self.covar_module = K.ScaleKernel(K.RBFKernel(batch_shape=torch.Size([Q])), batch_shape=torch.Size([Q]))

        def forward(self, x):
            return gpytorch.distributions.MultivariateNormal(self.mean_module(x), self.covar_module(x))

    model = MT_()
    rank = cell.get("rank", 0)
    lik = gpytorch.likelihoods.MultitaskGaussianLikelihood(num_tasks=t, rank=rank)
    if rank:
        with torch.no_grad():
            lik.task_noise_covar_factor.copy_(0.6 * util.randn(g, t, rank))
    with torch.no_grad():
        model.covar_module.base_kernel.lengthscale = 0.4 + util.rand(g, Q, 1, 1)
        model.covar_module.outputscale = 0.5 + util.rand(g, Q)
        model.mean_module.constant.copy_(0.3 * util.randn(g, Q))
        if not rank:   # (with a rank-r factor the task noise is F F^T; there are no separate diagonal task noises to set)
            lik.task_noises = 0.1 + util.rand(g, t)
        lik.noise = 0.05 + 0.2 * util.rand(g, 1)
        if cell["strategy"] == "LMC":
            model.variational_strategy.lmc_coefficients.copy_(util.randn(g, Q, t))
    model.train()
    model(X)  # initialise the variational parameters from the prior
    mq = util.randn(g, Q, M)
    A = 0.4 * util.randn(g, Q, M, M)
    Lq = torch.tril(A) + torch.diag_embed(0.6 + util.rand(g, Q, M))
    with torch.no_grad():
        model.vd.variational_mean.copy_(mq)
        model.vd.chol_variational_covar.copy_(Lq)
    Sq = Lq @ Lq.mT
    # whitened: KL(N(m, S) || N(0, I)) per latent, summed over the latents
    kl = 0.5 * (Sq.diagonal(dim1=-1, dim2=-2).sum(-1) + (mq ** 2).sum(-1) - M - torch.logdet(Sq)).sum()
    if rank:
        lik.noise = 0.05 + 0.2 * util.rand(g, 1)
        # the t x t noise the likelihood adds at one point (what it adds is C12's subject; here it is only read off)
        from gpytorch.distributions import MultitaskMultivariateNormal as MTMVN_
        with torch.no_grad():
            R = (lik(MTMVN_(torch.zeros(1, t, dtype=F64), torch.eye(t, dtype=F64))).covariance_matrix - torch.eye(t, dtype=F64)).detach()
        s2 = R.diagonal().clone()
    else:
        s2 = (lik.task_noises + lik.noise).detach()   # per-task observation noise (rank 0: diagonal task noise + global noise)
    ops = 0
    cls = VariationalELBO if cell["objective"] == "ELBO" else PredictiveLogLikelihood
    for N, beta in itertools.product([N_DATA, 2 * N_DATA], [0.5, 1.0, 2.0]):
        mll = cls(lik, model, num_data=N, beta=beta)
        with torch.no_grad():
            qf = model(X[idx])
            got = mll(qf, Y[idx])
            mu, var = qf.mean, qf.variance
        ops += 2
        if cell["objective"] == "ELBO":
            terms = -0.5 * (math.log(2 * math.pi) + s2.log() + ((Y[idx] - mu) ** 2 + var) / s2)
        else:
            terms = -0.5 * (math.log(2 * math.pi) + (var + s2).log() + (Y[idx] - mu) ** 2 / (var + s2))
        diag_only = terms.sum() / len(idx) - beta / N * kl
        if rank and cell["objective"] == "ELBO":
            # (the predictive log likelihood treats every (point, task) output as one datum - the convention the rank-0 cells already use -
            #  so only the ELBO, whose data term is the expectation of the JOINT conditional density of a point, needs the full R)
            # per point i: q(f_i) = N(mu_i, C_i) over its t tasks, p(y_i | f_i) = N(f_i, R) with the FULL t x t noise R
            nb = len(idx)
            with torch.no_grad():
                C4 = qf.covariance_matrix.reshape(nb, t, nb, t) if getattr(qf, "_interleaved", True) else \
                    qf.covariance_matrix.reshape(t, nb, t, nb).permute(1, 0, 3, 2)
            tot = torch.zeros((), dtype=F64)
            for i in range(nb):
                Ci, ri = C4[i, :, i, :], (Y[idx][i] - mu[i])
                if cell["objective"] == "ELBO":
                    tot = tot + dense.gauss_logpdf(Y[idx][i], mu[i], R) - 0.5 * torch.linalg.solve(R, Ci).diagonal().sum()
                else:
                    tot = tot + dense.gauss_logpdf(Y[idx][i], mu[i], Ci + R)
            want = tot / nb - beta / N * kl
        else:
            want = diag_only
        ok, msg = util.close(got, want, 1e-9, 1e-9)
        if not ok:
            hint = ""
            if rank and util.close(got, diag_only, 1e-9, 1e-9)[0]:
                hint = " (= the value for diag(R): the off-diagonal task noise is dropped)"
            if util.close(got, terms.sum() / (len(idx) * t) - beta / N * kl, 1e-9, 1e-9)[0]:
                hint = " (= data term divided by B * t instead of B)"
            fails.add("objective-mt", f"mismatch err={msg}{hint}", f"{cell['objective']} num_data={N} beta={beta} subset={idx.tolist()}: got "
                      f"{float(got):.12g} want {float(want):.12g}")
            fails[-1]["features"] = {"num_data": N, "beta": beta}
    notes["ops"] = ops


class ConstLoss(AddedLossTerm):
    def __init__(self, c):
        self.c = c

    def loss(self):
        return torch.tensor(self.c, dtype=F64)


class Model(gpytorch.models.ApproximateGP):
    def __init__(self, strat, kind, Z, priors, added):
        cls = {"Variational": V.VariationalStrategy, "Unwhitened": V.UnwhitenedVariationalStrategy}[strat]
        vd = {"Cholesky": V.CholeskyVariationalDistribution, "Natural": V.NaturalVariationalDistribution}[kind](Z.shape[-2])
        super().__init__(cls(self, Z, vd, learn_inducing_locations=False))
        self.vd = vd
        d = Z.shape[-1]
        self.mean_module = gpytorch.means.LinearMean(d)
        lp = GammaPrior(*PRIOR_SPEC["lengthscale"][1:]) if priors else None
        op = LogNormalPrior(*PRIOR_SPEC["outputscale"][1:]) if priors else None
        if priors == 2:
            op = lp   # ONE prior object registered on two parameters: it contributes once per parameter
        self.covar_module = gpytorch.kernels.ScaleKernel(gpytorch.kernels.RBFKernel(ard_num_dims=d, lengthscale_prior=lp),
                                                         outputscale_prior=op)
        if added:
            self.register_added_loss_term("c15_const")
            self.update_added_loss_term("c15_const", ConstLoss(ADDED))

    def forward(self, x):
        return MultivariateNormal(self.mean_module(x), self.covar_module(x))


def set_vd(vd, kind, P):
    with torch.no_grad():
        if kind == "Cholesky":
            vd.variational_mean.copy_(P["mean"])
            vd.chol_variational_covar.copy_(P["chol"])
        else:
            vd.natural_vec.copy_(P["nat_vec"])
            vd.natural_mat.copy_(P["nat_mat"])


class Setup:
    """data set, model, likelihood (real objects) + the dense prior terms of the reference"""

    def __init__(self, cell, seed, jit):
        self.cell, self.jit = cell, jit
        g = util.gen(seed, "c15|data")  # one data set for all cells: the subsets are subsets of the same five points
        n, M, d = N_DATA, M_IND, DIM
        self.X = util.rand(g, n, d)
        self.y = util.randn(g, n)
        Z = util.rand(g, M, d)
        Z[:, 0] = (torch.arange(M, dtype=F64) + 0.2 + 0.6 * Z[:, 0]) / M
        self.Z = Z
        self.fixed = 0.05 + 0.4 * util.rand(g, n)
        hyp = {"ls": 0.35 + 0.3 * util.rand(g, 1, d), "os": 0.6 + util.rand(g, 1)[0], "w": 0.5 * util.randn(g, d, 1), "b": util.randn(g, 1),
               "s2": 0.1 + 0.3 * util.rand(g, 1)}
        self.strat, self.kind = cell["strategy"], cell["dist"]
        self.whitened = self.strat == "Variational"
        pri = bool(cell.get("priors"))
        self.model = Model(self.strat, self.kind, Z, cell.get("priors") or 0, bool(cell.get("added")))
        if cell["lik"] == "Gaussian":
            self.lik = GaussianLikelihood(noise_prior=GammaPrior(*PRIOR_SPEC["noise"][1:]) if pri else None)
            self.lik.noise = hyp["s2"]
        else:
            self.lik = FixedNoiseGaussianLikelihood(noise=self.fixed.clone())
        with torch.no_grad():
            self.model.covar_module.base_kernel.lengthscale = hyp["ls"]
            self.model.covar_module.outputscale = hyp["os"]
            self.model.mean_module.weights.copy_(hyp["w"])
            self.model.mean_module.bias.copy_(hyp["b"])
        if cell.get("holds"):
            self.model.likelihood = self.lik
        self.model.train()
        self.lik.train()
        with torch.no_grad():
            self.model(self.X)  # first call: initialises the variational parameters from the prior
        # dense prior terms (reference side): one eager evaluation of the model's own kernel / mean
        full = torch.cat([Z, self.X], -2)
        with torch.no_grad():
            K = self.model.covar_module(full).to_dense()
            mu = self.model.mean_module(full)
        self.Kzz, self.Kxz, self.Kxx, self.mz, self.mx = K[:M, :M], K[M:, :M], K[M:, M:], mu[:M], mu[M:]
        self.Ktz = RV.add_jitter(self.Kzz, jit)
        self.R = RV.whitening_factor(self.Ktz)
        self.s2 = (self.lik.noise.detach().reshape(()).expand(n) if cell["lik"] == "Gaussian" else self.fixed).clone()
        self.g = g

    # q(u) in the strategy's own parameter space: (m, S) of e (whitened) or of u (unwhitened)
    def to_param_space(self, m_u, S_u):
        if not self.whitened:
            return m_u, S_u
        Ri = torch.linalg.inv(self.R)
        return RV.matvec(Ri, m_u - self.mz), RV.sym(Ri @ S_u @ Ri.mT)

    def to_u_space(self, m, Sq):
        return RV.unwhiten(self.mz, self.R, m, Sq) if self.whitened else (m, Sq)

    def lattice_point(self, name):
        M = M_IND
        if name == "prior":
            return (torch.zeros(M, dtype=F64), torch.eye(M, dtype=F64)) if self.whitened else (self.mz.clone(), self.Ktz.clone())
        if name == "optimal":
            return self.to_param_space(*RV.optimal_qu(self.y, self.mx, self.mz, self.Kxz, self.Ktz, self.s2))
        gq = util.gen(0, "c15|q|" + name)  # the lattice is part of the cell definition: independent of VERIF_SEED's data values
        L = torch.tril(0.3 * util.randn(gq, M, M), -1) + torch.diag_embed(0.4 + util.rand(gq, M))
        m = 0.7 * util.randn(gq, M)
        if name == "nearsingular":
            L = L - torch.diag_embed(L.diagonal()) + torch.diag(torch.tensor([1e-4, 0.5, 0.8], dtype=F64))
        if not self.whitened:
            m = m + self.mz
        return m, L @ L.mT

    def set_q(self, m, Sq):
        set_vd(self.model.vd, self.kind, RV.params_for(self.kind, m, Sq))
        self.model.train()  # clears the memoised distributions

    # ---- reference quantities
    def kl(self, m, Sq):
        if self.whitened:
            return RV.kl_q_p(m, Sq, torch.zeros(M_IND, dtype=F64), torch.eye(M_IND, dtype=F64))
        return RV.kl_q_p(m, Sq, self.mz, self.Ktz)  # training mode, after a call: p(u) = N(mz, Kzz + jitter I)

    def marginals(self, m, Sq, idx):
        m_u, S_u = self.to_u_space(m, Sq)
        mean, cov = RV.predictive(self.Kxx[idx][:, idx], self.Kxz[idx], self.Ktz, self.mx[idx], self.mz, m_u, S_u)
        return mean, cov.diagonal() + (self.jit if self.whitened else 0.0)

    def objective(self, m, Sq, idx, objective, N, beta, log_prior, added):
        fm, fv = self.marginals(m, Sq, idx)
        f = RV.gauss_expected_log_prob if objective == "ELBO" else RV.gauss_log_marginal
        ll = f(self.y[idx], fm, fv, self.s2[idx]).sum() / len(idx)
        return ll - beta / N * self.kl(m, Sq) + log_prior / N - added

    def log_priors(self):
        """sum of the registered priors' log densities at the current parameter values, scalar by scalar"""
        vals = {"lengthscale": self.model.covar_module.base_kernel.lengthscale.detach().reshape(-1).tolist(),
                "outputscale": self.model.covar_module.outputscale.detach().reshape(-1).tolist()}
        if self.cell["lik"] == "Gaussian":
            vals["noise"] = self.lik.noise.detach().reshape(-1).tolist()
        tot = 0.0
        for name, xs in vals.items():
            fam, a, b = PRIOR_SPEC["lengthscale" if (self.cell.get("priors") == 2 and name == "outputscale") else name]
            for x in xs:
                tot += float(RP.logpdf_gamma(x, a, b) if fam == "gamma" else RP.logpdf_lognormal(x, a, b))
        return tot


# ----------------------------------------------------------------------------------------------------------------------
def run_cell(cell, seed):
    fails = Fails()
    feats = {k: cell.get(k) for k in ("what", "strategy", "lik", "dist", "objective", "priors", "added", "subset", "jit", "q", "holds", "rank")}
    if cell["what"] == "objective":
        feats["B"] = bin(cell["subset"]).count("1")
    util.own_rng(seed, "c15-lib|" + util.jdump(cell))
    jit = 1e-10 if cell.get("jit") == "1e-10" else JIT_DEFAULT
    notes = {}
    if cell["what"] == "objective-mt":
        feats["B"] = bin(cell["subset"]).count("1")
        with fails.guard("objective-mt"):
            run_objective_mt(cell, seed, fails, notes)
        for f in fails:
            f["features"] = dict(feats, **f.get("features", {}))
        return {"fails": fails[:6], "sig": "objective-mt:" + ",".join(sorted({f["sub"] for f in fails})), "features": feats,
                "ops": notes.get("ops", 1), "nontrivial": True, "notes": notes}
    if cell["what"] == "ngd-batch":
        run_ngd_batch(cell, seed, fails, notes)
        for f in fails:
            f["features"] = dict(feats, **f.get("features", {}))
        return {"fails": fails[:6], "sig": "ngd-batch:" + ",".join(sorted({f["sub"] for f in fails})), "features": feats,
                "ops": notes.get("ops", 1), "nontrivial": True, "notes": notes}
    with contextlib.ExitStack() as st:
        if cell.get("jit") == "1e-10":
            st.enter_context(S.variational_cholesky_jitter(double_value=1e-10))
        su = None
        with fails.guard("setup"):
            su = Setup(cell, seed, jit)
        if su is not None:
            with fails.guard(cell["what"]):
                {"objective": run_objective, "bound": run_bound, "ngd": run_ngd}[cell["what"]](cell, su, fails, notes)
    for f in fails:
        f["features"] = dict(feats, **f.get("features", {}))
    stage = "ran" if su is not None else "setup-failed"
    return {"fails": fails[:6], "sig": stage + ":" + ",".join(sorted({f["sub"] for f in fails})), "features": feats,
            "ops": notes.get("ops", 1), "nontrivial": su is not None, "notes": notes}


def run_objective(cell, su, fails, notes):
    idx = torch.tensor([i for i in range(N_DATA) if cell["subset"] >> i & 1])
    m, Sq = su.lattice_point(cell["q"])
    su.set_q(m, Sq)
    lp = su.log_priors() if cell["priors"] else 0.0
    added = ADDED if cell["added"] else 0.0
    cls = VariationalELBO if cell["objective"] == "ELBO" else PredictiveLogLikelihood
    kw = {"noise": su.fixed[idx]} if cell["lik"] == "FixedNoise" else {}
    ops = 0
    for N, beta in itertools.product([N_DATA, 2 * N_DATA], [0.5, 1.0, 2.0, 0.0]):   # beta = 0: the first step of a KL warm-up schedule
        mll = cls(su.lik, su.model, num_data=N, beta=beta)
        with torch.no_grad():
            try:
                got = mll(su.model(su.X[idx]), su.y[idx], **kw)
            except Exception as e:
                fails.add("objective", util.exc_str(e), f"num_data={N} beta={beta}")
                fails[-1]["features"] = {"num_data": N, "beta": beta}
                continue
        ops += 2
        want = su.objective(m, Sq, idx, cell["objective"], N, beta, lp, added)
        ok, msg = util.close(got, want, 1e-9, 1e-9)
        if not ok:
            # which term is off?  compare with the reference after dropping / rescaling single terms
            hint = ""
            for name, alt in (("KL scaled by beta/B instead of beta/N", su.objective(m, Sq, idx, cell["objective"], len(idx), beta, lp, added)),
                              ("KL not scaled by beta", su.objective(m, Sq, idx, cell["objective"], N, 1.0, lp, added))):
                if util.close(got, alt, 1e-9, 1e-9)[0]:
                    hint = " (= reference with " + name + ")"
            fails.add("objective", f"mismatch err={msg}{hint}", f"{cell['objective']} num_data={N} beta={beta} subset={idx.tolist()}: got "
                      f"{float(got):.12g} want {float(want):.12g}")
            fails[-1]["features"] = {"num_data": N, "beta": beta}
    # combine_terms=False returns the same terms separately: (log-likelihood, KL, log-prior[, added loss]) with the documented signs
    mllu = cls(su.lik, su.model, num_data=N_DATA, beta=0.5, combine_terms=False)
    with torch.no_grad():
        parts = mllu(su.model(su.X[idx]), su.y[idx], **kw)
    ops += 2
    want = su.objective(m, Sq, idx, cell["objective"], N_DATA, 0.5, lp, added)
    if len(parts) != (4 if cell["added"] else 3):
        fails.add("objective-uncombined", f"combine_terms=False returned {len(parts)} terms, documented {4 if cell['added'] else 3}")
    else:
        tot = parts[0] - parts[1] + parts[2] - (parts[3] if len(parts) == 4 else 0.0)
        ok, msg = util.close(tot, want, 1e-9, 1e-9)
        if not ok:
            fails.add("objective-uncombined", f"log_likelihood - kl + log_prior - added_loss of the separate terms: mismatch err={msg}")
        if cell["added"] and abs(float(parts[3]) - ADDED) > 1e-12:
            fails.add("objective-uncombined", f"added-loss term {float(parts[3])} != {ADDED}")
        if cell["priors"] and abs(float(parts[2]) - float(lp) / N_DATA) > 1e-9:
            fails.add("objective-uncombined", f"log-prior term {float(parts[2])} != sum of log priors / num_data = {float(lp) / N_DATA}")
    # the declared data size and beta are plain attributes of the objective (KL annealing, a data set that grows): ONE objective whose
    # attributes are re-assigned must give what an objective constructed with those values gives
    mll = cls(su.lik, su.model, num_data=N_DATA, beta=1.0)
    for N, beta in itertools.product([N_DATA, 2 * N_DATA], [0.5, 1.0, 2.0]):
        mll.num_data, mll.beta = N, beta
        with torch.no_grad():
            got = mll(su.model(su.X[idx]), su.y[idx], **kw)
        ops += 2
        want = su.objective(m, Sq, idx, cell["objective"], N, beta, lp, added)
        ok, msg = util.close(got, want, 1e-9, 1e-9)
        if not ok:
            fails.add("objective-reassigned", f"after mll.num_data = {N}; mll.beta = {beta}: mismatch err={msg}",
                      f"{cell['objective']} subset={idx.tolist()}: got {float(got):.12g} want {float(want):.12g}")
            fails[-1]["features"] = {"num_data": N, "beta": beta}
    notes["ops"] = ops


def full_elbo(su, N=N_DATA):
    mll = VariationalELBO(su.lik, su.model, num_data=N)
    return mll(su.model(su.X), su.y) * N


def bounds(su):
    """(exact log evidence, collapsed bound in the strategy's documented (jittered) model, textbook jitter-free collapsed bound)"""
    exact = RV.exact_log_evidence(su.y, su.mx, su.Kxx, su.s2)
    kdiag = su.Kxx.diagonal() + (su.jit if su.whitened else 0.0)
    coll = RV.collapsed_bound(su.y, su.mx, kdiag, su.Kxz, su.Ktz, su.s2)
    text = RV.collapsed_bound(su.y, su.mx, su.Kxx.diagonal(), su.Kxz, su.Kzz, su.s2)
    return exact, coll, text


def run_bound(cell, su, fails, notes):
    m, Sq = su.lattice_point(cell["q"])
    su.set_q(m, Sq)
    with torch.no_grad():
        got = full_elbo(su)
    exact, coll, text = bounds(su)
    idx = torch.arange(N_DATA)
    want = N_DATA * su.objective(m, Sq, idx, "ELBO", N_DATA, 1.0, 0.0, 0.0)
    fails.check_close("elbo-formula", got, want, 1e-9, 1e-9, "N * ELBO(full batch) != sum_i E_q log p(y_i|f_i) - KL")
    slack = 1e-9 * (1 + abs(float(exact)))
    if not float(got) <= float(exact) + slack:
        fails.add("lower-bound", f"N*ELBO exceeds the exact log evidence err={float(got) - float(exact):.3e}",
                  f"ELBO*N={float(got):.12g} log N(y; m, K + D)={float(exact):.12g}")
    if not float(got) <= float(coll) + slack:
        fails.add("max-is-collapsed", f"N*ELBO exceeds the collapsed bound err={float(got) - float(coll):.3e}",
                  f"ELBO*N={float(got):.12g} collapsed={float(coll):.12g}")
    if not float(coll) <= float(exact) + slack:
        fails.add("reference-sanity", f"collapsed bound above the evidence err={float(coll) - float(exact):.3e}")
    if cell["q"] == "optimal":
        fails.check_close("optimum-attains-collapsed", got, coll, 1e-9, 1e-9, "ELBO at the exact posterior q(u) != collapsed (Titsias) bound")
        if cell["jit"] == "1e-10":
            fails.check_close("optimum-attains-collapsed", got, text, 1e-7, 1e-7, "... != textbook jitter-free collapsed bound")
    notes["ops"] = 2


def run_ngd(cell, su, fails, notes):
    m, Sq = su.lattice_point(cell["q"])
    su.set_q(m, Sq)
    model = su.model
    mll = VariationalELBO(su.lik, model, num_data=N_DATA)
    opt = gpytorch.optim.NGD(model.variational_parameters(), num_data=N_DATA, lr=1.0)
    opt.zero_grad()
    loss = -mll(model(su.X), su.y)
    loss.backward()
    opt.step()
    with torch.no_grad():
        got = full_elbo(su)
    exact, coll, text = bounds(su)
    start = N_DATA * float(-loss)
    fails.check_close("ngd-one-step", got, coll, 1e-9, 1e-9,
                      f"one NGD step (lr = 1) from q = {cell['q']} (N*ELBO {start:.6g}) does not land on the collapsed bound")
    if cell["jit"] == "1e-10":
        fails.check_close("ngd-one-step", got, text, 1e-7, 1e-7, "... textbook jitter-free collapsed bound")
    if not float(got) <= float(exact) + 1e-9 * (1 + abs(float(exact))):
        fails.add("lower-bound", f"N*ELBO after the step exceeds the exact log evidence err={float(got) - float(exact):.3e}")
    notes["ops"] = 5
