"""C07 — every covariance handed out is a valid covariance (Engine G + exhaustive subset lattice).

Five families of cells ("what"):
  gram            K(x,x) of every kernel that is positive definite on its documented domain x geometry lattice x (n, d) x
                  lengthscale x ARD: symmetric to 1e-12 * ||K|| and lambda_min(sym K) >= -1e-10 * lambda_max.
  model-cov       prior / posterior / marginal covariance of the exact families and q(f) / marginal of the variational families,
                  default settings and fast_pred_var: symmetric, PSD up to rounding of the operands.
  subset-lattice  4-point pool, ALL 2^4 training subsets and ALL 32 edges S -> S + {i}: prior - posterior PSD, every posterior
                  variance non-increasing along every edge (fresh model per subset, cross-checked with set_train_data).
  variance-floor  dist.variance / dist.stddev real and >= settings.min_variance.value(dtype) (default and configured), including
                  test point == training point with tiny noise; confidence_region ordered.
  noise-floor     noise added by every Gaussian-family likelihood over a raw-value lattice >= lower bound of its constraint,
                  >= settings.min_fixed_noise for fixed noise given to the constructor (also the one behind get_fantasy_likelihood).

The oracle uses only torch.linalg.eigvalsh on the dense float64 matrix that the public API returns.
"""
import contextlib
import itertools
import warnings

import torch

import gpytorch
from gpytorch import kernels as K
from gpytorch import settings
from gpytorch.constraints import GreaterThan, Interval, Positive
from gpytorch.distributions import MultitaskMultivariateNormal, MultivariateNormal
from gpytorch.likelihoods import (FixedNoiseGaussianLikelihood, GaussianLikelihood, MultitaskGaussianLikelihood)

from gpmc import models, util
from gpmc.util import Fails, F64

PROPERTY = "C07"
RULE = ("cells = {gram: kernel x (n in 2..6) x (d in 1..3) x geometry {generic, duplicates, clusters 1e-3/1e-6/1e-9, collinear} x "
        "lengthscale {1e-2,1,1e2} x ARD; model-cov: family x parameter valuation x settings {default, fast_pred_var} x test geometry; "
        "subset-lattice: kernel x noise x pool geometry, every one of the 16 subsets and 32 edges inside the cell; variance-floor: "
        "family x noise x min_variance setting x fast_pred_var; noise-floor: likelihood x constraint x raw value}; full product; "
        "quick = n in {2,3,6}, one generic point set, reduced lattice/valuation products; thorough = n in 2..6, three generic point sets; "
        "distinct / non-trivial = distinct cell whose covariance was obtained and decomposed")
ASSUMPTIONS = ["torch.linalg.eigvalsh (LAPACK, float64) is trusted; its error n*eps*lambda_max is far inside the 1e-10 relative bound",
               "posterior covariances are differences of prior-sized quantities: 'up to rounding' is taken relative to "
               "max(lambda_max(C), lambda_max(prior at the same points))",
               "kernels outside their documented domain (Cosine d>1, Cylindrical outside the unit ball, Hamming on non one-hot inputs) "
               "are not enumerated; PSD for ALL real inputs is a theorem per kernel, only the lattice is decided",
               "min_fixed_noise is enforced for noise given to the FixedNoiseGaussianLikelihood constructor (the documented rounding), including the likelihood the library constructs for a fantasy model from the supplied fantasy noise; "
               "values written later through the setter / given at call time are only counted (notes)"]

EPS = torch.finfo(F64).eps
SYM_TOL = 1e-12
PSD_TOL = 1e-10
PSD_TOL_ITER = 1e-6

# ------------------------------------------------------------------------------------------------------------------------------
# covariance oracle


def cov_verdict(C, psd_tol=PSD_TOL, scale=None):
    """(ok, symptom, stats) for a dense (batch of) covariance(s)"""
    C = util.dense(C).detach().to(F64)
    if not torch.isfinite(C).all():
        return False, "non-finite covariance entries err=inf", {}
    norm = float(C.abs().max())
    asym = float((C - C.mT).abs().max())
    S = 0.5 * (C + C.mT)
    ev = torch.linalg.eigvalsh(S)
    lmin, lmax = float(ev.min()), float(ev.abs().max())
    sc = max(lmax, scale or 0.0)
    st = {"asym": asym, "lmin": lmin, "lmax": lmax, "scale": sc}
    if asym > SYM_TOL * max(norm, scale or 0.0):
        return False, f"asymmetric covariance err={asym:.3e} (|K|max={norm:.3e})", st
    if lmin < -psd_tol * sc:
        return False, f"negative eigenvalue err={-lmin:.3e} (lambda_min/scale={lmin / max(sc, 1e-300):.3e}, scale={sc:.3e})", st
    return True, "", st


def check_cov(fails, sub, C, psd_tol=PSD_TOL, scale=None, detail=""):
    ok, sym, st = cov_verdict(C, psd_tol, scale)
    if not ok:
        fails.add(sub, sym, detail)
    return st


# ------------------------------------------------------------------------------------------------------------------------------
# gram cells

GEOMS = ["generic", "dup", "cluster1e-3", "cluster1e-6", "cluster1e-9", "collinear"]
LS = [1.0, 1e-2, 1e2]

# name -> (has lengthscale axis, supports ARD axis, allowed d, input domain)
KERNELS = {
    "RBF": (True, True, (1, 2, 3), "real"),
    "Matern0.5": (True, True, (1, 2, 3), "real"),
    "Matern1.5": (True, True, (1, 2, 3), "real"),
    "Matern2.5": (True, True, (1, 2, 3), "real"),
    "RQ": (True, True, (1, 2, 3), "real"),
    "Periodic": (True, True, (1, 2, 3), "real"),
    "Cosine": (False, False, (1,), "real"),           # positive definite only for d = 1 (documented domain of the property)
    "Linear": (False, True, (1, 2, 3), "real"),
    "Poly2": (False, False, (1, 2, 3), "real"),
    "Poly3": (False, False, (1, 2, 3), "real"),
    "PP0": (True, True, (1, 2, 3), "real"),
    "PP1": (True, True, (1, 2, 3), "real"),
    "PP2": (True, True, (1, 2, 3), "real"),
    "PP3": (True, True, (1, 2, 3), "real"),
    "Constant": (False, False, (1, 2, 3), "real"),
    "SM": (False, False, (1, 2, 3), "real"),
    "SD": (True, True, (1, 2, 3), "real"),
    "Arc": (True, True, (1, 2, 3), "real"),
    "Cylindrical": (True, False, (1, 2, 3), "ball"),
    "Hamming": (False, False, (1, 2, 3), "onehot"),
    "RFF": (True, True, (1, 2, 3), "real"),
    "Sum": (True, True, (1, 2, 3), "real"),
    "Prod": (True, True, (1, 2, 3), "real"),
    "Scale": (True, True, (1, 2, 3), "real"),
    "SumProd": (True, False, (1, 2, 3), "real"),
    "Multitask": (True, True, (1, 2, 3), "real"),
    "Index": (False, False, (1,), "index"),
    "LCM": (True, False, (1, 2, 3), "real"),
    "GridInterp": (True, True, (1, 2, 3), "real"),
    "InducingPoint": (True, True, (1, 2, 3), "real"),
    # further exported kernels that are covariances of (f, grad f) / sums and products over dimensions of PD kernels
    "RBFGrad": (True, True, (1, 2, 3), "real"),
    "Matern52Grad": (True, True, (1, 2, 3), "real"),
    "RBFGradGrad": (True, True, (1, 2, 3), "real"),
    "PolyGrad": (False, False, (1, 2, 3), "real"),
    "AdditiveStructure": (True, False, (1, 2, 3), "real"),
    "ProductStructure": (True, False, (1, 2, 3), "real"),
    "NewtonGirard": (True, False, (1, 2, 3), "real"),
}
QUICK_N = (2, 3, 6)


def cells(tier, seed):
    out = []
    ns = QUICK_N if tier == "quick" else (2, 3, 4, 5, 6)
    reps = (0,) if tier == "quick" else (0, 1, 2)      # thorough: three deterministic generic point sets per (n, d)
    for name, (has_ls, has_ard, ds, dom) in KERNELS.items():
        geoms = GEOMS if dom in ("real", "ball") else ["generic", "dup"]
        for rep, n, d, geom in itertools.product(reps, ns, ds, geoms):
            if rep and geom == "collinear":
                continue        # the collinear set does not depend on the generic draw
            for ls in (LS if has_ls else [1.0]):
                for ard in ([False, True] if has_ard else [False]):
                    out.append({"what": "gram", "kernel": name, "n": n, "d": d, "geometry": geom, "ls": ls, "ard": ard, "rep": rep})
        if dom == "real":
            # a point set that is DENSE relative to the lengthscale (regular lattice, spacing = half a lengthscale): compactly supported and
            # oscillating kernels are positive definite only up to a dimension-dependent bound, which sparse point sets never probe
            for d in ds:
                for ard in ([False, True] if has_ard else [False]):
                    out.append({"what": "gram", "kernel": name, "n": DENSE_N[d], "d": d, "geometry": "dense", "ls": 1.0, "ard": ard, "rep": 0})
    out += model_cells(tier)
    out += lattice_cells(tier)
    out += floor_cells(tier)
    out += noise_cells(tier)
    return out


DENSE_N = {1: 10, 2: 36, 3: 64}


def dense_lattice(d):
    """regular lattice with nearest-neighbour distance 0.5 inside [-2.4, 2.4]^d: 10 points on a line, a 6 x 6 hexagonal patch, a 4 x 4 x 4 cubic block"""
    if d == 1:
        return 0.5 * torch.arange(10, dtype=F64).unsqueeze(-1) - 2.25
    if d == 2:
        i, j = torch.meshgrid(torch.arange(6, dtype=F64), torch.arange(6, dtype=F64), indexing="ij")
        pts = torch.stack([i + 0.5 * (j % 2), j * (3 ** 0.5) / 2], -1).reshape(-1, 2)
        return 0.5 * (pts - pts.mean(0))
    i = torch.stack(torch.meshgrid(*[torch.arange(4, dtype=F64)] * 3, indexing="ij"), -1).reshape(-1, 3)
    return 0.5 * (i - i.mean(0))


def geometry(g, geom, n, d):
    """n x d inputs in [-1, 1]^d; the degenerate members are deterministic functions of the generic one"""
    if geom == "dense":
        return dense_lattice(d)
    x = 2 * util.rand(g, n, d) - 1
    if geom == "generic":
        return x
    if geom == "dup":
        y = x.clone()
        y[1] = y[0]
        if n >= 5:
            y[4] = y[2]
        return y
    if geom.startswith("cluster"):
        eps = float(geom[len("cluster"):])
        y = x.clone()
        y[1] = y[0] + eps
        y[2 % n] = y[0] - eps if n > 2 else y[2 % n]
        return y
    if geom == "collinear":
        t = torch.linspace(0, 1, n, dtype=F64).unsqueeze(-1)
        direction = torch.arange(1, d + 1, dtype=F64) / d
        return t * direction - 0.25
    raise AssertionError(geom)


def set_ls(k, ls, ard, d):
    if ard:
        k.lengthscale = ls * torch.tensor([1.0, 0.5, 2.0], dtype=F64)[:d]
    else:
        k.lengthscale = ls
    return k


def make_kernel(name, d, ls, ard, g, seed):
    """returns (kernel, transform of the inputs into the documented domain)"""
    ad = d if ard else None
    kw = {"ard_num_dims": ad} if ard else {}
    ident = lambda x: x  # noqa: E731
    torch.manual_seed(util.seed_for(seed, f"c07|kinit|{name}|{d}"))
    if name == "RBF":
        return set_ls(K.RBFKernel(**kw), ls, ard, d), ident
    if name.startswith("Matern") and not name.endswith("Grad"):
        return set_ls(K.MaternKernel(nu=float(name[6:]), **kw), ls, ard, d), ident
    if name == "RQ":
        k = set_ls(K.RQKernel(**kw), ls, ard, d)
        k.alpha = 0.7
        return k, ident
    if name == "Periodic":
        k = set_ls(K.PeriodicKernel(**kw), ls, ard, d)
        k.period_length = (0.8 * torch.tensor([1.0, 1.5, 0.6], dtype=F64)[:d]) if ard else 0.8
        return k, ident
    if name == "Cosine":
        k = K.CosineKernel()
        k.period_length = 0.8
        return k, ident
    if name == "Linear":
        k = K.LinearKernel(**kw)
        k.variance = (torch.tensor([[0.6, 1.3, 0.2]], dtype=F64)[:, :d]) if ard else 0.6
        return k, ident
    if name.startswith("Poly") and name != "PolyGrad":
        k = K.PolynomialKernel(power=int(name[4:]))
        k.offset = 0.4
        return k, ident
    if name.startswith("PP"):
        return set_ls(K.PiecewisePolynomialKernel(q=int(name[2:]), **kw), ls, ard, d), ident
    if name == "Constant":
        k = K.ConstantKernel()
        k.constant = torch.tensor(0.7, dtype=F64)
        return k, ident
    if name == "SM":
        k = K.SpectralMixtureKernel(num_mixtures=2, ard_num_dims=d)
        k.mixture_weights = torch.tensor([0.7, 0.4], dtype=F64)
        k.mixture_means = 0.2 + 2 * util.rand(g, 2, 1, d)
        k.mixture_scales = 0.2 + util.rand(g, 2, 1, d)
        return k, ident
    if name == "SD":
        k = K.SpectralDeltaKernel(num_dims=d, num_deltas=4, ard_num_dims=ad)
        k.Z = 0.1 + 2 * util.rand(g, 4, d)
        return set_ls(k, ls, ard, d), ident
    if name == "Arc":
        k = K.ArcKernel(K.MaternKernel(nu=2.5), ard_num_dims=ad)
        set_ls(k, ls, ard, d)
        k.angle = 0.3
        k.radius = 1.2
        return k, ident
    if name == "Cylindrical":
        k = K.CylindricalKernel(num_angular_weights=3, radial_base_kernel=set_ls(K.MaternKernel(nu=2.5), ls, False, d))
        k.angular_weights = torch.tensor([0.5, 1.0, 0.3], dtype=F64)
        k.alpha = 0.8
        k.beta = 1.3
        # inside the unit ball (documented domain); a common positive factor keeps duplicates / clusters / lines what they are
        return k, (lambda x: x * (0.9 / max(1.0, float(x.norm(dim=-1).max()))))
    if name == "Hamming":
        k = K.HammingIMQKernel(vocab_size=3)
        k.alpha = 0.8
        k.beta = 1.5

        def onehot(x):  # d = sequence length, vocabulary 3: category from the generic value, one-hot, flattened
            cat = ((x + 1) * 1.5).floor().clamp(0, 2).long()
            return torch.nn.functional.one_hot(cat, 3).reshape(x.shape[0], -1).to(F64)
        return k, onehot
    if name == "RFF":
        k = K.RFFKernel(num_samples=3, num_dims=d, ard_num_dims=ad)
        return set_ls(k, ls, ard, d), ident
    if name == "Sum":
        k = set_ls(K.RBFKernel(**kw), ls, ard, d) + K.LinearKernel()
        return k, ident
    if name == "Prod":
        per = K.PeriodicKernel()
        per.period_length = 0.8
        return set_ls(K.RBFKernel(**kw), ls, ard, d) * per, ident
    if name == "Scale":
        k = K.ScaleKernel(set_ls(K.MaternKernel(nu=2.5, **kw), ls, ard, d))
        k.outputscale = 2.3
        return k, ident
    if name == "SumProd":
        s = K.ScaleKernel(set_ls(K.RBFKernel(), ls, False, d))
        s.outputscale = 1.7
        per = set_ls(K.PeriodicKernel(), ls, False, d)
        return s + K.LinearKernel() * per, ident
    if name == "Multitask":
        k = K.MultitaskKernel(set_ls(K.RBFKernel(**kw), ls, ard, d), num_tasks=2, rank=1)
        k.task_covar_module.covar_factor.data = util.randn(g, 2, 1)
        return k, ident
    if name == "Index":
        k = K.IndexKernel(num_tasks=3, rank=1)
        k.covar_factor.data = util.randn(g, 3, 1)
        return k, (lambda x: ((x + 1) * 1.5).floor().clamp(0, 2).long())
    if name == "LCM":
        k = K.LCMKernel([set_ls(K.RBFKernel(), ls, False, d), set_ls(K.MaternKernel(nu=1.5), 2 * ls, False, d)], num_tasks=2, rank=1)
        return k, ident
    if name == "GridInterp":
        k = K.GridInterpolationKernel(set_ls(K.RBFKernel(**kw), ls, ard, d), grid_size=6, grid_bounds=[(-1.6, 1.6)] * d)
        return k, ident
    if name == "InducingPoint":
        lik = GaussianLikelihood()
        k = K.InducingPointKernel(set_ls(K.RBFKernel(**kw), ls, ard, d), inducing_points=2 * util.rand(g, 3, d) - 1, likelihood=lik)
        return k, ident
    if name == "RBFGrad":
        return set_ls(K.RBFKernelGrad(**kw), ls, ard, d), ident
    if name == "Matern52Grad":
        return set_ls(K.Matern52KernelGrad(**kw), ls, ard, d), ident
    if name == "RBFGradGrad":
        return set_ls(K.RBFKernelGradGrad(**kw), ls, ard, d), ident
    if name == "PolyGrad":
        k = K.PolynomialKernelGrad(power=2)
        k.offset = 0.4
        return k, ident
    if name == "AdditiveStructure":
        return K.AdditiveStructureKernel(set_ls(K.RBFKernel(), ls, False, d), num_dims=d), ident
    if name == "ProductStructure":
        return K.ProductStructureKernel(set_ls(K.MaternKernel(nu=1.5), ls, False, d), num_dims=d), ident
    if name == "NewtonGirard":
        return K.NewtonGirardAdditiveKernel(set_ls(K.RBFKernel(ard_num_dims=d), ls, False, d), num_dims=d), ident
    raise AssertionError(name)


def run_gram(cell, seed, fails, feats):
    name, n, d, geom, ls, ard = (cell[k] for k in ("kernel", "n", "d", "geometry", "ls", "ard"))
    # the data depend on (n, d, geometry) only: every kernel / lengthscale sees the same point sets
    g = util.gen(seed, f"c07|gram|{n}|{d}|{cell.get('rep', 0)}")
    x = geometry(g, geom, n, d)
    gk = util.gen(seed, f"c07|gramk|{name}|{d}")
    ops = 0
    with torch.no_grad():
        with fails.guard("gram"):
            k, tf = make_kernel(name, d, ls, ard, gk, seed)
            k.eval()
            xx = tf(x)
            Kd = k(xx).to_dense()
            ops += 1
            xf = xx.to(F64)
            diff = (xf.unsqueeze(-2) - xf.unsqueeze(-3)).norm(dim=-1)          # direct differences: no cancellation
            dmin = float(diff[~torch.eye(n, dtype=torch.bool)].min())
            st = check_cov(fails, "gram", Kd, detail=f"K = {name}(x).to_dense(), min pairwise distance {dmin:.3e}, x = {xx.tolist()}")
            # the same Gram matrix through the two-argument call, evaluated eagerly; reported when it adds information
            with settings.lazily_evaluate_kernels(False):
                K2 = util.dense(k(xx, xx.clone()))
            ops += 1
            if not fails:
                check_cov(fails, "gram-eager", K2, detail=f"K = {name}(x, x.clone()) under lazily_evaluate_kernels(False), x = {xx.tolist()}")
            return "gram:%s" % ("psd" if st and st.get("lmin", -1) >= 0 else "psd-rounding"), ops
    return "gram:exc", ops


# ------------------------------------------------------------------------------------------------------------------------------
# model covariances

EXACT_FAMS = ["exact", "matern_ard", "sumprod", "fixednoise", "multitask", "kiss", "sgpr", "rff"]
VAR_FAMS = ["svgp", "usvgp", "svgp_mf", "svgp_nat", "lmc", "indep_mt"]
TEST_GEOMS = ["generic", "dup", "attrain", "cluster1e-6"]


def model_cells(tier):
    out = []
    for fam, theta, fpv, tg, d in itertools.product(EXACT_FAMS + VAR_FAMS, [0, 1, 2, 3], [False, True], TEST_GEOMS, [1, 2]):
        if fam in VAR_FAMS and d != 1:
            continue  # the variational catalogue is 1-d
        if fam in EXACT_FAMS and theta > 2:
            continue  # theta 3 = vague q(u), variational families only
        if tier == "quick" and d == 2 and theta == 1:
            continue
        out.append({"what": "model-cov", "fam": fam, "theta": theta, "fast_pred_var": fpv, "geometry": tg, "d": d})
    return out


def test_points(g, geom, X, d, m=4):
    Xs = util.rand(g, m, d)
    if geom == "generic":
        return Xs
    if geom == "dup":
        Xs[1] = Xs[0]
        return Xs
    if geom == "attrain":
        if X is not None:
            Xs[0] = X[0]
            Xs[2] = X[min(2, X.shape[0] - 1)]
        return Xs
    if geom.startswith("cluster"):
        eps = float(geom[len("cluster"):])
        Xs[1] = Xs[0] + eps
        Xs[2] = Xs[0] - eps
        return Xs
    raise AssertionError(geom)


def build_model(fam, theta, seed, d):
    if fam in VAR_FAMS:
        m = models.VarModel(fam, seed, d=d)
        m.eval()
        with torch.no_grad():
            m(models.test_x(seed, "m3", d))
        if theta:
            sd = models.perturbed_state(fam, seed, theta)
            # theta 1: generic q(u) with S ~ I; theta 2: confident q(u) (S ~ 1e-2 I, the state after training, where K - A'(I - S)A is a
            # difference of nearly equal matrices); theta 3: vague q(u) (S ~ 10 I)
            f = {1: 1.0, 2: 0.1, 3: 3.0}[theta]
            for k in sd:
                if k.endswith("chol_variational_covar") or k.endswith("_variational_stddev"):
                    sd[k] = sd[k] * f
                elif k.endswith("natural_mat"):
                    sd[k] = sd[k] / f ** 2
                elif k.endswith("natural_vec"):
                    sd[k] = sd[k] / f
            m.load_state_dict(sd)
        vs = getattr(m.variational_strategy, "base_variational_strategy", m.variational_strategy)
        Z = vs.inducing_points.detach()
        return m, (Z if Z.dim() == 2 else Z[0])      # "attrain" = test points at inducing points
    X, y = models.data(seed, 0, fam, d)
    m = models.ExactModel(X, y, fam, seed)
    if theta:
        models.perturb_(m, seed, f"c07|{fam}|{theta}")
    if theta == 2:
        # confident posterior: noise 1e-3, so that the posterior covariance near training points is a small difference of
        # prior-sized quantities (cond(K + s I) ~ 1e4: rounding ~ 1e-12 of the prior)
        lik = m.likelihood
        if fam == "fixednoise":
            lik.noise = torch.full((X.shape[0],), 1e-3, dtype=F64)
        else:
            lik.noise = 1e-3
        if fam == "multitask":
            lik.task_noise_covar_factor.data.mul_(0.03)
    return m, X


def prior_of(m, fam, Xs):
    """the GP prior at Xs: ExactGP honours settings.prior_mode; an ApproximateGP's prior is its forward()"""
    if fam in VAR_FAMS:
        return m.forward(Xs)
    with settings.prior_mode(True):
        return m(Xs)


def lik_kwargs(fam, n, theta=0):
    if fam == "fixednoise":
        if theta == 2:
            return {"noise": torch.full((n,), 1e-3, dtype=F64)}
        return {"noise": 0.05 + 0.1 * torch.arange(n, dtype=F64) / max(n, 1)}
    return {}


def run_model(cell, seed, fails, feats):
    fam, theta, fpv, geom, d = (cell[k] for k in ("fam", "theta", "fast_pred_var", "geometry", "d"))
    g = util.gen(seed, "c07|" + util.jdump(cell))
    ops = 0
    iterative = fpv or fam in ("kiss",)
    tol = PSD_TOL_ITER if iterative else PSD_TOL
    with torch.no_grad():
        m, X = build_model(fam, theta, seed, d)
        Xs = test_points(g, geom, X, d)
        lik = m.likelihood
        m.eval()
        lik.eval()
        prior_scale = None
        with fails.guard("prior"):
            pr = prior_of(m, fam, Xs)
            Cp = pr.covariance_matrix
            ops += 1
            st = check_cov(fails, "prior", Cp, PSD_TOL_ITER if fam == "kiss" else PSD_TOL,
                           detail="exact: eval-mode call under settings.prior_mode(True); variational: model.forward(Xs)")
            prior_scale = st.get("lmax")
            if fam not in VAR_FAMS:
                m.train()
                ptr = m(X)
                ops += 1
                check_cov(fails, "prior-train", ptr.covariance_matrix, PSD_TOL_ITER if fam == "kiss" else PSD_TOL,
                          detail="train-mode call on the training inputs")
                with fails.guard("marginal-train"):
                    mtr = lik(ptr, X) if fam != "fixednoise" else lik(ptr)
                    check_cov(fails, "marginal-train", mtr.covariance_matrix, PSD_TOL_ITER if fam == "kiss" else PSD_TOL,
                              detail="likelihood(model(train_x)) in train mode")
                m.eval()
        with fails.guard("posterior"):
            with settings.fast_pred_var(fpv):
                torch.manual_seed(util.seed_for(seed, "c07|lanczos"))
                post = m(Xs)
                C = post.covariance_matrix
            ops += 1
            which = "q(f)" if fam in VAR_FAMS else "posterior"
            check_cov(fails, "posterior", C, tol, scale=prior_scale, detail=f"{which} covariance at Xs = {Xs.tolist()}")
            with fails.guard("marginal"):
                with settings.fast_pred_var(fpv):
                    torch.manual_seed(util.seed_for(seed, "c07|lanczos"))
                    mar = lik(m(Xs), **lik_kwargs(fam, Xs.shape[0], theta))
                    Cm = mar.covariance_matrix
                ops += 1
                check_cov(fails, "marginal", Cm, tol, scale=prior_scale, detail="likelihood(model(Xs)).covariance_matrix")
            variance_checks(fails, "posterior", post)
        if fam in ("lmc", "indep_mt"):
            # the Hadamard call mode of the multitask wrappers (one task index per input) hands out a covariance as well
            with fails.guard("posterior-task-indices"):
                ti = torch.arange(Xs.shape[-2]) % 2
                pt = m(Xs, task_indices=ti)
                ops += 1
                check_cov(fails, "posterior-task-indices", pt.covariance_matrix, tol, scale=prior_scale,
                          detail=f"q(f) covariance with task_indices={ti.tolist()} at Xs = {Xs.tolist()}")
                variance_checks(fails, "posterior-task-indices", pt)
        if fam in VAR_FAMS:
            with fails.guard("q(f)-train"):
                m.train()
                torch.manual_seed(util.seed_for(seed, "c07|lanczos"))
                qf = m(Xs)
                ops += 1
                check_cov(fails, "q(f)-train", qf.covariance_matrix, tol, scale=prior_scale, detail="train-mode q(f)")
                with fails.guard("q(u)"):
                    vs = m.variational_strategy
                    vs = getattr(vs, "base_variational_strategy", vs)
                    qu = vs.variational_distribution
                    check_cov(fails, "q(u)", qu.covariance_matrix, tol, detail="variational distribution q(u)")
                    pu = vs.prior_distribution
                    check_cov(fails, "p(u)", pu.covariance_matrix, tol, detail="prior p(u)")
    return "model", ops


def variance_checks(fails, sub, dist, minvar=None):
    """variance / stddev real, >= configured minimum; confidence region ordered (evaluated under the caller's settings)"""
    mv = settings.min_variance.value(F64) if minvar is None else minvar
    with warnings.catch_warnings():
        warnings.simplefilter("ignore")
        var = dist.variance
        sd = dist.stddev
        lo, hi = dist.confidence_region()
    if not torch.isfinite(var).all() or not torch.isfinite(sd).all() or var.is_complex() or sd.is_complex():
        fails.add(sub + "-variance", "variance / stddev not real and finite err=inf", f"variance={var.tolist()} stddev={sd.tolist()}")
        return
    if float(var.min()) < mv:
        fails.add(sub + "-variance", f"variance below settings.min_variance err={mv - float(var.min()):.3e} (min variance {float(var.min()):.3e} < {mv:.1e})",
                  f"variance={var.tolist()}")
    if float((sd ** 2).min()) < mv * (1 - 1e-12):
        fails.add(sub + "-stddev", f"stddev**2 below settings.min_variance err={mv - float((sd ** 2).min()):.3e}", f"stddev={sd.tolist()}")
    if not torch.isfinite(lo).all() or not torch.isfinite(hi).all() or bool((lo > hi).any()):
        fails.add(sub + "-confidence", f"confidence_region not ordered err={float((lo - hi).max()):.3e}", f"lower={lo.tolist()} upper={hi.tolist()}")


# ------------------------------------------------------------------------------------------------------------------------------
# exhaustive subset lattice

LATTICE_KERNELS = ["RBF", "Matern1.5", "Sum", "Prod"]


def lattice_cells(tier):
    out = []
    for kern, noise, pool, ls, d, fpv in itertools.product(LATTICE_KERNELS, [0.1, 1e-2, 1.0], ["generic", "dup", "cluster1e-3", "collinear"],
                                                           [1.0, 0.2], [1, 2], [False, True]):
        if tier == "quick" and (d == 2 and ls != 1.0 or fpv and (ls != 1.0 or noise == 1.0)):
            continue
        out.append({"what": "subset-lattice", "kernel": kern, "noise": noise, "geometry": pool, "ls": ls, "d": d, "fast_pred_var": fpv})
    return out


class _LatticeGP(gpytorch.models.ExactGP):
    def __init__(self, X, y, lik, kern, ls, d):
        super().__init__(X, y, lik)
        self.mean_module = gpytorch.means.ConstantMean()
        rbf = K.RBFKernel()
        rbf.lengthscale = ls
        if kern == "RBF":
            base = rbf
        elif kern == "Matern1.5":
            base = K.MaternKernel(nu=1.5)
            base.lengthscale = ls
        elif kern == "Sum":
            lin = K.LinearKernel()
            lin.variance = 0.5
            base = rbf + lin
        elif kern == "Prod":
            mat = K.MaternKernel(nu=2.5)
            mat.lengthscale = 2 * ls
            base = rbf * mat
        else:
            raise AssertionError(kern)
        self.covar_module = K.ScaleKernel(base)
        self.covar_module.outputscale = 1.3

    def forward(self, x):
        return MultivariateNormal(self.mean_module(x), self.covar_module(x))


def lattice_model(X, y, kern, noise, ls, d):
    lik = GaussianLikelihood()
    lik.noise = noise
    m = _LatticeGP(X, y, lik, kern, ls, d)
    m.eval()
    lik.eval()
    return m


def run_lattice(cell, seed, fails, feats):
    kern, noise, pool, ls, d, fpv = (cell[k] for k in ("kernel", "noise", "geometry", "ls", "d", "fast_pred_var"))
    ptol = PSD_TOL_ITER if fpv else PSD_TOL        # fast_pred_var: Lanczos root of (K + s I)^-1, an iterative path
    g = util.gen(seed, f"c07|lattice|{d}")
    P = geometry(g, pool, 4, d)                      # the pool of 4 candidate training points
    yP = util.randn(g, 4)
    T = torch.cat([2 * util.rand(g, 3, d) - 1, P[:2], P[:1] + 1e-4], 0)   # fixed test points: generic, two pool points, one near a pool point
    ops = 0
    post = {}
    with torch.no_grad():
        for mask in range(16):
            idx = [i for i in range(4) if mask >> i & 1]
            with fails.guard("lattice-build"):
                if idx:
                    m = lattice_model(P[idx], yP[idx], kern, noise, ls, d)
                else:
                    m = lattice_model(None, None, kern, noise, ls, d)   # the empty set = the prior
                with settings.fast_pred_var(fpv):
                    torch.manual_seed(util.seed_for(seed, "c07|lanczos"))
                    dist = m(T)
                    post[mask] = (dist.covariance_matrix.clone(), dist.variance.clone())
                ops += 1
        if len(post) < 16:
            return "lattice:exc", ops
        C0, v0 = post[0]
        lam0 = float(torch.linalg.eigvalsh(0.5 * (C0 + C0.mT)).abs().max())
        with fails.guard("lattice-set-train-data"):
            # the same lattice walked on ONE model through set_train_data (every subset is set in turn, starting from the full pool)
            m = lattice_model(P, yP, kern, noise, ls, d)
            for mask in range(1, 16):
                idx = [i for i in range(4) if mask >> i & 1]
                m.set_train_data(P[idx], yP[idx], strict=False)
                with settings.fast_pred_var(fpv):
                    torch.manual_seed(util.seed_for(seed, "c07|lanczos"))
                    dist = m(T)
                    Cs = dist.covariance_matrix
                ops += 1
                e = util.maxerr(Cs, post[mask][0])
                if e > (1e-6 if fpv else 1e-9) * max(1.0, lam0):
                    fails.add("lattice-set-train-data", f"set_train_data posterior covariance differs from a fresh model err={e:.3e}",
                              f"subset={idx}")
                    break
        with fails.guard("lattice-set-train-data"):
            # ... and with the INPUTS alone replaced (same shape, targets kept): the covariance handed out is the one of the new inputs
            m = lattice_model(P, yP, kern, noise, ls, d)
            with settings.fast_pred_var(fpv):
                m(T)
            P2 = P + 0.3
            m.set_train_data(inputs=P2, strict=True)
            fresh = lattice_model(P2, yP, kern, noise, ls, d)
            with settings.fast_pred_var(fpv):
                torch.manual_seed(util.seed_for(seed, "c07|lanczos"))
                Cs = m(T).covariance_matrix
                torch.manual_seed(util.seed_for(seed, "c07|lanczos"))
                Cf = fresh(T).covariance_matrix
            ops += 2
            ok, sym, st = cov_verdict(Cs, ptol, scale=lam0)
            if not ok:
                fails.add("lattice-set-train-data", "posterior covariance after set_train_data(inputs only): " + sym, f"pool={P.tolist()}")
            e = util.maxerr(Cs, Cf)
            if e > (1e-6 if fpv else 1e-9) * max(1.0, lam0):
                fails.add("lattice-set-train-data", f"set_train_data(inputs only) posterior covariance differs from a fresh model err={e:.3e}", "")
        cnt = {}

        def add(sub, sym, detail):      # a few representatives per sub-check, whatever the order of discovery
            cnt[sub] = cnt.get(sub, 0) + 1
            if cnt[sub] <= 2:
                fails.add(sub, sym, detail)

        vtol = (1e-6 if fpv else 1e-10) * max(1.0, float(v0.max()))
        for mask in range(16):
            idx = [i for i in range(4) if mask >> i & 1]
            C, v = post[mask]
            ok, sym, st = cov_verdict(C, ptol, scale=lam0)
            if not ok:
                add("lattice-posterior", sym, f"subset={idx} pool={P.tolist()}")
            ok, sym, st = cov_verdict(C0 - C, ptol, scale=lam0)
            if not ok:
                add("lattice-prior-minus-posterior", "prior - posterior not PSD: " + sym, f"subset={idx} pool={P.tolist()} test={T.tolist()}")
            for i in range(4):
                if mask >> i & 1:
                    continue
                C2, v2 = post[mask | (1 << i)]
                inc = max(float((v2 - v).max()), float((C2.diagonal() - C.diagonal()).max()))
                if inc > vtol:
                    add("lattice-edge", f"posterior variance increased by adding an observation err={inc:.3e}",
                        f"edge {idx} -> +{i}; var before={v.tolist()} after={v2.tolist()} pool={P.tolist()}")
    return "lattice", ops


# ------------------------------------------------------------------------------------------------------------------------------
# variance floor

FLOOR_FAMS = ["exact", "matern_ard", "sumprod", "fixednoise", "multitask", "kiss", "sgpr", "rff", "svgp", "usvgp", "svgp_mf", "svgp_nat", "lmc",
              "tiny-exact", "tiny-fixed", "tiny-matern", "tiny-dup"]


def floor_cells(tier):
    out = []
    for fam, mv, fpv, geom in itertools.product(FLOOR_FAMS, [None, 1e-3, 1e-14], [False, True], ["attrain", "generic"]):
        # tiny-*: noise 1e-8 (variance at a training point ~ 1e-8) and 1e-12 (true variance below the default floor 1e-10 and of the
        # size of the rounding of K** - K*x (K + s I)^-1 Kx*, so the raw value may be negative)
        for noise in ([1e-8, 1e-12] if fam.startswith("tiny") else [None]):
            out.append({"what": "variance-floor", "fam": fam, "min_variance": mv, "fast_pred_var": fpv, "geometry": geom, "noise": noise})
            if mv is not None and not fpv:
                # the floor is a property of the reported variance, not of the data checks that settings.debug switches off
                out.append({"what": "variance-floor", "fam": fam, "min_variance": mv, "fast_pred_var": fpv, "geometry": geom, "noise": noise,
                            "debug": False})
    return out


def tiny_model(fam, seed, g, noise):
    """true posterior variance ~ 0 (or slightly negative by rounding) at the training points: tiny noise"""
    X = util.rand(g, 5, 1)
    if fam == "tiny-dup":
        X[1] = X[0]
        X[3] = X[2] + 1e-9
    y = util.randn(g, 5)
    if fam == "tiny-fixed":
        lik = FixedNoiseGaussianLikelihood(noise=torch.full((5,), noise, dtype=F64))   # rounded up to min_fixed_noise by the library
    else:
        lik = GaussianLikelihood(noise_constraint=GreaterThan(1e-16))
        lik.noise = noise
    m = _LatticeGP(X, y, lik, "Matern1.5" if fam == "tiny-matern" else "RBF", 0.7 if fam != "tiny-dup" else 3.0, 1)
    return m, X


def run_floor(cell, seed, fails, feats):
    fam, mv, fpv, geom = (cell[k] for k in ("fam", "min_variance", "fast_pred_var", "geometry"))
    g = util.gen(seed, "c07|" + util.jdump(cell))
    ops = 0
    with torch.no_grad():
        if fam.startswith("tiny"):
            m, X = tiny_model(fam, seed, g, cell["noise"])
        else:
            m, X = build_model(fam, 0, seed, 1)
        lik = m.likelihood
        m.eval()
        lik.eval()
        Xs = test_points(g, geom, X, 1)
        want = settings.min_variance.value(F64) if mv is None else mv
        ctx = settings.min_variance(double_value=mv) if mv is not None else contextlib.nullcontext()
        with ctx, settings.fast_pred_var(fpv), (settings.debug(False) if cell.get("debug") is False else contextlib.nullcontext()):
            with fails.guard("posterior-variance"):
                torch.manual_seed(util.seed_for(seed, "c07|lanczos"))
                with warnings.catch_warnings():
                    warnings.simplefilter("ignore")
                    post = m(Xs)
                ops += 1
                variance_checks(fails, "posterior", post, want)
                with fails.guard("marginal-variance"):
                    kw = lik_kwargs(fam, Xs.shape[0]) if fam == "fixednoise" else ({"noise": torch.full((Xs.shape[0],), 1e-6, dtype=F64)} if fam == "tiny-fixed" else {})
                    with warnings.catch_warnings():
                        warnings.simplefilter("ignore")
                        mar = lik(post, **kw)
                    ops += 1
                    variance_checks(fails, "marginal", mar, want)
            with fails.guard("prior-variance"):
                pr = prior_of(m, fam, Xs)
                ops += 1
                variance_checks(fails, "prior", pr, want)
    return "floor", ops


# ------------------------------------------------------------------------------------------------------------------------------
# noise floor

RAWS = [0.0, -10.0, -40.0, -1e3, 10.0]
CONSTRAINTS = ["default", "gt1e-2", "interval", "positive", "gt1e-6-exp"]
FIXED = [1e-2, 1e-6, 1e-7, 1e-9, 0.0]


def mk_constraint(name):
    if name == "default":
        return None, 1e-4           # documented default GreaterThan(1e-4)
    if name == "gt1e-2":
        return GreaterThan(1e-2), 1e-2
    if name == "interval":
        return Interval(0.05, 2.0), 0.05
    if name == "positive":
        return Positive(), 0.0
    if name == "gt1e-6-exp":
        return GreaterThan(1e-6, transform=torch.exp, inv_transform=torch.log), 1e-6
    raise AssertionError(name)


def noise_cells(tier):
    out = []
    for kind in ("gaussian", "fixed-learn", "hetero"):
        for con, raw, n in itertools.product(CONSTRAINTS, RAWS, [1, 3]):
            out.append({"what": "noise-floor", "kind": kind, "constraint": con, "raw": raw, "n": n})
    for fx, n, route in itertools.product(FIXED, [1, 3], ["ctor", "setter", "calltime", "fantasy"]):
        out.append({"what": "noise-floor", "kind": "fixed", "fixed": fx, "n": n, "route": route})
    for rank, glob, task, con, raw, raw_task in itertools.product([0, 1, 2], [True, False], [True, False], ["default", "gt1e-2"], RAWS, [0.0, -1e3]):
        if not (glob or task) or (rank > 0 and not task):
            continue
        out.append({"what": "noise-floor", "kind": "multitask", "rank": rank, "glob": glob, "task": task, "constraint": con, "raw": raw,
                    "raw_task": raw_task, "n": 2})
    return out


class _NoiseGP(gpytorch.models.ExactGP):
    """noise model for HeteroskedasticNoise: its posterior mean is the raw noise value"""

    def __init__(self, X, y, raw):
        super().__init__(X, y, GaussianLikelihood())
        self.mean_module = gpytorch.means.ConstantMean()
        self.mean_module.constant.data.fill_(raw)
        self.covar_module = K.ScaleKernel(K.RBFKernel())

    def forward(self, x):
        return MultivariateNormal(self.mean_module(x), self.covar_module(x))


def added_noise(lik, dist, *args, **kw):
    with warnings.catch_warnings():
        warnings.simplefilter("ignore")
        out = lik(dist, *args, **kw)
    C0 = dist.covariance_matrix
    C1 = out.covariance_matrix
    return (C1 - C0).diagonal(dim1=-1, dim2=-2), float(C1.abs().max())


def check_floor(fails, sub, added, lb, cmax, detail):
    if not torch.isfinite(added).all():
        fails.add(sub, "added noise not finite err=inf", detail)
        return
    tol = 4 * EPS * cmax       # (C + s) - C is exact up to one rounding of the sum
    short = lb - float(added.min())
    if short > tol:
        fails.add(sub, f"added noise below the lower bound err={short:.3e} (min added {float(added.min()):.6e} < {lb:.1e})", detail)


def run_noise(cell, seed, fails, feats):
    kind, n = cell["kind"], cell["n"]
    g = util.gen(seed, "c07|" + util.jdump(cell))
    ops = 0
    with torch.no_grad():
        if kind == "multitask":
            t = 2
            mean = util.randn(g, n, t)
            dist = MultitaskMultivariateNormal(mean, util.spd(g, n * t))
        else:
            dist = MultivariateNormal(util.randn(g, n), util.spd(g, n))
        if kind in ("gaussian", "fixed-learn", "hetero"):
            con, lb = mk_constraint(cell["constraint"])
            raw = cell["raw"]
            with fails.guard("noise-floor"):
                args = ()
                if kind == "gaussian":
                    lik = GaussianLikelihood(noise_constraint=con)
                    lik.raw_noise.data.fill_(raw)
                    param = lik.noise
                    lb_total = lb
                elif kind == "fixed-learn":
                    lik = FixedNoiseGaussianLikelihood(noise=torch.full((n,), 0.01, dtype=F64), learn_additional_noise=True, noise_constraint=con)
                    lik.second_noise_covar.raw_noise.data.fill_(raw)
                    param = lik.second_noise
                    lb_total = lb + 0.01
                else:
                    Xn = util.rand(g, 4, 1)
                    nm = _NoiseGP(Xn, torch.full((4,), raw, dtype=F64), raw)   # observations equal to the prior mean: posterior mean == raw
                    from gpytorch.likelihoods.gaussian_likelihood import _GaussianLikelihoodBase
                    from gpytorch.likelihoods.noise_models import HeteroskedasticNoise

                    lik = _GaussianLikelihoodBase(noise_covar=HeteroskedasticNoise(nm, noise_constraint=con))
                    args = (util.rand(g, n, 1),)
                    param = None
                    lb_total = lb
                lik.eval()
                if param is not None and float(param.min()) < lb:
                    fails.add("noise-param", f"likelihood noise parameter below its constraint's lower bound err={lb - float(param.min()):.3e}",
                              f"raw={raw} noise={param.tolist()} lower bound={lb}")
                added, cmax = added_noise(lik, dist, *args)
                ops += 1
                check_floor(fails, "noise-floor", added, lb_total, cmax, f"raw={raw} constraint={cell['constraint']} added={added.tolist()}")
        elif kind == "fixed":
            fx, route = cell["fixed"], cell["route"]
            mf = settings.min_fixed_noise.value(F64)
            with fails.guard("noise-floor"):
                vals = torch.full((n,), fx, dtype=F64)
                if n > 1:
                    vals[0] = 0.02          # one ordinary value next to the tiny ones
                with warnings.catch_warnings():
                    warnings.simplefilter("ignore")
                    if route == "ctor":
                        lik = FixedNoiseGaussianLikelihood(noise=vals)
                        kw = {}
                    elif route == "setter":
                        lik = FixedNoiseGaussianLikelihood(noise=torch.full((n,), 0.02, dtype=F64))
                        lik.noise = vals
                        kw = {}
                    elif route == "fantasy":
                        # the likelihood of a fantasy model: a NEW FixedNoiseGaussianLikelihood built by the library from the stored noise
                        # and the noise supplied for the fantasy observations (wave 13: the supplied part was no longer rounded up)
                        lik = FixedNoiseGaussianLikelihood(noise=torch.full((n,), 0.02, dtype=F64)).get_fantasy_likelihood(noise=vals)
                        dist = MultivariateNormal(util.randn(g, 2 * n), util.spd(g, 2 * n))
                        kw = {}
                    else:
                        lik = FixedNoiseGaussianLikelihood(noise=torch.full((n,), 0.02, dtype=F64))
                        kw = {"noise": vals}
                lik.eval()
                added, cmax = added_noise(lik, dist, **kw)
                ops += 1
                if route in ("ctor", "fantasy"):
                    check_floor(fails, "noise-floor", added, mf, cmax, f"fixed noise {vals.tolist()} given to the constructor ({route}); added={added.tolist()}")
                    if float(lik.noise.min()) < mf:
                        fails.add("noise-param", f"fixed noise below settings.min_fixed_noise err={mf - float(lik.noise.min()):.3e}", f"noise={lik.noise.tolist()}")
                else:
                    # not enforced (ASSUMPTIONS): count how often a later write / a call-time value goes below the floor
                    below = bool(float(added.min()) < mf - 4 * EPS * cmax)
                    return "noise:fixed-%s-%s" % (route, "below" if below else "ok"), ops, {f"fixed_noise_below_floor_via_{route}": int(below)}
        elif kind == "multitask":
            con, lb = mk_constraint(cell["constraint"])
            rank, glob, task = cell["rank"], cell["glob"], cell["task"]
            with fails.guard("noise-floor"):
                torch.manual_seed(util.seed_for(seed, "c07|mtlik"))
                lik = MultitaskGaussianLikelihood(num_tasks=2, rank=rank, has_global_noise=glob, has_task_noise=task, noise_constraint=con)
                lb_total = 0.0
                if glob:
                    lik.raw_noise.data.fill_(cell["raw"])
                    lb_total += lb
                    if float(lik.noise.min()) < lb:
                        fails.add("noise-param", f"likelihood noise parameter below its constraint's lower bound err={lb - float(lik.noise.min()):.3e}",
                                  f"raw={cell['raw']} noise={lik.noise.tolist()}")
                if task and rank == 0:
                    lik.raw_task_noises.data.fill_(cell["raw_task"])
                    lik.raw_task_noises.data[0] = cell["raw"]
                    lb_total += lb
                    if float(lik.task_noises.min()) < lb:
                        fails.add("noise-param", f"task noise parameter below its constraint's lower bound err={lb - float(lik.task_noises.min()):.3e}",
                                  f"task_noises={lik.task_noises.tolist()}")
                elif task:
                    lik.task_noise_covar_factor.data = util.randn(g, 2, rank) * (1e-3 if cell["raw_task"] < 0 else 1.0)
                lik.eval()
                added, cmax = added_noise(lik, dist)
                ops += 1
                check_floor(fails, "noise-floor", added, lb_total, cmax, f"rank={rank} global={glob} task={task} raw={cell['raw']} added={added.tolist()}")
    return "noise", ops


# ------------------------------------------------------------------------------------------------------------------------------

RUNNERS = {"gram": run_gram, "model-cov": run_model, "subset-lattice": run_lattice, "variance-floor": run_floor, "noise-floor": run_noise}
FEATURE_KEYS = ("what", "kernel", "geometry", "fam", "n", "d", "ls", "ard", "rep", "theta", "fast_pred_var", "noise", "min_variance", "kind", "constraint",
                "raw", "raw_task", "fixed", "route", "rank", "glob", "task")


def run_cell(cell, seed):
    fails = Fails()
    feats = {k: cell[k] for k in FEATURE_KEYS if k in cell}
    with warnings.catch_warnings():
        warnings.simplefilter("ignore")
        res = RUNNERS[cell["what"]](cell, seed, fails, feats)
    sig, ops = res[0], res[1]
    notes = res[2] if len(res) > 2 else {}
    # a few representative fails per cell
    seen, kept = set(), []
    for f in fails:
        key = (f["sub"], f["symptom"][:24])
        if key in seen:
            continue
        seen.add(key)
        f.setdefault("features", feats)
        kept.append(f)
    return {"fails": kept[:8], "sig": f"{sig}:" + ",".join(sorted({f['sub'] for f in kept})), "features": feats, "ops": max(ops, 1),
            "nontrivial": ops > 0, "notes": notes}
