"""C11 — MultitaskMultivariateNormal denotes ONE joint Gaussian over n x t outputs whatever the layout, constructor, index.

Engine G. Reference: a flat covariance F over the row-major flattened (batch, point, task) array (zero across batch
elements), built once per configuration from the 4-index tensor J[i,a,j,b] = Cov(f_i^a, f_j^b). Every observable is
expressed through F / J. For indexing, the oracle is position bookkeeping: P = arange(numel).view(shape)[idx] (dense
torch indexing = independent judge of validity and of the selected entries); d[idx] must have mean mean[idx] and its
covariance (read in the row-major order of ITS event) must be F[P, P'].
"""
import itertools

import torch

from gpmc import util
from gpmc.util import Fails, F64

PROPERTY = "C11"
RULE = ("cells = (n,t) x batch x interleaved x constructor x index form x row index expression; inside a cell every column "
        "index expression of the alphabet; expressions that torch rejects, that select nothing or leave no dimension are "
        "outside the domain; distinct/non-trivial = distinct (configuration, selected-position tuple) with >= 1 entry")
ASSUMPTIONS = ["dense torch indexing of an arange tensor decides which (point, task) entries an index expression selects",
               "batch elements are independent (zero cross-batch covariance)",
               "rsample() without base samples is checked through a one-hot variance pattern (layout), not through moments"]

from gpytorch.distributions import MultitaskMultivariateNormal as MT  # noqa: E402
from gpytorch.distributions import MultivariateNormal as MVN  # noqa: E402
import gpytorch  # noqa: E402

SHAPES = [(3, 2), (2, 3), (1, 2), (2, 1)]
BATCHES = [(), (2,)]


def J_of(C, n, t, inter):
    if inter:
        return C.reshape(*C.shape[:-2], n, t, n, t)
    return C.reshape(*C.shape[:-2], t, n, t, n).transpose(-4, -3).transpose(-2, -1)


def build(cfg, seed):
    """returns (d, mean[*b,n,t], Cint[*b,nt,nt] joint covariance in interleaved (row-major point,task) order)"""
    n, t, bs, inter, ctor = cfg["n"], cfg["t"], tuple(cfg["b"]), cfg["inter"], cfg["ctor"]
    g = util.gen(seed, f"c11|{n}|{t}|{bs}|{inter}|{ctor}")
    if ctor == "direct":
        mean = util.randn(g, *bs, n, t)
        C = util.spd(g, *bs, n * t)
        d = MT(mean, C, interleaved=inter)
        return d, mean, J_of(C, n, t, inter).reshape(*bs, n * t, n * t)
    if ctor == "direct_lazy":
        from linear_operator.operators import DenseLinearOperator

        mean = util.randn(g, *bs, n, t)
        C = util.spd(g, *bs, n * t)
        d = MT(mean, DenseLinearOperator(C), interleaved=inter)
        return d, mean, J_of(C, n, t, inter).reshape(*bs, n * t, n * t)
    # independent-task constructors: per task mean m[..., a, :] and covariance Ca[..., a, :, :]
    m = util.randn(g, *bs, t, n)
    Ca = util.spd(g, *bs, t, n)
    Jref = torch.zeros(*bs, n, t, n, t, dtype=F64)
    for a in range(t):
        Jref[..., :, a, :, a] = Ca[..., a, :, :]
    if ctor == "from_batch_mvn":
        d = MT.from_batch_mvn(MVN(m, Ca), task_dim=-1)
    elif ctor == "from_independent_mvns":
        if t < 2:
            return None
        d = MT.from_independent_mvns([MVN(m[..., a, :], Ca[..., a, :, :]) for a in range(t)])
    elif ctor == "from_repeated_mvn":
        d = MT.from_repeated_mvn(MVN(m[..., 0, :], Ca[..., 0, :, :]), num_tasks=t)
        for a in range(t):
            Jref[..., :, a, :, a] = Ca[..., 0, :, :]
        m = m[..., :1, :].expand(*bs, t, n)
    else:
        raise AssertionError(ctor)
    return d, m.mT.contiguous(), Jref.reshape(*bs, n * t, n * t)


def joint_of_result(r):
    """(mean array, covariance in row-major order of r's event, number of event dims)"""
    if isinstance(r, MT):
        n, t = r.mean.shape[-2:]
        C = r.covariance_matrix
        return r.mean, J_of(C, n, t, r._interleaved).reshape(*C.shape[:-2], n * t, n * t), 2
    return r.mean, r.covariance_matrix, 1


# ---------------------------------------------------------------------------------------------- index alphabet
def dim_alphabet(s, tier, reduced=False):
    A = [["int", i] for i in range(-s, s)]
    if reduced:
        ends = [None, 1, -1]
        steps = [None]
    elif tier == "quick":
        ends = [None, 0, 1, -1, s, s + 1, -s - 1]
        steps = [None, 2]
    else:
        ends = [None] + list(range(-s - 1, s + 2))
        steps = [None, 1, 2]
    A += [["slice", a, b, st] for a in ends for b in ends for st in steps]
    A += [["tensor", [0]], ["tensor", [s - 1, 0]], ["tensor", [0, 0, s - 1]]]
    if not reduced:
        A += [["tensor", [-1]], ["tensor", [-s, s - 1]]]  # 1-d index tensors only (multi-dim tensors: no agreed event/batch meaning)
    # the other index objects `mean[idx]` accepts: numpy integers, 0-dim tensors, boolean masks, python lists
    A += [["npint", s - 1], ["tensor0", 0], ["mask", [i != 1 for i in range(s)] if s > 1 else [True]], ["list", [s - 1, 0]]]
    return A


def mk(e):
    if e[0] == "int":
        return e[1]
    if e[0] == "slice":
        return slice(e[1], e[2], e[3])
    if e[0] == "tensor":
        return torch.tensor(e[1], dtype=torch.long)
    if e[0] == "ellipsis":
        return Ellipsis
    if e[0] == "npint":
        import numpy
        return numpy.int64(e[1])
    if e[0] == "tensor0":
        return torch.tensor(e[1], dtype=torch.long)
    if e[0] == "mask":
        return torch.tensor(e[1], dtype=torch.bool)
    if e[0] == "list":
        return list(e[1])
    raise AssertionError(e)


def kind(e):
    if e[0] == "slice":
        full = e[1] is None and e[2] is None and e[3] is None
        return "slice_full" if full else "slice"
    return e[0]


BATCH_ALPHA = [["slice", None, None, None], ["int", 0], ["int", -1], ["slice", 0, 1, None], ["slice", 1, None, None],
               ["tensor", [1, 0]], ["tensor0", 1]]   # (an index tensor on the batch dimension pairs up with one on a point / task dimension)
FORMS = ["full", "e0", "e1", "e2", "row", "ecol", "rowe", "bare"]


def assemble(form, bidx, row, col, has_batch):
    b = (mk(bidx),) if has_batch else ()
    if form == "full":
        return b + (mk(row), mk(col))
    if form == "e0":
        return (Ellipsis, mk(row), mk(col))
    if form == "e1":
        return b + (mk(row), Ellipsis, mk(col))
    if form == "e2":
        return b + (mk(row), mk(col), Ellipsis)
    if form == "row":
        return b + (mk(row),)
    if form == "ecol":
        return (Ellipsis, mk(col))
    if form == "rowe":
        return b + (mk(row), Ellipsis)
    if form == "bare":  # non-tuple index
        return mk(bidx) if has_batch else mk(row)
    raise AssertionError(form)


def check_index(d, mean, Cint, idx, fails, feats, sub="getitem"):
    """returns selected-position tuple or None if idx is outside the domain"""
    bs = mean.shape[:-2]
    n, t = mean.shape[-2:]
    pos = torch.arange(mean.numel()).view(mean.shape)
    try:
        P = pos[idx]
    except Exception:
        return None  # torch itself rejects this index for the shape
    if P.dim() < 1 or P.numel() == 0:
        return None
    # index tensors in two dimensions at once pair up (torch advanced indexing); batch-dim tensors never occur here
    try:
        r = d[idx]
    except Exception as e:
        fails.append({"sub": sub, "symptom": util.exc_str(e), "detail": f"idx={idx!r}", "features": feats})
        return tuple(P.reshape(-1).tolist())
    want_mean = mean[idx]
    rmean, rcov, ne = joint_of_result(r)
    if tuple(rmean.shape) != tuple(want_mean.shape) or util.maxerr(rmean, want_mean) > 1e-12:
        fails.append({"sub": sub, "symptom": f"mean of d[idx] != mean[idx] (shape {tuple(rmean.shape)} vs {tuple(want_mean.shape)})",
                      "detail": f"idx={idx!r}", "features": feats})
        return tuple(P.reshape(-1).tolist())
    # flat covariance over all (batch, point, task) positions, zero across batch elements
    nb = int(torch.Size(bs).numel())
    F = torch.block_diag(*Cint.reshape(nb, n * t, n * t)) if nb > 1 else Cint.reshape(n * t, n * t)
    ev = int(torch.Size(rmean.shape[len(rmean.shape) - ne:]).numel())
    Pf = P.reshape(*P.shape[: P.dim() - ne], ev)
    want = F[Pf.unsqueeze(-1), Pf.unsqueeze(-2)]
    if tuple(rcov.shape) != tuple(want.shape) or util.maxerr(rcov, want) > 1e-10:
        err = util.maxerr(rcov, want) if tuple(rcov.shape) == tuple(want.shape) else float("inf")
        fails.append({"sub": sub, "symptom": f"covariance of d[idx] is not the sub-matrix of the selected (point,task) pairs, err={err:.3e}",
                      "detail": f"idx={idx!r} result={type(r).__name__} cov shape {tuple(rcov.shape)} want {tuple(want.shape)}",
                      "features": feats})
    return tuple(P.reshape(-1).tolist())


def observables(d, mean, Cint, cfg, fails):
    n, t, bs = cfg["n"], cfg["t"], tuple(cfg["b"])
    g = util.gen(0, "c11obs" + util.jdump(cfg))
    ops = 0
    with fails.guard("mean"):
        fails.check_close("mean", d.mean, mean, 1e-12, 0)
        ops += 1
    with fails.guard("variance"):
        var = Cint.diagonal(dim1=-1, dim2=-2).reshape(*bs, n, t)
        fails.check_close("variance", d.variance, var, 1e-12, 1e-12)
        fails.check_close("stddev", d.stddev, var.sqrt(), 1e-12, 1e-12)
        lo, hi = d.confidence_region()
        fails.check_close("confidence_region", torch.stack([lo, hi]), torch.stack([mean - 2 * var.sqrt(), mean + 2 * var.sqrt()]), 1e-10, 1e-12)
        ops += 3
    if tuple(d.event_shape) != (n, t) or tuple(d.batch_shape) != bs or d.num_tasks != t:
        fails.add("shapes", f"event_shape {tuple(d.event_shape)} batch_shape {tuple(d.batch_shape)} num_tasks {d.num_tasks}")
    ref = torch.distributions.MultivariateNormal(mean.reshape(*bs, n * t), Cint)
    for vb in [bs, (3,) + bs]:
        v = util.randn(g, *vb, n, t)
        want = ref.log_prob(v.reshape(*vb, n * t))
        for fast in (True, False):
            with fails.guard(f"log_prob"):
                with gpytorch.settings.fast_computations(log_prob=fast), gpytorch.settings.max_cholesky_size(800):
                    fails.check_close("log_prob", d.log_prob(v), want, 1e-8, 1e-9, f"fast={fast} value batch {vb}")
                ops += 1
    with fails.guard("rsample-basis"):
        E = torch.eye(n * t, dtype=F64).view(n * t, *([1] * len(bs)), n, t).expand(n * t, *bs, n, t)
        S = d.rsample(base_samples=E) - mean
        L = S.reshape(n * t, *bs, n * t).movedim(0, -1)
        fails.check_close("rsample-basis", L @ L.mT, Cint, 1e-8, 1e-9, "columns of x-mean for basis base samples must form L with L L^T = cov")
        z = d.rsample(base_samples=torch.zeros(*bs, n, t, dtype=F64))
        fails.check_close("rsample-zero", z, mean, 1e-12, 0)
        ops += 2
    with fails.guard("base-samples-shape"):
        for ss in [(), (4,), (2, 3)]:
            b = d.get_base_samples(torch.Size(ss))
            if tuple(b.shape) != ss + bs + (n, t):
                fails.add("base-samples-shape", f"get_base_samples({ss}) shape {tuple(b.shape)}")
            x = d.rsample(torch.Size(ss))
            if tuple(x.shape) != ss + bs + (n, t):
                fails.add("rsample-shape", f"rsample({ss}) shape {tuple(x.shape)}")
            ops += 2
    with fails.guard("to_data_independent_dist"):
        di = d.to_data_independent_dist(jitter_val=0.0)
        J = Cint.reshape(*bs, n, t, n, t)
        blk = torch.stack([J[..., i, :, i, :] for i in range(n)], -3)
        fails.check_close("to_data_independent_dist", di.covariance_matrix, blk, 1e-10, 1e-12)
        fails.check_close("to_data_independent_dist", di.mean, mean, 1e-12, 0)
        ops += 1
    # arithmetic inherited from MultivariateNormal: the result is the joint distribution of the transformed variable, whatever the layout
    I = torch.eye(n * t, dtype=F64)
    for name, fn, wm_, wc_ in [("mul", lambda: d * 2.0, mean * 2.0, Cint * 4.0), ("div", lambda: d / 2.0, mean / 2.0, Cint / 4.0),
                               ("add-scalar", lambda: d + 1.0, mean + 1.0, Cint), ("add-dist", lambda: d + d, mean * 2.0, Cint * 2.0),
                               ("sum", lambda: sum([d, d]), mean * 2.0, Cint * 2.0), ("add_jitter", lambda: d.add_jitter(0.3), mean, Cint + 0.3 * I)]:
        with fails.guard("arith-" + name):
            r = fn()
            rm, rc, _ = joint_of_result(r)
            fails.check_close("arith-" + name, rm, wm_, 1e-12, 1e-12, "mean")
            fails.check_close("arith-" + name, rc, wc_.expand(rc.shape), 1e-10, 1e-12, "joint covariance (point, task order)")
            fails.check_close("arith-" + name, r.variance, wc_.diagonal(dim1=-1, dim2=-2).reshape(*bs, n, t).expand(r.variance.shape), 1e-10, 1e-12, "variance")
            ops += 1
    with fails.guard("arith-add-other-layout"):
        # the same joint distribution held in the OTHER layout, added to d
        Cother = Cint if not d._interleaved else Cint.reshape(*bs, n, t, n, t).transpose(-4, -3).transpose(-2, -1).reshape(*bs, n * t, n * t)
        d2 = MT(mean, Cother, interleaved=not d._interleaved)
        for name, r in (("d + other", d + d2), ("other + d", d2 + d)):
            rm, rc, _ = joint_of_result(r)
            fails.check_close("arith-add-other-layout", rm, mean * 2.0, 1e-12, 1e-12, name + ": mean")
            fails.check_close("arith-add-other-layout", rc, (Cint * 2.0).expand(rc.shape), 1e-10, 1e-12, name + ": joint covariance")
        ops += 2
    with fails.guard("expand"):
        e = d.expand(torch.Size((3,) + bs))
        em, ec, _ = joint_of_result(e)
        fails.check_close("expand", em, mean.expand(3, *bs, n, t), 1e-12, 0)
        fails.check_close("expand", ec, Cint.expand(3, *bs, n * t, n * t), 1e-12, 0)
        ops += 1
    return ops


def _lp_chol(d, mean):
    with gpytorch.settings.fast_computations(log_prob=False):
        d.log_prob(mean + 0.1)


WARMUPS = [("variance", lambda d, m: d.variance), ("scale_tril", lambda d, m: d.scale_tril), ("log_prob(cholesky path)", _lp_chol),
           ("log_prob(fast path)", lambda d, m: d.log_prob(m + 0.1)), ("rsample", lambda d, m: d.rsample()),
           ("covariance_matrix", lambda d, m: d.covariance_matrix), ("to_data_independent_dist", lambda d, m: d.to_data_independent_dist()),
           ("getitem", lambda d, m: d[..., 0, :])]


def onehot_layout(cfg, fails):
    """rsample() WITHOUT base samples: only component (i0,a0) has non-negligible variance => sample-mean must be
    supported on (i0,a0) (owned RNG; checks layout of the internally drawn noise)"""
    n, t, bs, inter = cfg["n"], cfg["t"], tuple(cfg["b"]), cfg["inter"]
    ops = 0
    for i0 in range(n):
        for a0 in range(t):
            v = torch.full((n, t), 1e-24, dtype=F64)
            v[i0, a0] = 1.0
            flat = v.reshape(-1) if inter else v.T.reshape(-1)
            C = torch.diag(flat).expand(*bs, n * t, n * t).contiguous()
            mean = torch.arange(n * t, dtype=F64).view(n, t).expand(*bs, n, t).contiguous()
            with fails.guard("rsample-noarg-layout"):
                d = MT(mean, C, interleaved=inter)
                x = d.rsample(torch.Size((2,))) - mean
                ops += 1
                mask = torch.ones(n, t, dtype=torch.bool)
                mask[i0, a0] = False
                if float(x[..., mask].abs().max()) > 1e-6 or float(x[..., i0, a0].abs().min()) < 1e-9:
                    fails.add("rsample-noarg-layout", f"noise of rsample() not on component ({i0},{a0})", f"x-mean={x.tolist()}")
    return ops


def run_cell(cell, seed):
    cfg = cell["cfg"]
    fails = Fails()
    feats = {k: cfg[k] for k in ("n", "t", "inter", "ctor")}
    feats["batch"] = len(cfg["b"])
    built = build(cfg, seed)
    if built is None:
        return {"fails": [], "sig": "unsupported-ctor", "nontrivial": False, "features": feats, "ops": 0}
    d, mean, Cint = built
    ops = 0
    states = []
    if cell["what"] == "observables":
        ops += observables(d, mean, Cint, cfg, fails)
        if cfg["ctor"] == "direct":
            ops += onehot_layout(cfg, fails)
        # short histories: the same observations (and a few index expressions) on a freshly built distribution that has first served
        # another request, which may have cached a factor / a derived tensor
        for wname, wfn in WARMUPS:
            nb = len(fails)
            d2 = build(cfg, seed)[0]
            try:
                wfn(d2, mean)
            except Exception:
                continue  # the request itself is judged in the cold run above
            ops += 1 + observables(d2, mean, Cint, cfg, fails)
            for idx in ((Ellipsis, 0, slice(None)), (Ellipsis, slice(None), -1), (Ellipsis, slice(1, None), slice(None)), (Ellipsis, 0, 0)):
                if check_index(d2, mean, Cint, idx, fails, feats) is not None:
                    ops += 1
            for f in fails[nb:]:
                f["detail"] = f"[after {wname}] " + f.get("detail", "")
        for f in fails:
            f["features"] = feats
        return {"fails": fails, "sig": "obs:" + ",".join(sorted({f["sub"] for f in fails})), "features": feats, "ops": ops,
                "state_digests": [util.digest(cell)]}
    if cell["what"] == "task_dim":
        return task_dim_cell(cell, seed)
    # indexing
    n, t = cfg["n"], cfg["t"]
    has_batch = len(cfg["b"]) > 0
    form, row, bidx = cell["form"], cell["row"], cell["bidx"]
    reduced = cell["reduced"]
    cols = dim_alphabet(t, cell["tier"], reduced) if form in ("full", "e0", "e1", "e2", "ecol") else [["slice", None, None, None]]
    seen_keys = set()
    nsel = 0
    for col in cols:
        idx = assemble(form, bidx, row, col, has_batch)
        f2 = dict(feats, form=form, row_kind=kind(row), col_kind=kind(col), bidx_kind=kind(bidx) if has_batch else "none")
        before = len(fails)
        P = check_index(d, mean, Cint, idx, fails, f2)
        if P is None:
            continue
        ops += 1
        nsel += 1
        states.append(util.digest([cfg, P]))
        # keep one representative failure per (kinds) in a cell
        if len(fails) > before:
            key = (f2["row_kind"], f2["col_kind"], fails[-1]["symptom"][:40])
            if key in seen_keys:
                del fails[before:]
            else:
                seen_keys.add(key)
    return {"fails": fails, "sig": f"idx:{form}:" + ",".join(sorted({f['symptom'][:30] for f in fails})), "features": feats, "ops": ops,
            "nontrivial": nsel > 0, "state_digests": states, "notes": {"index_expressions_in_domain": nsel}}


def task_dim_cell(cell, seed):
    """from_batch_mvn for every task_dim on MVNs with 2 and 3 batch dims (and from_repeated_mvn on batched MVNs)"""
    fails = Fails()
    bsh, td, n = tuple(cell["bsh"]), cell["task_dim"], 3
    g = util.gen(seed, f"c11taskdim{bsh}")
    m = util.randn(g, *bsh, n)
    C = util.spd(g, *bsh, n)
    feats = {"ctor": cell["ctor2"], "task_dim": td, "bsh": list(bsh)}
    with fails.guard("from_batch_mvn-task_dim"):
        if cell["ctor2"] == "from_repeated_mvn":
            d = MT.from_repeated_mvn(MVN(m, C), num_tasks=2)
            t = 2
            want_mean = m.unsqueeze(-1).expand(*bsh, n, t)
            Cexp = C.unsqueeze(-3).expand(*bsh, t, n, n)  # [..., a, :, :]
        else:
            d = MT.from_batch_mvn(MVN(m, C), task_dim=td)
            tdp = td % len(bsh)
            t = bsh[tdp]
            want_mean = m.movedim(tdp, -1)  # rest..., n, t
            Cexp = C.movedim(tdp, -3)  # rest..., t, n, n
        if tuple(d.mean.shape) != tuple(want_mean.shape):
            fails.add("from_batch_mvn-task_dim", f"mean shape {tuple(d.mean.shape)} want {tuple(want_mean.shape)}")
        else:
            fails.check_close("from_batch_mvn-task_dim", d.mean, want_mean, 1e-12, 0, "mean")
            Jd = J_of(d.covariance_matrix, n, t, d._interleaved)
            Jw = torch.zeros_like(Jd)
            for a in range(t):
                Jw[..., :, a, :, a] = Cexp[..., a, :, :]
            fails.check_close("from_batch_mvn-task_dim", Jd, Jw, 1e-12, 0, "joint covariance")
            v = util.randn(g, *want_mean.shape)
            ref = torch.distributions.MultivariateNormal(
                want_mean.reshape(*want_mean.shape[:-2], n * t), Jw.reshape(*Jw.shape[:-4], n * t, n * t)).log_prob(v.reshape(*v.shape[:-2], n * t))
            with gpytorch.settings.fast_computations(log_prob=False):
                fails.check_close("from_batch_mvn-task_dim", d.log_prob(v), ref, 1e-8, 1e-9, "log_prob")
    for f in fails:
        f["features"] = feats
    return {"fails": fails, "sig": "task_dim", "features": feats, "ops": 1}


def cells(tier, seed):
    out = []
    ctors = ["direct", "direct_lazy", "from_batch_mvn", "from_independent_mvns", "from_repeated_mvn"]
    for (n, t), b, inter, ctor in itertools.product(SHAPES, BATCHES, [True, False], ctors):
        if ctor not in ("direct", "direct_lazy") and inter is False:
            continue  # constructors fix their own layout
        cfg = {"n": n, "t": t, "b": list(b), "inter": inter, "ctor": ctor}
        out.append({"what": "observables", "cfg": cfg})
        has_batch = len(b) > 0
        for form in FORMS:
            full = form == "full" and ctor == "direct"
            reduced = not full
            if ctor not in ("direct",) and form not in ("full", "row"):
                continue
            balpha = BATCH_ALPHA if has_batch else [["slice", None, None, None]]
            if form in ("e0", "ecol"):
                balpha = balpha[:1]
            if form == "bare":
                rows = dim_alphabet(n, tier, True) if not has_batch else [["slice", None, None, None]]
            elif form == "ecol":
                rows = [["slice", None, None, None]]
            else:
                rows = dim_alphabet(n, tier, reduced)
            for bidx in balpha:
                # full alphabets only with the full batch slice and one int batch index (batch handling is independent of
                # the event-dimension arithmetic: batch_idx is passed through unchanged)
                red = reduced or (has_batch and bidx not in (BATCH_ALPHA[0], BATCH_ALPHA[2]))
                rws = rows if not red or reduced else dim_alphabet(n, tier, True)
                for row in rws:
                    out.append({"what": "index", "cfg": cfg, "form": form, "row": row, "bidx": bidx, "reduced": red, "tier": tier})
    dummy = {"n": 3, "t": 0, "b": [], "inter": True, "ctor": "from_batch_mvn"}
    for bsh in [(2,), (2, 4), (4, 2), (2, 3, 3), (3, 2, 4), (2, 2, 2, 2)]:
        for td in range(-len(bsh), len(bsh)):
            out.append({"what": "task_dim", "cfg": dummy, "task_dim": td, "bsh": list(bsh), "ctor2": "from_batch_mvn"})
        out.append({"what": "task_dim", "cfg": dummy, "task_dim": 0, "bsh": list(bsh), "ctor2": "from_repeated_mvn"})
    return out
