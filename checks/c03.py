"""C03 — evaluation-mode outputs are history independent (Engine S: BFS over operation sequences on real models).

Oracle (differential, evaluated on EVERY predict transition): the distribution returned by the call equals, under
the same settings and RNG seed, the output of a freshly constructed model of the same class holding the current
training data, whose parameters/buffers were copied tensor by tensor. If an operation raises, the exploration
continues from the resulting state, and (in eval mode) a probe prediction is compared immediately.
"""
import os
import contextlib

import torch

import gpytorch
from gpytorch import settings as S

from gpmc import canon, explorer, models, util
from gpmc.util import Fails

PROPERTY = "C03"
RULE = ("histories = all sequences over the operation alphabet (predict under 9-11 settings contexts x 3 test sets, train/eval, "
        "likelihood train/eval, optimiser step, set_train_data x2, load_state_dict x2, get_fantasy_model, prior_mode call, backward "
        "through a non-detached prediction, zero_grad; variational: kl_divergence, training-mode forward) up to the depth bound per "
        "model family, breadth first with canonical-state deduplication; non-trivial/distinct = distinct canonical state digest reached")
ASSUMPTIONS = ["operations are applied through the public API only; direct parameter edits in eval mode are excluded (as in the property)",
               "iterative contexts run at tolerance 1e-12 / full rank where CG and Lanczos are exact; compared at 1e-6, direct paths at 1e-8",
               "canonical digest is over-fine (never merges states with different futures except through global settings, pinned to defaults)"]

CTX = {
    "default": lambda: [],
    "fpv": lambda: [S.fast_pred_var()],
    "nolazy": lambda: [S.lazily_evaluate_kernels(False)],
    "eager0": lambda: [S.max_eager_kernel_size(0)],
    "attach": lambda: [S.detach_test_caches(False)],
    "skip": lambda: [S.skip_posterior_variances()],
    "cg": lambda: [S.max_cholesky_size(0), S.eval_cg_tolerance(1e-12), S.cg_tolerance(1e-12), S.max_cg_iterations(200),
                   S.max_preconditioner_size(0)],
    "nocorr": lambda: [S.sgpr_diagonal_correction(False)],
    "fps": lambda: [S.fast_pred_samples()],
    "nanmask": lambda: [S.observation_nan_policy("mask")],
    "nanfill": lambda: [S.observation_nan_policy("fill")],
    "nochol_root": lambda: [S.fast_computations(covar_root_decomposition=False)],
    "vjit": lambda: [S.variational_cholesky_jitter(double_value=1e-3)],
    # deliberately coarse approximations (legitimate for the call that asks for them; they must not outlive it)
    "lowrank": lambda: [S.fast_pred_var(), S.max_root_decomposition_size(2), S.max_cholesky_size(0)],
    "loosecg": lambda: [S.max_cholesky_size(0), S.eval_cg_tolerance(0.5), S.max_preconditioner_size(0)],
}
LOOSE = {"cg", "fpv", "fps"}


def alphabet(fam, tier):
    ctxs = ["default", "fpv", "nolazy", "eager0", "attach", "skip", "cg"]
    if fam == "sgpr":
        ctxs.append("nocorr")
    if fam == "kiss":
        ctxs.append("fps")
    if fam in ("exact", "multitask"):
        ctxs += ["nanmask", "nanfill"]
    if fam == "exact":
        ctxs += ["lowrank", "loosecg"]
    if models.is_var(fam):
        ctxs = ["default", "nolazy", "attach", "skip", "cg", "nochol_root", "vjit"]
    ops = [["predict", c, "m3"] for c in ctxs]
    ops += [["predict", "default", "m1"], ["predict", "default", "b2"], ["predict", "fpv", "m1"]]
    if fam == "kiss":
        ops += [["predict", "fpv", "b2"]]
    ops += [["train"], ["eval"], ["step"], ["load", 1], ["load", 0], ["load_partial", 2], ["load_child", 2]]
    if not models.is_var(fam):
        ops += [["set_data", 1], ["set_data", 0], ["set_inputs", 2], ["set_targets", 2], ["fantasy"], ["prior"]]
    else:
        ops += [["kl"], ["train_forward"], ["fantasy"]]
    ops += [["backward"], ["lik_train"], ["lik_eval"], ["zero_grad"]]
    return ops


def core_alphabet(fam):
    """smaller alphabet explored one level deeper: one representative per kind of operation"""
    if models.is_var(fam):
        ops = [["predict", "default", "m3"], ["predict", "skip", "m3"], ["predict", "default", "b2"], ["train"], ["eval"], ["step"],
               ["load", 1], ["kl"], ["train_forward"], ["backward"]]
    else:
        second = {"sgpr": "fpv", "kiss": "fps"}.get(fam, "fpv")
        ops = [["predict", "default", "m3"], ["predict", second, "m3"], ["predict", "default", "m1"], ["train"], ["eval"], ["step"],
               ["load", 1], ["set_data", 1], ["set_inputs", 2], ["fantasy"], ["backward"]]
    return ops


def enabled(hist, shadow, op):
    mode = "eval" if shadow is None else shadow["mode"]
    k = op[0]
    if k in ("predict", "fantasy", "prior", "backward"):
        return mode == "eval"
    if k in ("step", "train_forward"):
        return mode == "train"
    return True


def predict(model, ctx, X, seed):
    with contextlib.ExitStack() as st:
        for c in CTX[ctx]():
            st.enter_context(c)
        torch.manual_seed(seed)
        out = model(X)
        mean = out.mean.detach().clone()
        cov = out.covariance_matrix.detach().clone() if ctx != "skip" else out.lazy_covariance_matrix.to_dense().detach().clone()
        var = out.variance.detach().clone()
    return mean, cov, var


class World:
    def __init__(self, fam, seed):
        self.fam, self.seed = fam, seed
        self.data_idx = 0
        self.custom_X = self.custom_y = None
        self.model = self.fresh_with(models.perturbed_state(fam, seed, 0, models.data(seed, 0, fam)), 0)
        self.mode = "eval"
        self.cache_hits = 0

    def fresh_with(self, sd, data_idx):
        m = models.make(self.fam, self.seed, models.data(self.seed, data_idx, self.fam))
        if models.is_var(self.fam):
            m.eval()
            with torch.no_grad():
                m(models.test_x(self.seed, "m3"))
            m.train()
        with torch.no_grad():
            own = dict(list(m.named_parameters()) + list(m.named_buffers()))
            for k, v in sd.items():
                if k in own:
                    own[k].data = v.detach().clone()
        for mod in m.modules():  # tensors were replaced behind the library's back on a fresh object: drop any cache
            if hasattr(mod, "_clear_cache"):
                mod._clear_cache()
        m.eval()
        return m

    def reference(self):
        ref = models.make(self.fam, self.seed, self.current_data())
        if models.is_var(self.fam):
            ref.eval()
            with torch.no_grad():
                ref(models.test_x(self.seed, "m3"))
            ref.train()
            for mod in ref.modules():
                if hasattr(mod, "_clear_cache"):
                    mod._clear_cache()
        models.copy_into(self.model, ref)
        ref.train(self.model.training)
        ref.likelihood.train(self.model.likelihood.training)
        if not self.model.training:
            ref.eval()
            ref.likelihood.train(self.model.likelihood.training)
        return ref

    def current_data(self):
        X, y = models.data(self.seed, self.data_idx, self.fam)
        if self.custom_X is not None:
            X = self.custom_X
        if self.custom_y is not None:
            y = self.custom_y
        return X, y

    def has_cache(self):
        m = self.model
        if getattr(m, "prediction_strategy", None) is not None:
            return True
        for mod in m.modules():
            if getattr(mod, "_memoize_cache", None):
                return True
            if getattr(mod, "_cached_kernel_mat", None) is not None:
                return True
        return False

    def apply(self, op):
        m, k = self.model, op[0]
        if k == "predict":
            return predict(m, op[1], models.test_x(self.seed, op[2]), util.seed_for(self.seed, "pred"))
        if k == "train":
            m.train()
            self.mode = "train"
        elif k == "eval":
            m.eval()
            self.mode = "eval"
        elif k == "lik_train":
            m.likelihood.train()
        elif k == "lik_eval":
            m.likelihood.eval()
        elif k == "zero_grad":
            m.zero_grad()
        elif k == "set_data":
            X, y = models.data(self.seed, op[1], self.fam)
            m.set_train_data(X, y, strict=False)
            self.data_idx = op[1]
            self.custom_X = self.custom_y = None
        elif k == "set_inputs":  # inputs only (same n), targets kept
            X, _ = models.data(self.seed, op[1], self.fam)
            if X.shape != m.train_inputs[0].shape:
                X = X[: m.train_inputs[0].shape[-2]] if X.shape[-2] >= m.train_inputs[0].shape[-2] else torch.cat([X, X[:1] + 0.37], -2)
            m.set_train_data(inputs=X, strict=False)
            self.custom_X = X
        elif k == "set_targets":
            _, y = models.data(self.seed, op[1], self.fam)
            n = m.train_targets.shape[0]
            y = y[:n] if y.shape[0] >= n else torch.cat([y, y[:1] + 0.11], 0)
            m.set_train_data(targets=y, strict=False)
            self.custom_y = y
        elif k == "load":
            m.load_state_dict(models.perturbed_state(self.fam, self.seed, op[1], models.data(self.seed, 0, self.fam)))
        elif k == "load_child":
            # load_state_dict called on a CHILD module (the kernel) while the parent holds prediction caches computed from it
            sd = models.perturbed_state(self.fam, self.seed, op[1], models.data(self.seed, 0, self.fam))
            m.covar_module.load_state_dict({kk[len("covar_module."):]: v for kk, v in sd.items() if kk.startswith("covar_module.")})
        elif k == "load_partial":
            # only the kernel / mean hyperparameters of another state (strict=False): caches that depend on them live in OTHER modules
            sd = models.perturbed_state(self.fam, self.seed, op[1], models.data(self.seed, 0, self.fam))
            m.load_state_dict({kk: v for kk, v in sd.items() if kk.startswith(("covar_module", "mean_module"))}, strict=False)
        elif k == "step":
            opt = torch.optim.SGD(m.parameters(), lr=0.05)
            opt.zero_grad()
            X, y = self.current_data()
            if models.is_var(self.fam):
                mll = gpytorch.mlls.VariationalELBO(m.likelihood, m, num_data=y.shape[0])
                loss = -mll(m(X), y)
            else:
                mll = gpytorch.mlls.ExactMarginalLogLikelihood(m.likelihood, m)
                loss = -mll(m(*m.train_inputs), m.train_targets)
            loss = loss.sum()
            loss.backward()
            opt.step()
        elif k == "backward":
            with S.detach_test_caches(False):
                out = m(models.test_x(self.seed, "m3"))
                (out.mean.sum() + out.variance.sum()).backward()
        elif k == "fantasy":
            g = util.gen(self.seed, "fant")
            Xf = util.rand(g, 2, 1)
            yf = util.randn(g, 2, 2) if self.fam in ("multitask",) else util.randn(g, 2)
            m.get_fantasy_model(Xf, yf)
        elif k == "prior":
            with S.prior_mode():
                m(models.test_x(self.seed, "m3"))
        elif k == "kl":
            m.variational_strategy.kl_divergence()
        elif k == "train_forward":
            m(self.current_data()[0])
        else:
            raise AssertionError(op)
        return None


COARSE = {"lowrank", "loosecg"}   # deliberately coarse approximations: the call that asks for one is not judged (its value is not defined
#                                     by the property); it is in the alphabet for what it may leave behind for LATER calls


def compare(w, op, got, fails, feats, hist=()):
    if op[1] in COARSE:
        return "coarse-not-judged"
    try:
        ref = w.reference()
    except AssertionError as e:
        fails.append({"sub": "predict-vs-fresh", "symptom": "history model lost parameters/modules a fresh model has: " + str(e)[:150],
                      "detail": "", "features": feats})
        return "lost-params"
    try:
        want = predict(ref, op[1], models.test_x(w.seed, op[2]), util.seed_for(w.seed, "pred"))
    except Exception as e:
        want = e
    # a cache filled on an iterative path (CG / Lanczos at tight tolerance) may legitimately be reused by a later call
    loose = op[1] in LOOSE or any(o[0] == "predict" and o[1] in LOOSE for o in hist) or any(o[0] == "fantasy" for o in hist)
    tol = 1e-4 if loose else 1e-8  # CG at 1e-12 relative residual on ill-conditioned Kronecker systems was measured at 3e-6
    if isinstance(got, Exception) or isinstance(want, Exception):
        if isinstance(got, Exception) and isinstance(want, Exception):
            return "both-raise"  # not history dependent: the fresh model refuses the call in the same way
        who = "history model raises, fresh model predicts" if isinstance(got, Exception) else "fresh model raises, history model predicts"
        e = got if isinstance(got, Exception) else want
        fails.append({"sub": "predict-vs-fresh", "symptom": f"{who}: {util.exc_str(e)}", "detail": "", "features": feats})
        return "raise-mismatch"
    for name, a, b in zip(("mean", "covariance", "variance"), got, want):
        ok, msg = util.close(a, b, tol, tol)
        if not ok:
            fails.append({"sub": "predict-vs-fresh", "symptom": f"{name} differs from the fresh model's: err={msg}",
                          "detail": f"ctx={op[1]} test={op[2]}", "features": feats})
            return "stale"
    return "equal"


def run_history(cell, seed):
    fam, hist = cell["fam"], cell["hist"]
    w = World(fam, seed)
    fails = Fails()
    feats = {"fam": fam, "len": len(hist), "last": hist[-1][0], "last_ctx": hist[-1][1] if hist[-1][0] == "predict" else None,
             "ops": [o[0] + (":" + o[1] if o[0] == "predict" else "") for o in hist]}
    # does one cache epoch (a maximal run of operations without train / eval / load, which drop the memoised factors) contain evaluations
    # under two different variational_cholesky_jitter values?  (feature used by a known finding; a probe after a failed op is a default one)
    epoch, mixed, training = set(), False, False
    for o in hist + [["predict", "default"]]:
        if o[0] == "train" or o[0] in ("load", "load_partial") or (o[0] == "eval" and training):
            epoch = set()   # (eval() on a model that already is in evaluation mode drops nothing)
            training = (o[0] == "train") or (training and o[0] in ("load", "load_partial"))
        elif o[0] in ("predict", "backward", "fantasy", "kl"):
            epoch.add("vjit" if (o[0] == "predict" and o[1] == "vjit") else "std")
            mixed = mixed or len(epoch) == 2
    feats["vjit_mixed_epoch"] = mixed
    # was a child-level load followed by a prediction without an intervening operation that drops the parent's caches?
    stale_child, pending = False, False
    for o in hist + [["predict", "default"]]:
        if o[0] == "load_child":
            pending = True
        elif o[0] in ("train", "load", "load_partial", "set_data", "set_inputs", "set_targets") or (o[0] == "eval" and False):
            pending = False
        elif o[0] in ("predict", "backward", "fantasy", "kl", "prior") and pending:
            stale_child = True
    feats["child_load_then_eval"] = stale_child
    # a coarse prediction earlier in the same cache epoch (no train / eval-from-train / load / set_train_data in between)?
    coarse_epoch, seen_coarse, training2 = False, False, False
    for o in hist:
        if o[0] == "train" or o[0] in ("load", "load_partial", "set_data", "set_inputs", "set_targets") or (o[0] == "eval" and training2):
            seen_coarse = False
            training2 = (o[0] == "train") or (training2 and o[0] != "eval")
        elif o[0] == "predict" and o[1] in COARSE:
            seen_coarse = True
    feats["coarse_earlier_in_epoch"] = seen_coarse and hist[-1][0] == "predict" and hist[-1][1] not in COARSE
    feats["kiss_batched_fpv_first"] = any(o[0] == "predict" and o[1] == "fpv" and len(o) > 2 and o[2] == "b2" for o in hist)
    notes = {}
    sig = "ok"
    for i, op in enumerate(hist):
        last = i == len(hist) - 1
        hit = w.has_cache() if (last and op[0] == "predict") else False
        try:
            out = w.apply(op)
            raised = None
        except Exception as e:  # the library refused / failed the operation
            out, raised = None, e
        if not last:
            continue
        if op[0] == "predict":
            notes["predict_transitions"] = 1
            notes["cache_hits"] = int(hit)
            sig = compare(w, op, raised if raised is not None else out, fails, feats, hist)
        elif raised is not None:
            notes["rejected_transitions"] = 1
            sig = "rejected:" + type(raised).__name__
            feats["raised"] = util.exc_str(raised)[:120]
    digest = canon.digest([w.model, w.data_idx, w.custom_X, w.custom_y])
    if hist[-1][0] != "predict" and w.mode == "eval" and sig.startswith("rejected"):
        # probe right after a failed operation (taken after the digest: the probe is not part of the state)
        op = ["predict", "default", "m3"]
        try:
            out = w.apply(op)
        except Exception as e:
            out = e
        r = compare(w, op, out, fails, dict(feats, probe_after_failed_op=True), hist)
        sig += "|probe:" + r
    return {"fails": fails, "sig": sig, "ops": len(hist), "features": feats, "canon": digest,
            "shadow": {"mode": w.mode}, "notes": notes}


FAMILIES_QUICK = {"exact": 3, "svgp": 3, "kiss": 3, "sgpr": 3, "multitask": 3, "fixednoise": 3, "usvgp": 3, "rff": 2, "gridk": 2,
                  "svgp_nat": 2, "svgp_mf": 2, "lmc": 2}
FAMILIES_THOROUGH = {"exact": 5, "svgp": 5, "kiss": 4, "sgpr": 4, "multitask": 4, "fixednoise": 4, "usvgp": 4, "rff": 4, "gridk": 4,
                     "svgp_nat": 4, "svgp_mf": 4, "lmc": 4, "svgp_delta": 3, "indep_mt": 3, "svgp_trilnat": 3, "gridvar": 3,
                     "orthdec": 3, "matern_ard": 3, "sumprod": 3, "ciq": 3, "batchdec": 3}


def main(ctx):
    fams = FAMILIES_THOROUGH if ctx.tier == "thorough" else FAMILIES_QUICK
    if os.environ.get("VERIF_C03_FAMS"):  # development aid: restrict the run to some families (never set by a MANIFEST command)
        fams = {k: v for k, v in fams.items() if k in os.environ["VERIF_C03_FAMS"].split(",")}
        ctx.cap("restricted to families " + ",".join(fams))
    per = {}
    for fam, depth in fams.items():
        st = explorer.bfs(ctx, "run_history", {"fam": fam}, alphabet(fam, ctx.tier), depth, dedupe=True, enabled=enabled, label=fam)
        per[fam] = {k: st[k] for k in ("depth_completed", "histories", "states", "merged")}
        per[fam]["alphabet"] = len(alphabet(fam, ctx.tier))
        st = explorer.bfs(ctx, "run_history", {"fam": fam}, core_alphabet(fam), depth + 1, dedupe=True, enabled=enabled, label=fam + "/core")
        per[fam + "/core"] = {k: st[k] for k in ("depth_completed", "histories", "states", "merged")}
        per[fam + "/core"]["alphabet"] = len(core_alphabet(fam))
    ctx.extra["per_family"] = per
    ctx.bound = {"depth": dict(fams)}
    ctx.extra["cache_hits"] = ctx.notes.get("cache_hits", 0)
    if ctx.notes.get("cache_hits", 0) == 0:
        ctx.cap("vacuity: no prediction was ever served from an existing cache")
