"""Catalogue of small real GPyTorch models used by the history checks (C03, C04, C16, C18)."""
import torch

import gpytorch
from gpytorch import kernels as K
from gpytorch import variational as V
from gpytorch.distributions import MultitaskMultivariateNormal, MultivariateNormal

from . import util
from .util import F64

EXACT = ["exact", "kiss", "sgpr", "multitask", "fixednoise", "rff", "gridk", "matern_ard", "sumprod", "linearmean"]
VARIATIONAL = ["svgp", "usvgp", "svgp_mf", "svgp_nat", "svgp_delta", "lmc", "indep_mt", "svgp_trilnat", "gridvar", "orthdec", "ciq", "batchdec"]


def data(seed, which, fam="exact", d=1):
    g = util.gen(seed, f"data|{which}|{d}")
    n = {0: 5, 1: 4, 2: 5}[which]
    if fam == "gridk":
        n = 4
        X = torch.linspace(0, 1, n, dtype=F64).unsqueeze(-1) + 0.1 * which
    else:
        X = util.rand(g, n, d)
    if fam in ("fixednoise",):
        n = 5
        X = util.rand(util.gen(seed, f"datafn|{which}"), n, d)
    if fam in ("multitask", "lmc", "indep_mt"):
        y = util.randn(g, X.shape[0], 2)
    else:
        y = util.randn(g, X.shape[0])
    return X, y


def test_x(seed, which, d=1):
    g = util.gen(seed, f"test|{d}")
    Xs = util.rand(g, 3, d)
    if which == "m3":
        return Xs
    if which == "m1":
        return Xs[:1]
    if which == "b2":
        return torch.stack([Xs, Xs.flip(0) * 0.9])
    raise AssertionError(which)


class ExactModel(gpytorch.models.ExactGP):
    def __init__(self, X, y, fam, seed=0, batch_shape=(), noise=None, priors=()):
        # own the library's random initialisations (LinearMean weights, IndexKernel factors, RFF weights, ...)
        torch.manual_seed(util.seed_for(seed, "init|" + fam))
        d = X.shape[-1] if X.dim() > 1 else 1
        bs = torch.Size(batch_shape)
        self.fam = fam
        n = X.shape[-2] if X.dim() > 1 else X.shape[0]
        if fam in ("fixednoise", "fixednoise_learn", "fixednoise_sgpr", "fixednoise_kiss"):
            if noise is None:
                noise = 0.05 + 0.1 * torch.arange(n, dtype=F64) / n
            lik = gpytorch.likelihoods.FixedNoiseGaussianLikelihood(
                noise=noise, learn_additional_noise=(fam == "fixednoise_learn"), batch_shape=bs)
        elif fam in ("multitask", "multitask_r0", "multitask_notask"):
            tp = None
            if "task" in priors:
                tp = gpytorch.priors.LKJCovariancePrior(2, 1.0, gpytorch.priors.SmoothedBoxPrior(0.05, 3.0))
            lik = gpytorch.likelihoods.MultitaskGaussianLikelihood(
                num_tasks=2, rank={"multitask": 1, "multitask_r0": 0, "multitask_notask": 0}[fam],
                has_task_noise=(fam != "multitask_notask"), batch_shape=bs, task_prior=tp)
        else:
            lik = gpytorch.likelihoods.GaussianLikelihood(
                batch_shape=bs, noise_prior=gpytorch.priors.LogNormalPrior(-1.0, 0.5) if "noise" in priors else None)
        super().__init__(X, y, lik)
        P = gpytorch.priors
        self.prior_spec = {}
        shared = P.GammaPrior(2.0, 3.0) if "shared" in priors else None  # ONE prior object registered on two parameters
        self.mean_module = gpytorch.means.ConstantMean(batch_shape=bs, constant_prior=P.NormalPrior(0.0, 2.0) if "const" in priors else None)
        base = K.ScaleKernel(K.RBFKernel(batch_shape=bs, lengthscale_prior=shared or (P.GammaPrior(2.0, 3.0) if "ls" in priors else None)),
                             batch_shape=bs, outputscale_prior=shared or (P.SmoothedBoxPrior(0.1, 4.0) if "os_box" in priors else
                                                                          P.HalfCauchyPrior(1.5) if "os" in priors else None))
        if fam in ("exact", "fixednoise", "fixednoise_learn", "fwdkw"):
            self.covar_module = base
        elif fam in ("kiss", "fixednoise_kiss"):
            self.covar_module = K.ScaleKernel(K.GridInterpolationKernel(K.RBFKernel(), grid_size=10, grid_bounds=[(-0.6, 1.6)] * d))
        elif fam == "kiss_auto":  # no grid_bounds: the grid is fitted to the data it sees (and re-fitted when inputs leave its range)
            self.covar_module = K.ScaleKernel(K.GridInterpolationKernel(K.RBFKernel(), grid_size=10, num_dims=d))
        elif fam == "sgpr":
            g = util.gen(seed, "Z")
            self.covar_module = K.InducingPointKernel(base, inducing_points=util.rand(g, 3, d), likelihood=lik)
        elif fam == "fixednoise_sgpr":  # SGPR with a per-point (heteroskedastic, fixed) noise
            g = util.gen(seed, "Z")
            self.covar_module = K.InducingPointKernel(base, inducing_points=util.rand(g, 3, d), likelihood=lik)
        elif fam == "sgpr2":  # two inducing-point kernels: two added loss terms registered under the same local name
            g = util.gen(seed, "Z")
            self.covar_module = (K.InducingPointKernel(base, inducing_points=util.rand(g, 3, d), likelihood=lik)
                                 + K.InducingPointKernel(K.MaternKernel(nu=1.5), inducing_points=util.rand(g, 2, d), likelihood=lik))
        elif fam in ("multitask", "multitask_r0", "multitask_notask"):
            self.mean_module = gpytorch.means.MultitaskMean(gpytorch.means.ConstantMean(batch_shape=bs), num_tasks=2)
            self.covar_module = K.MultitaskKernel(K.RBFKernel(batch_shape=bs), num_tasks=2, rank=1, batch_shape=bs)
        elif fam == "rff":
            torch.manual_seed(util.seed_for(seed, "rff"))
            self.covar_module = K.ScaleKernel(K.RFFKernel(num_samples=6, num_dims=d))
        elif fam == "gridk":
            grid = [torch.linspace(0, 1, 4, dtype=F64)]
            self.covar_module = K.ScaleKernel(K.GridKernel(K.RBFKernel(), grid=grid))
        elif fam == "matern_ard":
            self.covar_module = K.ScaleKernel(K.MaternKernel(nu=1.5, ard_num_dims=d, batch_shape=bs), batch_shape=bs)
        elif fam == "matern05":
            self.covar_module = K.ScaleKernel(K.MaternKernel(nu=0.5, batch_shape=bs), batch_shape=bs)
        elif fam == "matern25_ard":
            self.covar_module = K.ScaleKernel(K.MaternKernel(nu=2.5, ard_num_dims=d, batch_shape=bs), batch_shape=bs)
        elif fam == "sumprod":
            self.covar_module = K.ScaleKernel(K.RBFKernel(batch_shape=bs), batch_shape=bs) + K.LinearKernel(batch_shape=bs) * K.PeriodicKernel(batch_shape=bs)
        elif fam == "sharedbase":   # ONE kernel object (carrying the lengthscale prior) used in two places of a composite kernel
            rbf = K.RBFKernel(batch_shape=bs, lengthscale_prior=P.GammaPrior(2.0, 3.0) if "ls" in priors else None)
            self.covar_module = K.ScaleKernel(rbf, batch_shape=bs) + K.ScaleKernel(rbf, batch_shape=bs) * K.LinearKernel(batch_shape=bs)
        elif fam == "linearmean":
            self.mean_module = gpytorch.means.LinearMean(d, batch_shape=bs)
            self.covar_module = base
        elif fam == "zeromean":
            self.mean_module = gpytorch.means.ZeroMean(batch_shape=bs)
            self.covar_module = base
        else:
            raise AssertionError(fam)

    def forward(self, x, scale=None):
        m, c = self.mean_module(x), self.covar_module(x)
        if scale is not None:  # a keyword argument of forward() that changes the prior (family "fwdkw")
            m, c = m + (scale - 1.0), c * scale
        if self.fam.startswith("multitask"):
            return MultitaskMultivariateNormal(m, c)
        return MultivariateNormal(m, c)


class VarModel(gpytorch.models.ApproximateGP):
    def __init__(self, fam, seed=0, d=1, M=3):
        torch.manual_seed(util.seed_for(seed, "init|" + fam))
        self.fam = fam
        g = util.gen(seed, "Zv")
        Z = util.rand(g, M, d)
        bs = torch.Size([])
        if fam in ("lmc", "indep_mt"):
            bs = torch.Size([2])
            Z = util.rand(g, 2, M, d)
        dist = {"svgp": V.CholeskyVariationalDistribution, "usvgp": V.CholeskyVariationalDistribution,
                "svgp_mf": V.MeanFieldVariationalDistribution, "svgp_nat": V.NaturalVariationalDistribution,
                "svgp_delta": V.DeltaVariationalDistribution, "lmc": V.CholeskyVariationalDistribution,
                "indep_mt": V.CholeskyVariationalDistribution, "svgp_trilnat": V.TrilNaturalVariationalDistribution,
                "gridvar": V.CholeskyVariationalDistribution, "orthdec": V.DeltaVariationalDistribution,
                "ciq": V.CholeskyVariationalDistribution, "batchdec": V.CholeskyVariationalDistribution}[fam]
        if fam == "gridvar":
            vd = dist(8)
            strat = V.GridInterpolationVariationalStrategy(self, grid_size=8, grid_bounds=[(-0.6, 1.6)], variational_distribution=vd)
        elif fam == "orthdec":
            cov_strat = V.VariationalStrategy(self, Z, V.CholeskyVariationalDistribution(M), learn_inducing_locations=True)
            strat = V.OrthogonallyDecoupledVariationalStrategy(cov_strat, util.rand(g, 4, d), dist(4))
        else:
            vd = dist(M, batch_shape=bs)
            base = {"usvgp": V.UnwhitenedVariationalStrategy, "ciq": V.CiqVariationalStrategy,
                    "batchdec": V.BatchDecoupledVariationalStrategy}.get(fam, V.VariationalStrategy)
            strat = base(self, Z, vd, learn_inducing_locations=True)
            if fam == "lmc":
                strat = V.LMCVariationalStrategy(strat, num_tasks=2, num_latents=2, latent_dim=-1)
            elif fam == "indep_mt":
                strat = V.IndependentMultitaskVariationalStrategy(strat, num_tasks=2)
        super().__init__(strat)
        self.mean_module = gpytorch.means.ConstantMean(batch_shape=bs)
        self.covar_module = K.ScaleKernel(K.RBFKernel(batch_shape=bs), batch_shape=bs)
        if fam in ("lmc", "indep_mt"):
            self.likelihood = gpytorch.likelihoods.MultitaskGaussianLikelihood(num_tasks=2)
        else:
            self.likelihood = gpytorch.likelihoods.GaussianLikelihood()

    def forward(self, x):
        return MultivariateNormal(self.mean_module(x), self.covar_module(x))


def is_var(fam):
    return fam in VARIATIONAL


def make(fam, seed, dat=None, batch_shape=()):
    if is_var(fam):
        return VarModel(fam, seed)
    X, y = dat
    return ExactModel(X, y, fam, seed, batch_shape=batch_shape)


def perturb_(m, seed, key):
    """in place: generic distinct raw-parameter values (every entry different, so batch cross-talk cannot cancel)"""
    g = util.gen(seed, f"perturb|{key}")
    with torch.no_grad():
        for k, p in sorted(m.named_parameters()):
            p.add_(0.4 * util.randn(g, *p.shape) if p.dim() > 0 else 0.4 * util.randn(g, 1)[0])
    return m


def perturbed_state(fam, seed, j, dat=None):
    """a deterministic generic parameter valuation: state_dict of a fresh model with every float entry perturbed
    inside its constraint (raw parameters: any real value is legal)"""
    m = make(fam, seed, dat)
    if is_var(fam):
        m.eval()
        with torch.no_grad():
            m(test_x(seed, "m3"))  # initialises variational parameters
    g = util.gen(seed, f"theta|{fam}|{j}")
    sd = {k: v.clone() for k, v in m.state_dict().items()}
    for k, v in sd.items():
        if not v.dtype.is_floating_point or "bound" in k or k.endswith(("grid_0", "grid_1")) or "randn_weights" in k or "grid" in k:
            continue
        if "prior" in k:
            continue
        scale = 0.3
        pert = scale * util.randn(g, *v.shape) if v.dim() > 0 else scale * util.randn(g, 1)[0]
        if "chol_variational_covar" in k:
            nv = torch.tril(v + 0.2 * pert) + torch.eye(v.shape[-1], dtype=F64) * 0.5
        elif "_variational_stddev" in k:
            nv = (v + 0.2 * pert).abs() + 0.3
        elif "natural_mat" in k or "natural_tril_mat" in k:
            nv = v  # keep a valid natural parameter
        elif "inducing_points" in k:
            nv = v + 0.05 * pert
        else:
            nv = v + pert
        sd[k] = nv.to(v.dtype)
    return sd


def copy_into(src, dst):
    """copy parameters and buffers tensor-by-tensor (not via load_state_dict: C03 must not lean on C18)"""
    s = dict(list(src.named_parameters()) + list(src.named_buffers()))
    d = dict(list(dst.named_parameters()) + list(dst.named_buffers()))
    assert set(s) == set(d), (sorted(set(s) ^ set(d)))
    with torch.no_grad():
        for k, v in s.items():
            if d[k].shape != v.shape:
                d[k].data = v.detach().clone()
            else:
                d[k].data.copy_(v.detach())
