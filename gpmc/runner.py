"""Runner: ./check <ID> quick|thorough [--replay file]

A check module (checks/cXX.py) provides
    PROPERTY   = "CXX"
    RULE       = "<how cells are enumerated, what makes one non-trivial>"
    ASSUMPTIONS = [...]
and either
    cells(tier, seed) -> list of JSON-able cell dicts        (Engine G; full product, deterministic)
    run_cell(cell, seed) -> result dict                      (executed in a worker on the real code)
or
    main(ctx)                                               (Engine S or mixed; uses ctx.map / gpmc.explorer)

result dict: {"fails": [ {sub, symptom, detail} ], "sig": <outcome signature>, "ops": <#real API operations>,
              "features": {...}, "nontrivial": bool, optional "canon": digest, "notes": {...counters}}
"""
import collections
import importlib
import json
import multiprocessing as mp
import os
import subprocess
import sys
import time
import traceback

ROOT = os.path.dirname(os.path.dirname(os.path.abspath(__file__)))
sys.path.insert(0, ROOT)

from gpmc import findings, util  # noqa: E402

NPROC = int(os.environ.get("VERIF_NPROC", "16"))


def _exec(args):
    modname, fname, cell, seed = args
    import torch

    mod = importlib.import_module(modname)
    util.settings_restore()
    torch.set_default_dtype(torch.float64)
    util.own_rng(seed, util.jdump(cell))
    t0 = time.time()
    try:
        res = getattr(mod, fname)(cell, seed)
    except BaseException as e:  # harness bug or unguarded library exception
        if isinstance(e, (KeyboardInterrupt, SystemExit)):
            raise
        res = {"fails": [{"sub": "harness", "symptom": util.exc_str(e),
                          "detail": "".join(traceback.format_exc()[-1500:])}], "sig": "harness-exception"}
    res.setdefault("fails", [])
    res.setdefault("sig", "ok" if not res["fails"] else "fail")
    res.setdefault("ops", 1)
    res.setdefault("features", {})
    res.setdefault("nontrivial", True)
    leak = util.settings_diff()
    if leak:
        util.settings_restore()
        if not getattr(mod, "ALLOW_SETTINGS_LEAK", False):
            res["fails"].append({"sub": "settings-leak", "symptom": "global settings not at defaults after cell: "
                                 + util.jdump(leak)[:200], "detail": ""})
    torch.set_default_dtype(torch.float64)
    res["wall"] = time.time() - t0
    return res


class Ctx:
    def __init__(self, modname, mod, tier, seed):
        self.modname, self.mod, self.tier, self.seed = modname, mod, tier, seed
        self.pool = None
        self.t0 = time.time()
        self.evaluations = 0
        self.transitions = 0
        self.states = set()
        self.sigs = collections.Counter()
        self.nontrivial = set()
        self.samples = []
        self.fail_records = []  # (cell, fail)
        self.notes = collections.Counter()
        self.caps_hit = []
        self.exhaustive = True
        self.extra = {}
        self.bound = {}
        self.fn_of_cell = {}

    # -- parallel map over cells, executed on the real implementation in long-lived workers
    def map(self, fname, cells, record=True, chunksize=None):
        cells = list(cells)
        if not cells:
            return []
        jobs = [(self.modname, fname, c, self.seed) for c in cells]
        if NPROC <= 1 or len(cells) < 4:
            results = [_exec(j) for j in jobs]
        else:
            if self.pool is None:
                self.pool = mp.get_context("fork").Pool(NPROC)
            cs = chunksize or max(1, min(64, len(jobs) // (NPROC * 8)))
            if os.environ.get("VERIF_FAILFAST"):
                # development aid (tools/mutsweep.py): stop at the first unlisted fail instead of finishing the exploration
                kf, prop = findings.load(), self.mod.PROPERTY
                results = []
                for c, r in zip(cells, self.pool.imap(_exec, jobs, chunksize=min(cs, 8))):
                    results.append(r)
                    for f in r["fails"]:
                        feats = dict(r.get("features") or {}, **(f.get("features") or {}))
                        if findings.match(kf, prop, feats, f) is None:
                            print(f"VIOLATION property={prop} replay=- (fail-fast)\n   sub={f['sub']} symptom={f['symptom'][:200]}", flush=True)
                            self.pool.terminate()
                            os._exit(1)
            else:
                results = self.pool.map(_exec, jobs, chunksize=cs)
        if record:
            for c, r in zip(cells, results):
                self.record(fname, c, r)
        return results

    def record(self, fname, cell, res):
        self.evaluations += 1
        self.transitions += int(res.get("ops", 1))
        if "state_digests" in res:
            self.states.update(res["state_digests"])
        else:
            self.states.add(res.get("canon") or util.digest(cell))
        self.sigs[str(res.get("sig"))] += 1
        if res.get("nontrivial", True):
            self.nontrivial.add(str(res.get("sig")) + "|" + util.digest(res.get("features") or cell))
        for k, v in (res.get("notes") or {}).items():
            self.notes[k] += v
        if len(self.samples) < 6 and (self.evaluations in (1, 2) or self.evaluations % 997 == 0):
            self.samples.append({"cell": cell, "sig": res.get("sig")})
        for f in res["fails"]:
            feats = dict(res.get("features") or {}, **(f.get("features") or {}))
            self.fail_records.append((fname, cell, feats, f))

    def cap(self, what):
        self.caps_hit.append(what)
        self.exhaustive = False

    def close(self):
        if self.pool is not None:
            self.pool.close()
            self.pool.join()
            self.pool = None


def _write_replay(prop, fname, cell, seed, fail, features):
    d = os.path.join(ROOT, "replays", prop)
    os.makedirs(d, exist_ok=True)
    body = {"property": prop, "fn": fname, "cell": cell, "seed": seed, "features": features, "fail": fail}
    p = os.path.join(d, util.digest({"fn": fname, "cell": cell, "sub": fail["sub"]}) + ".json")
    with open(p, "w") as fh:
        json.dump(body, fh, indent=1, sort_keys=True, default=str)
    return p


def _confirm_fresh(prop, path):
    """re-execute one failing cell in a fresh process; returns True if it fails the same way"""
    try:
        out = subprocess.run([os.path.join(ROOT, "check"), prop, "--replay", path, "--quiet"],
                             capture_output=True, text=True, timeout=600)
        return out.returncode == 1
    except Exception:
        return False


def replay(prop, mod, path, quiet=False):
    body = json.load(open(path))
    res = _exec((mod.__name__, body["fn"], body["cell"], body["seed"]))
    want = body["fail"]
    same = [f for f in res["fails"] if f["sub"] == want["sub"]]
    if not quiet:
        print(f"replay {path}: cell={util.jdump(body['cell'])[:400]}")
        for f in res["fails"]:
            print(f"  FAIL sub={f['sub']} symptom={f['symptom']}\n    {f['detail'][:400]}")
        if not res["fails"]:
            print("  cell passes on the current tree")
    kf = findings.load()
    unlisted = [f for f in same if findings.match(
        kf, prop, dict(res.get("features") or body.get("features") or {}, **(f.get("features") or {})), f) is None]
    if unlisted:
        print(f"VIOLATION property={prop} replay={path}")
        return 1
    return 0


def main(argv):
    if len(argv) < 2:
        print(__doc__)
        return 2
    prop = argv[0].upper()
    modname = "checks." + prop.lower()
    mod = importlib.import_module(modname)
    if argv[1] == "--replay":
        return replay(prop, mod, argv[2], quiet="--quiet" in argv)
    tier = argv[1]
    assert tier in ("quick", "thorough"), tier
    seed = int(os.environ.get("VERIF_SEED", "0"))
    ctx = Ctx(modname, mod, tier, seed)
    t0 = time.time()
    try:
        if hasattr(mod, "main"):
            mod.main(ctx)
        else:
            cells = mod.cells(tier, seed)
            ctx.extra["cells_enumerated"] = len(cells)
            ctx.map("run_cell", cells)
    finally:
        ctx.close()
    wall = time.time() - t0

    kf = findings.load()
    matched = collections.OrderedDict()
    unlisted = []
    for fname, cell, feats, f in ctx.fail_records:
        m = findings.match(kf, prop, feats, f)
        if m is None:
            unlisted.append((fname, cell, feats, f))
        else:
            matched.setdefault(m["id"], [m, 0])
            matched[m["id"]][1] += 1
    for m, cnt in matched.values():
        print(f"KNOWN-FINDING: property={prop} {m['id']}: {m['what']} ({cnt} cells)")

    # violations: simplest first (enumeration order), confirm the first few in a fresh process
    vio_paths = []
    harness_err = False
    seen_keys = set()
    for i, (fname, cell, feats, f) in enumerate(unlisted):
        key = (f["sub"], f["symptom"][:60])
        if len(vio_paths) >= 25 and key in seen_keys:
            continue
        if len(vio_paths) >= 60:
            break
        seen_keys.add(key)
        p = _write_replay(prop, fname, cell, seed, f, feats)
        if len(vio_paths) < 2 and os.environ.get("VERIF_NO_CONFIRM") != "1":
            if not _confirm_fresh(prop, p):
                print(f"HARNESS-ERROR property={prop} failure did not reproduce in a fresh process: {p}")
                harness_err = True
                continue
        vio_paths.append(p)
        print(f"VIOLATION property={prop} replay={p}")
        print(f"   sub={f['sub']} symptom={f['symptom'][:160]} cell={util.jdump(cell)[:200]}")

    distinct_outcomes = len(ctx.sigs)
    ev = {
        "property_id": prop, "tier": tier, "seed": seed, "level": "model_checking",
        "coverage": {
            "states": len(ctx.states), "transitions": ctx.transitions,
            "traces_validated_against_impl": ctx.evaluations,
            "samples": ctx.samples[:6] or [{"note": "no cells"}],
            "evaluations": ctx.evaluations, "distinct_nontrivial": len(ctx.nontrivial),
            "rule": getattr(mod, "RULE", ""), "distinct_outcomes": distinct_outcomes,
            "outcome_histogram": dict(ctx.sigs.most_common(12)),
            "exhaustive": bool(ctx.exhaustive), "caps_hit": ctx.caps_hit, "bound": ctx.bound,
            "counters": dict(ctx.notes), "known_findings_matched": {k: v[1] for k, v in matched.items()},
            "unlisted_violations": len(unlisted), **ctx.extra,
        },
        "assumptions": list(getattr(mod, "ASSUMPTIONS", [])),
        "wall_s": round(wall, 2), "violations": len(unlisted),
    }
    os.makedirs(os.path.join(ROOT, "evidence"), exist_ok=True)
    with open(os.path.join(ROOT, "evidence", prop + ".json"), "w") as fh:
        json.dump(ev, fh, indent=1, sort_keys=True, default=str)
    print(f"[{prop} {tier} seed={seed}] cells/executions={ctx.evaluations} states={len(ctx.states)} "
          f"transitions={ctx.transitions} distinct_outcomes={distinct_outcomes} "
          f"known={sum(v[1] for v in matched.values())} unlisted={len(unlisted)} exhaustive={ctx.exhaustive} "
          f"wall={wall:.1f}s")
    if harness_err and not vio_paths:
        return 3
    # vacuity self-check
    if ctx.evaluations == 0:
        print(f"HARNESS-ERROR property={prop} explored nothing")
        return 3
    return 1 if unlisted else 0


if __name__ == "__main__":
    sys.exit(main(sys.argv[1:]))
