"""Dense float64 Gaussian algebra (reference side of C01/C02/C04/C09/C14/C15/C16)."""
import math

import torch


def sym(A):
    return 0.5 * (A + A.mT)


def conditional(Kxx_S, Ksx, Kss, mx, ms, y):
    """posterior mean/cov of f* | y with (Kxx+S) given; batch-broadcasting"""
    resid = (y - mx).unsqueeze(-1)
    alpha = torch.linalg.solve(Kxx_S, resid)
    mean = ms + (Ksx @ alpha).squeeze(-1)
    cov = Kss - Ksx @ torch.linalg.solve(Kxx_S, Ksx.mT)
    return mean, cov


def gauss_logpdf(y, m, C):
    """log N(y; m, C), batch-broadcasting over leading dims"""
    n = y.shape[-1]
    L = torch.linalg.cholesky(sym(C))
    r = (y - m).unsqueeze(-1)
    z = torch.linalg.solve_triangular(L, r, upper=False).squeeze(-1)
    return -0.5 * (z * z).sum(-1) - L.diagonal(dim1=-1, dim2=-2).log().sum(-1) - 0.5 * n * math.log(2 * math.pi)


def kl_mvn(m0, C0, m1, C1):
    """KL(N(m0,C0) || N(m1,C1))"""
    k = m0.shape[-1]
    C1i = torch.linalg.inv(C1)
    d = (m1 - m0).unsqueeze(-1)
    tr = (C1i @ C0).diagonal(dim1=-1, dim2=-2).sum(-1)
    quad = (d.mT @ C1i @ d).squeeze(-1).squeeze(-1)
    return 0.5 * (tr + quad - k + torch.logdet(C1) - torch.logdet(C0))
