"""Reference log densities of the priors exported by gpytorch.priors, and reference constraint transforms (C17).

Plain numpy / scipy / closed forms. Nothing here imports gpytorch or linear_operator.

Every `logpdf_*` takes numpy arrays (broadcasting like the distributions do) and returns the *elementwise* (univariate
priors) or per-event (multivariate priors) log density.
"""
import math

import numpy as np
from scipy import integrate, special, stats


# ------------------------------------------------------------------------------------------------------------------
# univariate priors: documented densities
def logpdf_normal(x, loc, scale):
    return stats.norm(loc=loc, scale=scale).logpdf(x)


def logpdf_lognormal(x, loc, scale):
    # X = exp(N(loc, scale^2))
    return stats.lognorm(s=scale, scale=np.exp(loc)).logpdf(x)


def logpdf_gamma(x, concentration, rate):
    # docstring: beta^alpha / Gamma(alpha) * x^(alpha - 1) * exp(-beta * x)
    x, a, b = np.broadcast_arrays(np.asarray(x, float), np.asarray(concentration, float), np.asarray(rate, float))
    return a * np.log(b) - special.gammaln(a) + (a - 1) * np.log(x) - b * x


def logpdf_halfnormal(x, scale):
    # docstring: 2 * (2 pi scale^2)^-0.5 * exp(-x^2 / (2 scale^2)) for x >= 0
    return stats.halfnorm(scale=scale).logpdf(x)


def logpdf_halfcauchy(x, scale):
    return stats.halfcauchy(scale=scale).logpdf(x)


def logpdf_uniform(x, a, b):
    return stats.uniform(loc=a, scale=np.asarray(b) - np.asarray(a)).logpdf(x)


def logpdf_smoothed_box(x, a, b, sigma):
    """per coordinate: flat on [a, b], Gaussian tails of standard deviation sigma outside, normalised:
    p(x) = exp(-d(x, [a,b])^2 / (2 sigma^2)) / ((b - a) + sqrt(2 pi) sigma).
    (The class docstring says pdf(x) ~ exp(-d^2 / sqrt(2 sigma^2)); the parameter is called sigma, the tails are documented in the
    code as a Normal(0, sigma) and `_M` as 'normalization factor to make this a probability distribution'. The Gaussian reading is
    the only one under which the stated normalisation holds, so that is the reference.)  Returns the per-coordinate log density;
    the event (last) dimension is summed by the caller."""
    x, a, b, sigma = np.broadcast_arrays(np.asarray(x, float), np.asarray(a, float), np.asarray(b, float), np.asarray(sigma, float))
    d = np.maximum(np.maximum(a - x, x - b), 0.0)
    return -0.5 * (d / sigma) ** 2 - np.log((b - a) + math.sqrt(2 * math.pi) * sigma)


def logpdf_horseshoe_doc(x, scale):
    """the docstring's definition: pdf(x) ~ (lb(x) + ub(x)) / 2, lb = K/2 log(1 + 4 (scale/x)^2), ub = K log(1 + 2 (scale/x)^2),
    K = 1 / sqrt(2 pi^3). No normalisation is claimed for scale != 1."""
    x, scale = np.broadcast_arrays(np.asarray(x, float), np.asarray(scale, float))
    K = 1.0 / math.sqrt(2 * math.pi ** 3)
    A = (scale / x) ** 2
    return np.log((K / 2 * np.log1p(4 * A) + K * np.log1p(2 * A)) / 2)


def horseshoe_true_pdf(x, scale=1.0):
    """the exact horseshoe density: int_0^inf N(x | 0, (lam*scale)^2) * 2 / (pi (1 + lam^2)) dlam  (Carvalho et al. 2010)"""
    f = lambda lam: stats.norm(scale=lam * scale).pdf(x) * 2.0 / (math.pi * (1 + lam * lam))  # noqa: E731
    return integrate.quad(f, 0, np.inf, limit=400)[0]


# ------------------------------------------------------------------------------------------------------------------
# multivariate
def logpdf_mvn(x, loc, cov):
    return stats.multivariate_normal(mean=np.asarray(loc, float), cov=np.asarray(cov, float)).logpdf(np.asarray(x, float))


def lkj_log_normaliser(n, eta):
    """log of c_n(eta) with  int |Sigma|^(eta-1) dSigma = c_n(eta) over n x n correlation matrices (LKJ 2009, eq. 16)"""
    s = 0.0
    for k in range(1, n):
        b = eta + (n - 1 - k) / 2.0
        s += (2 * eta - 2 + n - k) * (n - k) * math.log(2.0) + (n - k) * special.betaln(b, b)
    return s


def lkj_corr_unnormalised(Sigma, eta):
    """documented density over correlation matrices up to a constant: |Sigma|^(eta - 1)"""
    sign, ld = np.linalg.slogdet(np.asarray(Sigma, float))
    return (np.asarray(eta, float) - 1.0) * ld


def lkj_cholesky_unnormalised(L, eta):
    """density over the Cholesky factor L of a correlation matrix whose push-forward to Sigma = L L^T is ~ |Sigma|^(eta-1):
    prod_{i=2..n} L_ii^(n - i + 2 eta - 2)   (Jacobian of L -> L L^T on unit-norm rows is prod L_ii^(n-i))"""
    L = np.asarray(L, float)
    n = L.shape[-1]
    d = np.diagonal(L, axis1=-2, axis2=-1)
    i = np.arange(1, n + 1)
    expo = n - i + 2 * np.asarray(eta, float)[..., None] - 2
    return (expo[..., 1:] * np.log(d[..., 1:])).sum(-1)


def quad_mass(logpdf, lo, hi, points=None):
    """int_lo^hi exp(logpdf(x)) dx by adaptive quadrature (splits at `points`)"""
    f = lambda t: float(np.exp(logpdf(t)))  # noqa: E731
    if points:
        pts = sorted(p for p in points if lo < p < hi)
        edges = [lo] + pts + [hi]
        return sum(integrate.quad(f, a, b, limit=400, epsabs=1e-13, epsrel=1e-11)[0] for a, b in zip(edges[:-1], edges[1:]))
    return integrate.quad(f, lo, hi, limit=400, epsabs=1e-13, epsrel=1e-11)[0]


# ------------------------------------------------------------------------------------------------------------------
# reference constraint transforms (numpy, float64): value = lower/upper-affine image of sigmoid / softplus / exp
def ref_sigmoid(x):
    return special.expit(x)


def ref_softplus(x):
    return np.logaddexp(0.0, x)


def ref_inv_softplus(y):
    # log(exp(y) - 1) = y + log(1 - exp(-y))
    y = np.asarray(y, float)
    with np.errstate(all="ignore"):
        return y + np.log(-np.expm1(-y))


def ref_inv_sigmoid(s):
    with np.errstate(all="ignore"):
        return special.logit(s)


def ref_transform(kind, lo, hi, raw):
    """kind in {'none', 'sigmoid', 'softplus', 'exp'}; which bound is finite decides the family:
    both finite: lo + (hi - lo) f(raw);  only lo finite: lo + f(raw);  only hi finite: hi - f(-raw)."""
    raw = np.asarray(raw, float)
    lo, hi = np.asarray(lo, float), np.asarray(hi, float)
    if kind == "none":
        return raw + 0.0
    f = {"sigmoid": ref_sigmoid, "softplus": ref_softplus, "exp": np.exp}[kind]
    with np.errstate(all="ignore"):
        both = np.isfinite(lo) & np.isfinite(hi)
        only_lo = np.isfinite(lo) & ~np.isfinite(hi)
        lo0 = np.where(np.isfinite(lo), lo, 0.0)
        hi0 = np.where(np.isfinite(hi), hi, 0.0)
        out = np.where(both, lo0 + (hi0 - lo0) * f(raw), np.where(only_lo, lo0 + f(raw), hi0 - f(-raw)))
    return out


def ref_inverse(kind, lo, hi, val):
    val = np.asarray(val, float)
    lo, hi = np.asarray(lo, float), np.asarray(hi, float)
    if kind == "none":
        return val + 0.0
    g = {"sigmoid": ref_inv_sigmoid, "softplus": ref_inv_softplus, "exp": lambda t: np.log(t)}[kind]
    with np.errstate(all="ignore"):
        both = np.isfinite(lo) & np.isfinite(hi)
        only_lo = np.isfinite(lo) & ~np.isfinite(hi)
        lo0 = np.where(np.isfinite(lo), lo, 0.0)
        hi0 = np.where(np.isfinite(hi), hi, 0.0)
        w = np.where(both, hi0 - lo0, 1.0)
        out = np.where(both, g((val - lo0) / w), np.where(only_lo, g(val - lo0), -g(hi0 - val)))
    return out
