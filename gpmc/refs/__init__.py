"""Reference models: plain float64 torch / numpy / scipy. May not import linear_operator or call GPyTorch linear algebra."""
