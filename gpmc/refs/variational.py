"""Dense float64 references for sparse variational GPs (reference side of C14 / C15).

Plain torch only: nothing here imports gpytorch or linear_operator. Everything broadcasts over leading batch dimensions.

Notation (property C14): inducing values u = f(Z), prior p(u) = N(mz, Kzz), q(u) = N(m_u, S_u) (S_u = None: a point mass at m_u),
Ktz = Kzz + (documented jitter) I is the matrix the strategies factorise; whitened strategies parameterise u = mz + R e with
R R^T = Ktz (R = lower Cholesky factor, or the symmetric square root for contour-integral quadrature) and q(e) = N(m, S).
"""
import math

import torch

from .dense import gauss_logpdf, kl_mvn, sym

F64 = torch.float64


def eye_like(K):
    return torch.eye(K.shape[-1], dtype=K.dtype)


def add_jitter(K, j):
    return K + j * eye_like(K)


def matvec(A, v):
    return (A @ v.unsqueeze(-1)).squeeze(-1)


def chol(A):
    return torch.linalg.cholesky(sym(A))


def sym_sqrt(A):
    w, V = torch.linalg.eigh(sym(A))
    return (V * w.clamp_min(0).sqrt().unsqueeze(-2)) @ V.mT


def whitening_factor(Ktz, kind="chol"):
    """R with R R^T = Ktz: 'chol' lower Cholesky factor, 'sym' symmetric square root"""
    return chol(Ktz) if kind == "chol" else sym_sqrt(Ktz)


def unwhiten(mz, R, m, S):
    """moments of u = mz + R e for e ~ N(m, S) (S None: point mass)"""
    m_u = mz + matvec(R, m)
    S_u = None if S is None else R @ S @ R.mT
    return m_u, S_u


def predictive(Kxx, Kxz, Ktz, mx, mz, m_u, S_u):
    """q(f) = int p(f | u) q(u) du:  mean mx + Kxz Ktz^-1 (m_u - mz),  cov Kxx - Kxz Ktz^-1 (Ktz - S_u) Ktz^-1 Kzx"""
    A = torch.linalg.solve(sym(Ktz), Kxz.mT)  # M x n
    mean = mx + matvec(A.mT, m_u - mz)
    mid = Ktz if S_u is None else Ktz - S_u
    cov = Kxx - A.mT @ mid @ A
    return mean, cov


def kl_q_p(m_u, S_u, m_p, C_p):
    """KL(q || p) for Gaussian q; for a point mass q the library documents the convention 'KL'(delta_m || p) := -log p(m)"""
    if S_u is None:
        return -gauss_logpdf(m_u, m_p, C_p)
    return kl_mvn(m_u, S_u, m_p, C_p)


# ------------------------------------------------------------------------------------------------------------------
# variational distributions: documented parameter -> moment maps
def moments(kind, P):
    """(mean, covariance | None) encoded by the parameters P (dict) of a variational distribution class
    Cholesky: m, L -> N(m, tril(L) tril(L)^T);  MeanField: m, s -> N(m, diag s^2);  Delta: m -> point mass;
    Natural: theta1, Theta2 -> Sigma = (-2 Theta2)^-1, mu = Sigma theta1;
    TrilNatural: theta1, T (Theta2 = -1/2 T^T T) -> Sigma = (T^T T)^-1, mu = Sigma theta1"""
    if kind == "Cholesky":
        L = torch.tril(P["chol"])
        return P["mean"], L @ L.mT
    if kind == "MeanField":
        return P["mean"], torch.diag_embed(P["std"] ** 2)
    if kind == "Delta":
        return P["mean"], None
    if kind == "Natural":
        Sg = torch.linalg.inv(sym(-2.0 * P["nat_mat"]))
        return matvec(Sg, P["nat_vec"]), sym(Sg)
    if kind == "TrilNatural":
        T = torch.tril(P["tril"])
        Sg = torch.linalg.inv(sym(T.mT @ T))
        return matvec(Sg, P["nat_vec"]), sym(Sg)
    raise AssertionError(kind)


def params_for(kind, m, S):
    """parameters of class `kind` that encode N(m, S) (inverse of `moments`; MeanField needs diagonal S, Delta ignores S)"""
    if kind == "Cholesky":
        return {"mean": m, "chol": chol(S)}
    if kind == "MeanField":
        return {"mean": m, "std": S.diagonal(dim1=-1, dim2=-2).sqrt()}
    if kind == "Delta":
        return {"mean": m}
    P = torch.linalg.inv(sym(S))
    if kind == "Natural":
        return {"nat_vec": matvec(P, m), "nat_mat": -0.5 * sym(P)}
    if kind == "TrilNatural":
        # S = L L^T  =>  S^-1 = L^-T L^-1 = T^T T with T = L^-1 lower triangular
        T = torch.linalg.inv(chol(S))
        return {"nat_vec": matvec(P, m), "tril": torch.tril(T)}
    raise AssertionError(kind)


# ------------------------------------------------------------------------------------------------------------------
# Keys' cubic convolution interpolation (grid-interpolation strategy), interior points only
def keys_kernel(s):
    s = s.abs()
    inner = (1.5 * s - 2.5) * s * s + 1.0
    outer = ((-0.5 * s + 2.5) * s - 4.0) * s + 2.0
    return torch.where(s < 1, inner, torch.where(s < 2, outer, torch.zeros_like(s)))


def keys_interp_matrix(X, Z, h):
    """W[..., i, j] = prod_k keys((X[..., i, k] - Z[j, k]) / h[k]) for grid nodes Z (g^d x d, any layout) of spacing h (d,)"""
    s = (X.unsqueeze(-2) - Z) / h  # ... n x G x d
    return keys_kernel(s).prod(-1)


# ------------------------------------------------------------------------------------------------------------------
# Gaussian-likelihood objectives (C15)
def gauss_expected_log_prob(y, fm, fv, s2):
    """E_{N(f; fm, fv)} log N(y; f, s2), elementwise"""
    return -0.5 * (math.log(2 * math.pi) + torch.log(s2) + ((y - fm) ** 2 + fv) / s2)


def gauss_log_marginal(y, fm, fv, s2):
    """log E_{N(f; fm, fv)} N(y; f, s2), elementwise"""
    v = fv + s2
    return -0.5 * (math.log(2 * math.pi) + torch.log(v) + (y - fm) ** 2 / v)


def exact_log_evidence(y, mx, Kxx, s2):
    """log N(y; mx, Kxx + diag s2)"""
    return gauss_logpdf(y, mx, Kxx + torch.diag_embed(s2))


def collapsed_bound(y, mx, Kxx_diag, Kxz, Ktz, s2):
    """Titsias' collapsed bound  log N(y; mx, Q + D) - 1/2 sum_i (Kxx_ii - Q_ii) / s2_i,  Q = Kxz Ktz^-1 Kzx, D = diag s2"""
    Q = Kxz @ torch.linalg.solve(sym(Ktz), Kxz.mT)
    return gauss_logpdf(y, mx, Q + torch.diag_embed(s2)) - 0.5 * ((Kxx_diag - Q.diagonal(dim1=-1, dim2=-2)) / s2).sum(-1)


def optimal_qu(y, mx, mz, Kxz, Ktz, s2):
    """the q(u) maximising the ELBO for Gaussian noise D = diag s2 (exact posterior of u in the inducing-point model):
    Sigma = Ktz + Kzx D^-1 Kxz;  S* = Ktz Sigma^-1 Ktz;  m* = mz + Ktz Sigma^-1 Kzx D^-1 (y - mx)"""
    Kzx = Kxz.mT
    Sig = sym(Ktz + (Kzx / s2.unsqueeze(-2)) @ Kxz)
    S = Ktz @ torch.linalg.solve(Sig, Ktz)
    m = mz + matvec(Ktz, torch.linalg.solve(Sig, matvec(Kzx, (y - mx) / s2).unsqueeze(-1)).squeeze(-1))
    return m, sym(S)
