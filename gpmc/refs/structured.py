"""C09 reference: the dense meaning of the structure-exploiting kernels, written with plain float64 torch (no gpytorch, no
linear_operator).

  task_cov(W, v)                  B = W W^T + diag(v)                                   (IndexKernel docstring)
  kron_interleaved(Kx, B)         K[(i,a),(j,b)] = Kx[i,j] B[a,b], row index i*t + a     (MultitaskKernel: K_x (x) B, every point's
                                                                                          tasks adjacent = the interleaved layout)
  hadamard_index(B, i1, i2)       K[i,j] = B[t_i, t_j]
  grid_points(grid, order)        all points of the Cartesian grid; order "colmajor": FIRST dimension varies fastest (the order
                                  `create_data_from_grid` documents and GridKernel.full_grid uses); "lex": LAST dimension varies fastest
                                  (the "lexicographical position" Interpolation.interpolate documents for its indices)
  keys(s)                         Keys' cubic convolution kernel (a = -1/2), Keys 1981 eq. (15)
  interp_weights(grid, x)         dense n x prod(g) cubic interpolation matrix in "lex" order incl. the boundary rule read from
                                  Interpolation.interpolate: a target in the first or the last cell of a dimension takes the value of the
                                  nearest of the 4 outermost nodes of that dimension (weight 1)
  nystrom(Kxz, Kzz, Kzy)          Kxz Kzz^-1 Kzy
  titsias_bound(...)              log N(y | m, Q + s2 I) - tr(K - Q) / (2 s2)            (Titsias 2009, eq. 9)
  sgpr_predict(...)               SGPR predictive equations (Titsias 2009 eq. 6 in Woodbury form, as in the comments of SGPRPredictionStrategy)
  rff_features(x, W, ls)          [cos(x W / ls), sin(x W / ls)] / sqrt(D)               (RFFKernel docstring; all cosines first)
"""
import itertools
import math

import torch

from . import dense

F64 = torch.float64


# ------------------------------------------------------------------------------------------------------------- task kernels
def task_cov(W, v):
    return W @ W.mT + torch.diag(v)


def kron_interleaved(Kx, B):
    n1, n2 = Kx.shape
    t = B.shape[0]
    out = torch.zeros(n1 * t, n2 * t, dtype=F64)
    for i in range(n1):
        for j in range(n2):
            out[i * t:(i + 1) * t, j * t:(j + 1) * t] = Kx[i, j] * B
    return out


def hadamard_index(B, i1, i2):
    out = torch.zeros(len(i1), len(i2), dtype=F64)
    for a, ta in enumerate(i1):
        for b, tb in enumerate(i2):
            out[a, b] = B[int(ta), int(tb)]
    return out


# ------------------------------------------------------------------------------------------------------------- grids
def grid_points(grid, order):
    sizes = [len(p) for p in grid]
    d = len(grid)
    rng = [range(s) for s in sizes]
    if order == "lex":  # last dimension fastest
        idx = list(itertools.product(*rng))
    elif order == "colmajor":  # first dimension fastest
        idx = [tuple(reversed(r)) for r in itertools.product(*reversed(rng))]
    else:
        raise ValueError(order)
    return torch.tensor([[float(grid[k][i[k]]) for k in range(d)] for i in idx], dtype=F64).reshape(len(idx), d)


def keys(s):
    s = abs(float(s))
    if s <= 1.0:
        return 1.5 * s ** 3 - 2.5 * s ** 2 + 1.0
    if s < 2.0:
        return -0.5 * s ** 3 + 2.5 * s ** 2 - 4.0 * s + 2.0
    return 0.0


def cell_of(grid1d, x):
    """index j of the grid cell [u_j, u_{j+1}) containing x (equispaced grid)"""
    h = float(grid1d[1] - grid1d[0])
    return int(math.floor((float(x) - float(grid1d[0])) / h))


def interp_weights_1d(grid1d, x):
    """dense n x g matrix; interior cells 1..g-3: Keys on the 4 surrounding nodes; cells 0 and >= g-2: nearest of the outer 4 nodes"""
    g = len(grid1d)
    h = float(grid1d[1] - grid1d[0])
    W = torch.zeros(len(x), g, dtype=F64)
    for i, xi in enumerate(x):
        xi = float(xi)
        u = (xi - float(grid1d[0])) / h
        j = int(math.floor(u))
        if j < 1:
            cand = range(0, 4)
        elif j > g - 3:
            cand = range(g - 4, g)
        else:
            for k in range(j - 1, j + 3):
                W[i, k] = keys(u - k)
            continue
        dist = [abs(float(grid1d[k]) - xi) for k in cand]
        W[i, list(cand)[dist.index(min(dist))]] = 1.0
    return W


def interp_weights(grid, x):
    """n x prod(g), column index = lexicographic position (last dimension fastest)"""
    Ws = [interp_weights_1d(grid[k], x[:, k]) for k in range(len(grid))]
    rows = []
    for i in range(x.shape[0]):
        r = Ws[0][i]
        for k in range(1, len(grid)):
            r = torch.kron(r, Ws[k][i])
        rows.append(r)
    return torch.stack(rows)


def scatter_weights(idx, val, G):
    """dense n x G matrix from the library's (indices, values) pair; repeated indices add up"""
    W = torch.zeros(idx.shape[0], G, dtype=F64)
    for i in range(idx.shape[0]):
        for j, v in zip(idx[i].tolist(), val[i].tolist()):
            W[i, j] += v
    return W


# ------------------------------------------------------------------------------------------------------------- inducing points
def nystrom(Kxz, Kzz, Kzy):
    return Kxz @ torch.linalg.solve(Kzz, Kzy)


def titsias_bound(y, mean, Kxx_diag, Kxz, Kzz, s2):
    n = y.shape[-1]
    Q = nystrom(Kxz, Kzz, Kxz.mT)
    lp = dense.gauss_logpdf(y, mean, Q + s2 * torch.eye(n, dtype=F64))
    return lp - 0.5 * (Kxx_diag - Q.diagonal()).sum() / s2


def sgpr_predict(y, mx, ms, Kxz, Ksz, Kzz, Kss, s2, train_diag=None):
    """mean = ms + Q_sx (Q_xx + D + s2 I)^-1 (y - mx);  cov = K_ss - Q_sx (Q_xx + D + s2 I)^-1 Q_xs
    D = 0 are Titsias' equations; D = diag(train_diag) is the documented eval-mode variance correction of the TRAINING block"""
    n = y.shape[-1]
    Qxx = nystrom(Kxz, Kzz, Kxz.mT)
    Qsx = nystrom(Ksz, Kzz, Kxz.mT)
    A = Qxx + s2 * torch.eye(n, dtype=F64)
    if train_diag is not None:
        A = A + torch.diag(train_diag)
    return dense.conditional(A, Qsx, Kss, mx, ms, y)


def sgpr_predict_titsias(y, mx, ms, Kxz, Ksz, Kzz, Kss, s2):
    """Titsias 2009 eq. (6) literally: Sigma = (Kzz + s2^-1 Kzx Kxz)^-1; mean = s2^-1 Ksz Sigma Kzx (y-m); cov = Kss - Qss + Ksz Sigma Kzs"""
    S = torch.linalg.inv(Kzz + Kxz.mT @ Kxz / s2)
    mean = ms + (Ksz @ S @ Kxz.mT @ (y - mx).unsqueeze(-1)).squeeze(-1) / s2
    cov = Kss - nystrom(Ksz, Kzz, Ksz.mT) + Ksz @ S @ Ksz.mT
    return mean, cov


# ------------------------------------------------------------------------------------------------------------- RFF
def rff_features(x, W, ls):
    """x: n x d, W: d x D (the kernel's stored randn_weights), ls: 1 x d or 1 x 1 lengthscale"""
    D = W.shape[-1]
    proj = x @ (W / ls.reshape(-1, 1))
    return torch.cat([torch.cos(proj), torch.sin(proj)], dim=-1) / math.sqrt(D)


# ------------------------------------------------------------------------------------------------------------- self test
def _selftest():
    # Keys' kernel: partition of unity, interpolating, reproduces quadratics
    for u in (0.0, 0.25, 0.5, 0.9):
        w = [keys(u - k) for k in (-1, 0, 1, 2)]
        assert abs(sum(w) - 1) < 1e-14
        for deg in (1, 2):
            assert abs(sum(wk * k ** deg for wk, k in zip(w, (-1, 0, 1, 2))) - u ** deg) < 1e-14
    g = [torch.linspace(0, 1, 3, dtype=F64), torch.linspace(5, 6, 2, dtype=F64)]
    assert grid_points(g, "lex")[1].tolist() == [0.0, 6.0] and grid_points(g, "colmajor")[1].tolist() == [0.5, 5.0]
    Kx = torch.tensor([[1.0, 2.0], [3.0, 4.0]], dtype=F64)
    B = torch.tensor([[1.0, 0.5], [0.5, 2.0]], dtype=F64)
    assert torch.equal(kron_interleaved(Kx, B), torch.kron(Kx, B))
    # the two statements of the SGPR predictive equations agree
    gen = torch.Generator().manual_seed(0)
    X, Z, Xs = (torch.rand(k, 1, generator=gen, dtype=F64) for k in (5, 3, 2))
    k = lambda a, b: torch.exp(-0.5 * (a - b.mT) ** 2 / 0.3 ** 2)
    y = torch.randn(5, generator=gen, dtype=F64)
    z = torch.zeros
    a = sgpr_predict(y, z(5, dtype=F64), z(2, dtype=F64), k(X, Z), k(Xs, Z), k(Z, Z), k(Xs, Xs), 0.1)
    b = sgpr_predict_titsias(y, z(5, dtype=F64), z(2, dtype=F64), k(X, Z), k(Xs, Z), k(Z, Z), k(Xs, Xs), 0.1)
    assert (a[0] - b[0]).abs().max() < 1e-9 and (a[1] - b[1]).abs().max() < 1e-9


_selftest()
