"""Independent references for C13 (plain math / numpy / scipy / mpmath; no gpytorch, no torch.distributions).

* exact moments of N(m, v) (recurrence, 60-digit arithmetic) and the abs-sum scale of an n-node Gauss-Hermite rule
* the *documented* conditional log densities of the Bernoulli / Laplace / Student-t / Beta likelihoods as scalar functions
* adaptive integration of g(f) against N(m, v)  (scipy.integrate.quad, epsabs 1e-12)
* log Phi (scipy.special.log_ndtr) and phi/Phi = sqrt(2/pi) / erfcx(-z/sqrt 2)   (well conditioned on the whole line,
  unlike exp(logpdf - log_ndtr), which cancels catastrophically for z << 0; the two agree to 2e-13 on [-30, 10]; both checked against 50-digit mpmath)
"""
import math

import mpmath
import numpy as np
from scipy import integrate, special

SQRT2 = math.sqrt(2.0)
LOG_SQRT_2PI = 0.5 * math.log(2 * math.pi)


# ------------------------------------------------------------------------------------------- polynomials
def normal_moments(kmax, m, v):
    """[E x^k for k = 0..kmax], x ~ N(m, v): M_0 = 1, M_1 = m, M_k = m M_{k-1} + (k-1) v M_{k-2}"""
    with mpmath.workdps(60):
        m_, v_ = mpmath.mpf(m), mpmath.mpf(v)
        out = [mpmath.mpf(1), m_]
        for k in range(2, kmax + 1):
            out.append(m_ * out[k - 1] + (k - 1) * v_ * out[k - 2])
        return [float(x) for x in out[: kmax + 1]]


def gh_nodes(n):
    t, w = np.polynomial.hermite.hermgauss(n)
    return t, w / math.sqrt(math.pi)


def gh_abs_scale(n, k, m, v):
    """sum_i |w_i x_i^k| of the n-node rule for N(m, v): the natural rounding scale of the rule's result"""
    t, w = gh_nodes(n)
    x = m + math.sqrt(2.0 * v) * t
    return float(np.sum(w * np.abs(x) ** k))


def gh_apply(n, fn, m, v):
    t, w = gh_nodes(n)
    return float(sum(wi * fn(m + math.sqrt(2.0 * v) * ti) for ti, wi in zip(t, w)))


# ------------------------------------------------------------------------------------------- documented densities
def log_phi_scalar(z):
    return float(special.log_ndtr(z))


def logp_bernoulli(y, f):
    """p(Y=y|f) = Phi((2y-1) f), y in {0,1}"""
    return log_phi_scalar((2.0 * y - 1.0) * f)


def logp_laplace(y, f, scale):
    return -math.log(2.0 * scale) - abs(y - f) / scale


def logp_student_t(y, f, df, scale):
    z = (y - f) / scale
    return (math.lgamma(0.5 * (df + 1.0)) - math.lgamma(0.5 * df) - 0.5 * math.log(df * math.pi) - math.log(scale)
            - 0.5 * (df + 1.0) * math.log1p(z * z / df))


def sigmoid(f):
    if f >= 0:
        return 1.0 / (1.0 + math.exp(-f))
    e = math.exp(f)
    return e / (1.0 + e)


def logp_beta(y, f, s, shift=0.0):
    """documented: Beta(alpha = sigma(f) s, beta = (1 - sigma(f)) s); shift adds a constant to both (characterisation only)"""
    mix = sigmoid(f)
    a, b = mix * s + shift, (1.0 - mix) * s + shift
    return (a - 1.0) * math.log(y) + (b - 1.0) * math.log1p(-y) - (math.lgamma(a) + math.lgamma(b) - math.lgamma(a + b))


# ------------------------------------------------------------------------------------------- adaptive integration
def expect(fn, m, v, kinks=()):
    """E_{f ~ N(m, v)} fn(f) by adaptive Gauss-Kronrod in the standardised variable on [-12, 12] (phi(12) ~ 2e-32)"""
    sd = math.sqrt(v)
    pts = [0.0] + [(k - m) / sd for k in kinks if abs((k - m) / sd) < 12.0]

    def integrand(t):
        return fn(m + sd * t) * math.exp(-0.5 * t * t - LOG_SQRT_2PI)

    val, err = integrate.quad(integrand, -12.0, 12.0, points=sorted(set(pts)), limit=400, epsabs=1e-12, epsrel=1e-13)
    return val


# ------------------------------------------------------------------------------------------- log Phi and phi/Phi
def log_phi(z):
    return special.log_ndtr(np.asarray(z, dtype=np.float64))


def dlog_phi(z):
    """phi(z)/Phi(z) = sqrt(2/pi) / erfcx(-z / sqrt 2)"""
    z = np.asarray(z, dtype=np.float64)
    with np.errstate(over="ignore", divide="ignore"):
        return math.sqrt(2.0 / math.pi) / special.erfcx(-z / SQRT2)
