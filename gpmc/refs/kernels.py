"""C05 reference: every documented covariance function written as an explicit scalar function of ONE pair of rows (a, b) and the
public parameter values of ONE batch element, applied to all pairs by `pairwise`.  Plain float64 torch only (no gpytorch, no
linear_operator).  Parameter tensors are 1-d (length D, or length 1 = shared by all input dimensions) or 0-d.

Where the formula comes from (class docstrings in /repo/gpytorch/kernels/*.py):
  rbf        exp(-1/2 (a-b)^T Theta^-2 (a-b))
  matern     nu in {1/2, 3/2, 5/2} closed forms of  2^(1-nu)/Gamma(nu) (sqrt(2nu) r)^nu K_nu(sqrt(2nu) r),  r = |Theta^-1 (a-b)|
  rq         (1 + 1/(2 alpha) (a-b)^T Theta^-2 (a-b))^-alpha
  periodic   exp(-2 sum_i sin^2(pi (a_i-b_i)/p_i) / lambda_i)            (lengthscale NOT squared, as the docstring says)
  cosine     cos(pi |a-b| / p)
  linear     v a^T b          (ARD: sum_i v_i a_i b_i)
  polynomial (a^T b + c)^power
  piecewise  R&W (4.21) as printed in the docstring, r = |Theta^-1 (a-b)|, j = floor(D/2) + q + 1
  constant   c
  spectral mixture   prod_i sum_q w_q exp(-2 pi^2 (a_i-b_i)^2 s_qi^2) cos(2 pi (a_i-b_i) mu_qi)   (the property text fixes this form)
  spectral delta     1/S sum_s cos(2 pi z_s^T Theta^-1 (a-b))              (Bochner for a mixture of S equally weighted deltas)
  arc        base(g(a), g(b)), g_i(x) = omega_i [sin(pi rho_i x_i / l_i), cos(pi rho_i x_i / l_i)]  (all sines first, then all cosines)
  cylindrical  K_r(kuma(|a|), kuma(|b|)) * sum_p w_p (a^T b / |a||b|)^p, kuma(r) = 1 - (1 - r^alpha + eps)^beta  (eps: documented ctor arg)
  hamming imq  ((1 + alpha) / (alpha + d_Hamming(a, b)))^beta on flattened one-hot sequences
  distributional  exp(-d(a, b) / lengthscale);  Gaussian symmetrised KL: d = KL(p||q) + KL(q||p), rows = [mean, log-variance],
               variance = exp(logvar) + 1e-8 (documented jitter of _symmetrized_kl)
Derivative kernels: `grad_layout` = torch.autograd partial derivatives of the base reference in the per-point interleaved layout.
"""
import itertools
import math

import torch

PI = math.pi


# ------------------------------------------------------------------------------------------------------------------
def pairwise(f, x1, x2):
    """n1 x n2 matrix of f(row of x1, row of x2)"""
    return torch.stack([torch.stack([f(a, b) for b in x2]) for a in x1])


def _t(v):
    return v if torch.is_tensor(v) else torch.tensor(float(v), dtype=torch.float64)


def _safe_norm(v):
    """Euclidean norm; exactly 0 (not differentiated) for an exactly zero vector"""
    s = (v * v).sum()
    if s.detach().item() == 0.0:
        return s * 0.0
    return s.sqrt()


# ------------------------------------------------------------------------------------------------------------------ stationary
def rbf(ls):
    return lambda a, b: torch.exp(-0.5 * (((a - b) / ls) ** 2).sum())


def matern(ls, nu):
    c = math.sqrt(2 * nu)

    def f(a, b):
        r = _safe_norm((a - b) / ls)
        s = c * r
        if nu == 0.5:
            poly = 1.0
        elif nu == 1.5:
            poly = 1.0 + s
        elif nu == 2.5:
            poly = 1.0 + s + s ** 2 / 3.0
        else:
            raise ValueError(nu)
        return poly * torch.exp(-s)

    return f


def matern_bessel(ls, nu):
    """the docstring's general formula, evaluated with mpmath (used by the module self-test to validate `matern`)"""
    import mpmath

    def f(a, b):
        r = float(_safe_norm((a - b) / ls))
        if r == 0.0:
            return torch.tensor(1.0, dtype=torch.float64)
        z = mpmath.sqrt(2 * nu) * r
        return torch.tensor(float(2 ** (1 - nu) / mpmath.gamma(nu) * z ** nu * mpmath.besselk(nu, z)), dtype=torch.float64)

    return f


def rq(ls, alpha):
    return lambda a, b: (1.0 + (((a - b) / ls) ** 2).sum() / (2.0 * alpha)) ** (-alpha)


def periodic(ls, period):
    return lambda a, b: torch.exp(-2.0 * ((torch.sin(PI * (a - b) / period) ** 2) / ls).sum())


def cosine(period):
    return lambda a, b: torch.cos(PI * _safe_norm(a - b) / period)


def piecewise_polynomial(ls, q, q2_coef=None):
    """q2_coef: replaces the r^2 coefficient (j^2 + 4j + 3)/3 of q = 2 by q2_coef(j) (only used to characterise a wrong value)"""

    def f(a, b):
        D = a.shape[-1]
        j = D // 2 + q + 1
        r = _safe_norm((a - b) / ls)
        base = torch.clamp(1.0 - r, min=0.0) ** (j + q)
        if q == 0:
            poly = 1.0
        elif q == 1:
            poly = (j + 1) * r + 1.0
        elif q == 2:
            c2 = (j ** 2 + 4 * j + 3) / 3.0 if q2_coef is None else q2_coef(j)
            poly = 1.0 + (j + 2) * r + c2 * r ** 2
        elif q == 3:
            poly = 1.0 + (j + 3) * r + (6 * j ** 2 + 36 * j + 45) / 15.0 * r ** 2 + (j ** 3 + 9 * j ** 2 + 23 * j + 15) / 15.0 * r ** 3
        else:
            raise ValueError(q)
        return base * poly

    return f


def spectral_mixture(weights, means, scales):
    """weights (Q,), means (Q, D), scales (Q, D)"""

    def f(a, b):
        tau = a - b  # (D,)
        per_dim = (weights.unsqueeze(-1) * torch.exp(-2.0 * PI ** 2 * tau ** 2 * scales ** 2) * torch.cos(2.0 * PI * tau * means)).sum(0)
        return per_dim.prod()

    return f


def spectral_delta(Z, ls):
    """Z (S, D)"""
    return lambda a, b: torch.cos(2.0 * PI * (Z * ((a - b) / ls)).sum(-1)).mean()


# ------------------------------------------------------------------------------------------------------------------ dot product
def linear(variance):
    return lambda a, b: (variance * a * b).sum()


def polynomial(offset, power):
    return lambda a, b: ((a * b).sum() + offset) ** power


def constant(c):
    return lambda a, b: _t(c) + 0.0 * (a * b).sum()


# ------------------------------------------------------------------------------------------------------------------ embeddings
def arc(ls, angle, radius, base, delta=None):
    def g(x):
        z = PI * angle * x / ls
        m = torch.ones_like(x) if delta is None else delta(x)   # the documented activity indicator acts on the raw input x
        return torch.cat([radius * torch.sin(z) * m, radius * torch.cos(z) * m])

    return lambda a, b: base(g(a), g(b))


def cylindrical(weights, alpha, beta, eps, radial):
    def kuma(r):
        return 1.0 - (1.0 - r ** alpha + eps) ** beta

    def f(a, b):
        ra, rb = _safe_norm(a), _safe_norm(b)
        cosang = (a * b).sum() / (ra * rb)
        ang = sum(weights[p] * cosang ** p for p in range(len(weights)))
        return radial(kuma(ra).reshape(1), kuma(rb).reshape(1)) * ang

    return f


def hamming_imq(alpha, beta, vocab):
    def f(a, b):
        ca, cb = a.reshape(-1, vocab).argmax(-1), b.reshape(-1, vocab).argmax(-1)
        dist = float((ca != cb).sum())
        return ((1.0 + alpha) / (alpha + dist)) ** beta

    return f


def gaussian_symmetrized_kl(ls, eps=1e-8):
    from torch.distributions import Normal, kl_divergence

    def f(a, b):
        D = a.shape[-1] // 2
        p = Normal(a[:D], (a[D:].exp() + eps).sqrt())
        q = Normal(b[:D], (b[D:].exp() + eps).sqrt())
        dist = (kl_divergence(p, q) + kl_divergence(q, p)).sum()
        return torch.exp(-dist / ls)

    return f


def distributional(ls, dist_fn):
    return lambda a, b: torch.exp(-dist_fn(a, b) / ls)


# ------------------------------------------------------------------------------------------------------------------ compositions
def ksum(*fs):
    return lambda a, b: sum(f(a, b) for f in fs)


def kprod(*fs):
    def f(a, b):
        out = fs[0](a, b)
        for g in fs[1:]:
            out = out * g(a, b)
        return out

    return f


def kscale(s, f):
    return lambda a, b: s * f(a, b)


def per_dim_values(make_1d, a, b):
    """[k'(a_i, b_i)] for i < D; make_1d(i) returns the 1-d base kernel of dimension i"""
    return [make_1d(i)(a[i:i + 1], b[i:i + 1]) for i in range(a.shape[-1])]


def additive_structure(make_1d):
    return lambda a, b: sum(per_dim_values(make_1d, a, b))


def product_structure(make_1d):
    def f(a, b):
        out = 1.0
        for v in per_dim_values(make_1d, a, b):
            out = out * v
        return out

    return f


def elementary_symmetric(vals, degree):
    """sum over all index sets i_1 < ... < i_degree of prod vals[i_j] (brute force)"""
    tot = 0.0
    for idx in itertools.combinations(range(len(vals)), degree):
        p = 1.0
        for i in idx:
            p = p * vals[i]
        tot = tot + p
    return tot


def newton_girard(make_1d, outputscales):
    """sum_{deg=1..R} outputscale_deg * e_deg(k'(a_1,b_1), ..., k'(a_D,b_D))  (Duvenaud et al. 2011, additive GP)"""

    def f(a, b):
        vals = per_dim_values(make_1d, a, b)
        return sum(outputscales[m - 1] * elementary_symmetric(vals, m) for m in range(1, len(outputscales) + 1))

    return f


def sum_interaction_terms(covars, max_degree):
    """covars (D, N, M): sum over all non-empty index sets of size <= max_degree of the elementwise products"""
    D = covars.shape[0]
    return sum(elementary_symmetric([covars[i] for i in range(D)], m) for m in range(1, max_degree + 1))


# ------------------------------------------------------------------------------------------------------------------ derivatives
def _dops(val, var, order):
    """[val, d val/d var_p (p < D), and for order 2: d^2 val / d var_p^2 (p < D)] as 0-d tensors"""
    D = var.numel()
    zero = torch.zeros((), dtype=torch.float64)
    if not val.requires_grad:
        return [val] + [zero] * (D * order)
    g = torch.autograd.grad(val, var, create_graph=True, allow_unused=True)[0]
    if g is None:
        return [val] + [zero] * (D * order)
    res = [val] + [g[p] for p in range(D)]
    if order == 2:
        for p in range(D):
            gg = None
            if g[p].requires_grad:
                gg = torch.autograd.grad(g[p], var, create_graph=True, allow_unused=True)[0]
            res.append(zero if gg is None else gg[p])
    return res


def grad_block(f, a, b, order=1):
    """w x w block (w = 1 + D*order):  [u, v] = L_u^(a) L_v^(b) f(a, b),  L = (id, d/dx_1..d/dx_D [, d^2/dx_1^2..d^2/dx_D^2])"""
    D = a.shape[-1]
    w = 1 + D * order
    a = a.detach().clone().requires_grad_(True)
    b = b.detach().clone().requires_grad_(True)
    out = torch.zeros(w, w, dtype=torch.float64)
    rows = _dops(f(a, b), a, order)
    for u, ru in enumerate(rows):
        cols = _dops(ru, b, order)
        for v, cv in enumerate(cols):
            out[u, v] = cv.detach()
    return out


def grad_layout(f, x1, x2, order=1, near_block=None, near_r=None):
    """(n1 w) x (n2 w) matrix in the per-point interleaved layout: rows i*w + u, columns j*w + v.
    near_block(a, b) / near_r(a, b): optional closed-form block used for pairs with near_r(a, b) < 1e-3, for kernels whose formula goes
    through sqrt(r^2): autograd is undefined at r = 0 and its second derivatives lose eps / r to cancellation for r -> 0"""
    n1, n2, D = x1.shape[0], x2.shape[0], x1.shape[-1]
    w = 1 + D * order
    out = torch.zeros(n1 * w, n2 * w, dtype=torch.float64)
    for i in range(n1):
        for j in range(n2):
            if near_block is not None and float(near_r(x1[i], x2[j])) < 1e-3:
                blk = near_block(x1[i], x2[j])
            else:
                blk = grad_block(f, x1[i], x2[j], order)
            out[i * w:(i + 1) * w, j * w:(j + 1) * w] = blk
    return out


def scaled_dist(ls):
    return lambda a, b: _safe_norm(((a - b) / ls).detach())


def matern52_grad_closed(ls):
    """the (value, gradient) block of the Matern-5/2 kernel in closed form, as printed in the docstring of Matern52KernelGrad
    (validated against the autograd block at generic pairs and against a symmetric limit at a = b in _selftest)"""
    s5 = math.sqrt(5.0)

    def blk(a, b):
        D = a.shape[-1]
        l2 = (ls * torch.ones(D, dtype=torch.float64)) ** 2
        diff = (a - b) / l2
        r = _safe_norm((a - b) / ls)
        e = torch.exp(-s5 * r)
        out = torch.zeros(1 + D, 1 + D, dtype=torch.float64)
        out[0, 0] = (1.0 + s5 * r + 5.0 / 3.0 * r ** 2) * e
        out[0, 1:] = 5.0 / 3.0 * (1.0 + s5 * r) * e * diff
        out[1:, 0] = -5.0 / 3.0 * (1.0 + s5 * r) * e * diff
        out[1:, 1:] = -5.0 / 3.0 * e * (5.0 * torch.outer(diff, diff) - torch.diag(1.0 / l2) * (1.0 + s5 * r))
        return out

    return blk


# ------------------------------------------------------------------------------------------------------------------
def _selftest():
    torch.set_default_dtype(torch.float64)
    g = torch.Generator().manual_seed(0)
    x1, x2 = torch.randn(3, 2, generator=g), torch.randn(2, 2, generator=g)
    ls = torch.tensor([0.7, 1.9])
    for nu in (0.5, 1.5, 2.5):
        e = (pairwise(matern(ls, nu), x1, x2) - pairwise(matern_bessel(ls, nu), x1, x2)).abs().max()
        assert e < 1e-13, (nu, e)
    # Matern-5/2 closed-form block: = autograd block at generic pairs, = symmetric limit of the autograd block at a = b
    f = matern(ls, 2.5)
    closed = matern52_grad_closed(ls)
    for a in x1:
        for b in x2:
            assert (grad_block(f, a, b) - closed(a, b)).abs().max() < 1e-13
    a = x1[0]
    h = 1e-4 * torch.tensor([0.6, -0.8])
    lim = 0.5 * (grad_block(f, a, a + h) + grad_block(f, a, a - h))
    assert (lim - closed(a, a)).abs().max() < 1e-6
    # ... and the autograd block really is ill-conditioned at r ~ 1e-9 while the closed form is not (mpmath, 40 digits)
    import mpmath
    mpmath.mp.dps = 40
    l0, l1 = [mpmath.mpf(float(v)) for v in ls]

    def kmp(a0, a1, b0, b1):
        r = mpmath.sqrt(((a0 - b0) / l0) ** 2 + ((a1 - b1) / l1) ** 2)
        return (1 + mpmath.sqrt(5) * r + mpmath.mpf(5) / 3 * r ** 2) * mpmath.exp(-mpmath.sqrt(5) * r)

    b = a + torch.tensor([1e-9, 1e-9])
    pt = [mpmath.mpf(float(v)) for v in (a[0], a[1], b[0], b[1])]
    hess00 = float(mpmath.diff(kmp, pt, (1, 0, 1, 0)))
    assert abs(float(closed(a, b)[1, 1]) - hess00) < 1e-12, (float(closed(a, b)[1, 1]), hess00)
    # elementary symmetric polynomials vs the expansion of prod (1 + t z_i)
    z = [torch.tensor(v) for v in (0.3, -1.2, 2.0)]
    assert abs(float(elementary_symmetric(z, 2)) - (0.3 * -1.2 + 0.3 * 2.0 - 1.2 * 2.0)) < 1e-15
    # second-order layout of the RBF kernel in 1-d against the closed forms
    l = torch.tensor([0.8])
    a, b = torch.tensor([0.3]), torch.tensor([-0.5])
    blk = grad_block(rbf(l), a, b, order=2)
    t = float((a - b) / l ** 2)
    k = float(rbf(l)(a, b))
    il2 = float(1 / l ** 2)
    want = torch.tensor([[k, t * k, (t * t - il2) * k],
                         [-t * k, (il2 - t * t) * k, (3 * il2 * t - t ** 3) * k],
                         [(t * t - il2) * k, (t ** 3 - 3 * il2 * t) * k, (t ** 4 - 6 * il2 * t * t + 3 * il2 ** 2) * k]])
    assert (blk - want).abs().max() < 1e-13, (blk, want)
    print("refs.kernels self-test ok")


if __name__ == "__main__":
    _selftest()
