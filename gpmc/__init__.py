"""gpmc — hand-written bounded-exhaustive explorers (model checking of the real GPyTorch code).

Engine S (explorer.py): explicit-state breadth-first search over operation sequences on live objects.
Engine G (lattice.py):  complete enumeration of finite configuration lattices against reference models.
"""
