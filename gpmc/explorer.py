"""Engine S — explicit-state breadth-first exploration of operation sequences on live objects.

A state is the history that reaches it (live torch objects with autograd graphs do not deep-copy); every history
is replayed on a fresh real object in a worker. Breadth first => the first counterexample is a shortest one.
Canonical-state deduplication: a history is expanded further only if its canonical digest is new.
"""


def bfs(ctx, fname, base_cell, alphabet, depth, dedupe=True, enabled=None, label="", max_frontier=None):
    """alphabet: list of JSON-able ops (simplest first). enabled(hist, op) -> bool prunes ops by the *harness-side*
    shadow of the state (e.g. mode), never by library internals. Worker fn must return 'canon' (digest) and may return
    'shadow' (JSON-able harness state, passed to enabled as part of hist bookkeeping)."""
    frontier = [([], None)]
    seen = set()
    stats = {"depth_completed": 0, "histories": 0, "states": 0, "merged": 0, "per_depth": []}
    for d in range(1, depth + 1):
        cells, metas = [], []
        for hist, shadow in frontier:
            for op in alphabet:
                if enabled is not None and not enabled(hist, shadow, op):
                    continue
                c = dict(base_cell)
                c["hist"] = hist + [op]
                cells.append(c)
        results = ctx.map(fname, cells)
        nxt = []
        merged = 0
        for c, r in zip(cells, results):
            k = r.get("canon")
            if not dedupe or k is None or k not in seen:
                if k is not None:
                    seen.add(k)
                if not r.get("dead"):
                    nxt.append((c["hist"], r.get("shadow")))
            else:
                merged += 1
        stats["per_depth"].append({"depth": d, "histories": len(cells), "new_states": len(nxt), "merged": merged})
        stats["histories"] += len(cells)
        stats["merged"] += merged
        stats["depth_completed"] = d
        frontier = nxt
        if max_frontier is not None and len(frontier) > max_frontier and d < depth:
            ctx.cap(f"{label}: frontier {len(frontier)} > {max_frontier} at depth {d}; deeper levels not explored")
            break
        if not frontier:
            break
    stats["states"] = len(seen)
    return stats
