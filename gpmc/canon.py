"""Side-effect-free canonical digest of a live GPyTorch object graph (Engine S state hashing).

Walks __dict__ / containers only; never calls a library method (evaluating a lazy kernel tensor would populate its
cache: observing a state must not change it). Cycles are cut by an id-visited map whose values are visitation
indices (deterministic because dict keys are visited in sorted order). Deliberately over-fine: two histories merge
only if everything reachable coincides (tensor values rounded to 1e-10, shapes, dtypes, requires_grad, grad_fn-ness,
operator types, cache keys, mode flags).
"""
import hashlib

import torch

_SKIP = {"_state_dict_hooks", "_load_state_dict_pre_hooks", "_state_dict_pre_hooks", "_load_state_dict_post_hooks",
         "_is_full_backward_hook", "_non_persistent_buffers_set", "_forward_hooks", "_forward_pre_hooks",
         "_backward_hooks", "_backward_pre_hooks", "_forward_hooks_with_kwargs", "_forward_pre_hooks_with_kwargs",
         "_forward_hooks_always_called", "_compiled_call_impl", "__orig_class__"}


def tdig(t):
    a = t.detach().cpu()
    if a.is_sparse:
        a = a.to_dense()
    if a.dtype.is_floating_point:
        a = torch.round(a.double() * 1e10) / 1e10
        a = torch.where(a == 0, torch.zeros_like(a), a)
    a = a.contiguous()
    return (tuple(t.shape), str(t.dtype), bool(t.requires_grad), t.grad_fn is None,
            hashlib.sha1(a.numpy().tobytes()).hexdigest()[:12])


def canon(obj, seen=None):
    if seen is None:
        seen = {}
    if isinstance(obj, (int, float, str, bool, type(None), torch.dtype, torch.Size, complex)):
        return repr(obj)
    if isinstance(obj, bytes):
        return ("bytes", hashlib.sha1(obj).hexdigest()[:8])
    if isinstance(obj, (slice, type(Ellipsis))):
        return repr(obj)
    if isinstance(obj, type):
        return ("class", obj.__qualname__)
    oid = id(obj)
    if oid in seen:
        return ("ref", seen[oid])
    seen[oid] = len(seen)
    if torch.is_tensor(obj):
        return ("T",) + tdig(obj)
    if isinstance(obj, (list, tuple)):
        return (type(obj).__name__,) + tuple(canon(o, seen) for o in obj)
    if isinstance(obj, dict):
        items = sorted(obj.items(), key=lambda kv: repr(kv[0]) if not torch.is_tensor(kv[0]) else "T")
        return ("dict",) + tuple((canon(k, seen), canon(v, seen)) for k, v in items)
    if isinstance(obj, (set, frozenset)):
        return ("set",) + tuple(sorted((repr(canon(o, seen)) for o in obj)))
    if isinstance(obj, torch.Generator):
        return ("generator",)
    d = getattr(obj, "__dict__", None)
    if callable(obj) and not isinstance(obj, torch.nn.Module) and not d:
        return ("callable", getattr(obj, "__qualname__", type(obj).__name__))
    if d is not None:
        items = sorted((k, v) for k, v in d.items() if k not in _SKIP)
        return (type(obj).__name__,) + tuple((k, canon(v, seen)) for k, v in items)
    return ("opaque", type(obj).__name__)


def digest(obj):
    return hashlib.sha1(repr(canon(obj)).encode()).hexdigest()[:20]
