"""Known findings: genuine defects recorded (not repaired). Never written at run time.

entry: {"id", "property", "sub": regex on the sub-check name, "when": python expression over f (features dict),
        "symptom": regex on the symptom string, "what": one-line description}
A failing cell is suppressed only if property, sub, when AND symptom all match. Entries with "fixed": true are
documentation and suppress nothing.
"""
import json
import os
import re

PATH = os.path.join(os.path.dirname(os.path.dirname(os.path.abspath(__file__))), "known_findings.json")


class _F(dict):
    def __missing__(self, k):
        return None


def load():
    if not os.path.exists(PATH):
        return []
    return [e for e in json.load(open(PATH))["findings"] if not e.get("fixed")]


def match(entries, prop, features, fail):
    for e in entries:
        if e["property"] != prop:
            continue
        if not re.search(e.get("sub", ".*"), fail["sub"]):
            continue
        if not re.search(e.get("symptom", ".*"), fail["symptom"], re.S):
            continue
        try:
            ok = eval(e.get("when", "True"), {"__builtins__": {"len": len, "any": any, "all": all, "str": str,
                                                               "tuple": tuple, "list": list, "min": min, "max": max,
                                                               "abs": abs, "int": int, "isinstance": isinstance}},
                      {"f": _F(features)})
        except Exception:
            ok = False
        if ok:
            return e
    return None
