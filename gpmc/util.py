"""Shared helpers: determinism, settings guard, tolerant comparison, fail records."""
import hashlib
import json
import os
import warnings

import torch

warnings.filterwarnings("ignore")
torch.set_num_threads(1)

import gpytorch  # noqa: E402
import linear_operator  # noqa: E402

# VERIF_REPO: development aid only (run the checks against a scratch worktree carrying a seeded change without touching /repo,
# which other running checks import); every registered MANIFEST command runs against /repo itself.
REPO = os.path.realpath(os.environ.get("VERIF_REPO") or "/repo")
assert os.path.realpath(gpytorch.__file__).startswith(REPO + os.sep), (
    "checks must import gpytorch from /repo's working tree, got " + gpytorch.__file__
)

F64 = torch.float64


def seed_for(seed, key):
    h = hashlib.sha1(f"{seed}|{key}".encode()).digest()
    return int.from_bytes(h[:4], "big")


def own_rng(seed, key):
    s = seed_for(seed, key)
    torch.manual_seed(s)
    return s


def gen(seed, key):
    g = torch.Generator()
    g.manual_seed(seed_for(seed, key))
    return g


def randn(g, *shape):
    return torch.randn(*shape, generator=g, dtype=F64)


def rand(g, *shape):
    return torch.rand(*shape, generator=g, dtype=F64)


def spd(g, *shape_n, eps=0.5):
    """random SPD matrix with batch shape shape_n[:-1] and size shape_n[-1]"""
    *b, n = shape_n
    a = randn(g, *b, n, n)
    return a @ a.mT / n + eps * torch.eye(n, dtype=F64)


# ----------------------------------------------------------------------------------------------
# settings guard: every class attribute of every settings class is snapshotted at import and must be
# identical before and after every cell (C20's invariant reused as a harness guard).
def _settings_classes():
    from gpytorch import beta_features, settings

    out = {}
    for mod, names in ((settings, settings.__all__), (beta_features, beta_features.__all__)):
        for n in names:
            c = getattr(mod, n)
            if isinstance(c, type):
                out[f"{mod.__name__.split('.')[-1]}.{n}"] = c
    import linear_operator.settings as los

    for n in dir(los):
        c = getattr(los, n)
        if isinstance(c, type) and c.__module__ == los.__name__:
            out.setdefault(f"lo.{n}", c)
    return out


_SCLASSES = _settings_classes()
_SKEYS = ("_state", "_global_value", "_global_float_value", "_global_double_value", "_global_half_value",
          "_num_probe_vectors", "_default")


_SPAIRS = [(name, c, k) for name, c in _SCLASSES.items() for k in _SKEYS if hasattr(c, k)]


def settings_snapshot():
    # inherited attributes too: a leak creates the attribute on the subclass
    return {(name, k): getattr(c, k) for name, c, k in _SPAIRS}


_DEFAULT_SNAPSHOT = settings_snapshot()


def settings_restore(snap=None):
    snap = _DEFAULT_SNAPSHOT if snap is None else snap
    for (name, k), v in snap.items():
        setattr(_SCLASSES[name], k, v)


def settings_diff(snap=None):
    snap = _DEFAULT_SNAPSHOT if snap is None else snap
    cur = settings_snapshot()
    return {f"{n}.{k}": (repr(snap.get((n, k))), repr(cur.get((n, k)))) for (n, k) in set(snap) | set(cur)
            if snap.get((n, k)) != cur.get((n, k))}


# ----------------------------------------------------------------------------------------------
def dense(x):
    if torch.is_tensor(x):
        return x
    return x.to_dense()


def maxerr(a, b):
    a, b = dense(a), dense(b)
    if tuple(a.shape) != tuple(b.shape):
        return float("inf")
    if a.numel() == 0:
        return 0.0
    a, b = a.detach().to(F64), b.detach().to(F64)
    d = (a - b).abs()
    d = torch.where(torch.isnan(d), torch.full_like(d, float("inf")), d)
    # equal infinities are equal
    same_inf = torch.isinf(a) & torch.isinf(b) & (a == b)
    d = torch.where(same_inf, torch.zeros_like(d), d)
    return float(d.max())


def close(a, b, atol=1e-9, rtol=1e-9):
    a, b = dense(a), dense(b)
    if tuple(a.shape) != tuple(b.shape):
        return False, f"shape {tuple(a.shape)} != {tuple(b.shape)}"
    if a.numel() == 0:
        return True, "0"
    scale = float(b.detach().abs().max()) if torch.isfinite(b.detach()).all() else 1.0
    e = maxerr(a, b)
    return e <= atol + rtol * scale, f"{e:.3e}"


class Fails(list):
    """list of {sub, symptom, detail}; a cell's verdict"""

    def add(self, sub, symptom, detail=""):
        self.append({"sub": sub, "symptom": str(symptom)[:300], "detail": str(detail)[:600]})

    def check_close(self, sub, got, want, atol=1e-9, rtol=1e-9, detail=""):
        ok, msg = close(got, want, atol, rtol)
        if not ok:
            self.add(sub, f"mismatch err={msg}", detail)
        return ok

    def guard(self, sub):
        return _Guard(self, sub)


class Skip(Exception):
    """raised inside a guard to leave the sub-check silently (cell outside the sub-check's domain)"""


class _Guard:
    """context manager: an exception inside becomes a fail 'exception: Type: msg' for sub-check `sub`"""

    def __init__(self, fails, sub):
        self.fails, self.sub = fails, sub

    def __enter__(self):
        return self

    def __exit__(self, et, ev, tb):
        if et is None:
            return False
        if issubclass(et, (KeyboardInterrupt, SystemExit, MemoryError)):
            return False
        if issubclass(et, Skip):
            return True
        import traceback

        loc = "".join(traceback.format_tb(tb)[-2:])
        self.fails.add(self.sub, f"exception: {et.__name__}: {ev}", loc)
        return True


def exc_str(e):
    return f"exception: {type(e).__name__}: {e}"


def jdump(o):
    return json.dumps(o, sort_keys=True, default=str)


def digest(o):
    return hashlib.sha1(jdump(o).encode()).hexdigest()[:16]
