import torch, gpytorch, warnings, math, itertools
warnings.filterwarnings("ignore")
torch.set_default_dtype(torch.float64)
from gpytorch.kernels import RBFKernel, MaternKernel
from gpytorch.functions import log_normal_cdf
torch.manual_seed(0)
def ref_matern(x1, x2, ls, nu):
    r = (x1.unsqueeze(-2)/ls.unsqueeze(-2) - x2.unsqueeze(-3)/ls.unsqueeze(-2)).pow(2).sum(-1).clamp_min(1e-30).sqrt()
    s = math.sqrt(2*nu)*r
    if nu==0.5: c=1
    elif nu==1.5: c=1+s
    else: c=1+s+s**2/3
    return c*torch.exp(-s)
def ref_rbf(x1,x2,ls):
    return torch.exp(-0.5*(x1.unsqueeze(-2)/ls.unsqueeze(-2) - x2.unsqueeze(-3)/ls.unsqueeze(-2)).pow(2).sum(-1))
for bs in [(), (2,)]:
    x1 = torch.randn(*bs, 4, 2); x2 = torch.cat([x1[..., :2, :], torch.randn(*bs, 1, 2)], -2)  # includes coincident points
    for name in ['rbf', 0.5, 1.5, 2.5]:
        k = RBFKernel(batch_shape=torch.Size(bs)) if name=='rbf' else MaternKernel(nu=name, batch_shape=torch.Size(bs))
        k.lengthscale = torch.rand(*bs,1,1)+0.5
        for same in (False, True):
            xa, xb = (x1, x1) if same else (x1, x2)
            G = torch.randn(*bs, xa.shape[-2], xb.shape[-2])
            out = k(xa, xb).to_dense()     # fast path (no requires grad)
            g_fast, = torch.autograd.grad((out*G).sum(), k.raw_lengthscale)
            xa2 = xa.clone().requires_grad_(True)
            out2 = k(xa2, xb).to_dense()    # generic path
            g_gen, = torch.autograd.grad((out2*G).sum(), k.raw_lengthscale)
            raw = k.raw_lengthscale.detach().clone().requires_grad_(True)
            ls = torch.nn.functional.softplus(raw).squeeze(-2)
            r = ref_rbf(xa, xb, ls) if name=='rbf' else ref_matern(xa, xb, ls, name)
            g_ref, = torch.autograd.grad((r*G).sum(), raw)
            print(bs, name, same, f'val fast-ref {(out-r).abs().max().item():.1e} gen-ref {(out2-r).abs().max().item():.1e} | grad fast-ref {(g_fast-g_ref).abs().max().item():.1e} gen-ref {(g_gen-g_ref).abs().max().item():.1e}')
z = torch.tensor([-30., -5., -1.0001, -1., -0.9999, -0.2001, -0.2, -0.1999, 0., 0.1999, 0.2, 0.2001, 1., 5.], requires_grad=True)
out = log_normal_cdf(z); g, = torch.autograd.grad(out.sum(), z)
from scipy.special import log_ndtr
import numpy as np
zz = z.detach().numpy(); ref = log_ndtr(zz); gref = np.exp(-0.5*zz**2 - 0.5*math.log(2*math.pi) - ref)
print('lncdf val err', np.abs(out.detach().numpy()-ref).max(), 'grad rel err', (np.abs(g.numpy()-gref)/gref).max())
