import torch, gpytorch, itertools, warnings, time
warnings.filterwarnings("ignore")
torch.set_default_dtype(torch.float64)
from gpytorch import settings as S
class M(gpytorch.models.ExactGP):
    def __init__(s, x, y, lik, bs=torch.Size()):
        super().__init__(x, y, lik)
        s.mean_module = gpytorch.means.ConstantMean(batch_shape=bs)
        s.covar_module = gpytorch.kernels.ScaleKernel(gpytorch.kernels.RBFKernel(batch_shape=bs), batch_shape=bs)
    def forward(s, x):
        return gpytorch.distributions.MultivariateNormal(s.mean_module(x), s.covar_module(x))
def setp(mod, lik):
    mod.covar_module.base_kernel.lengthscale = 0.7; mod.covar_module.outputscale = 1.3
    mod.mean_module.constant.data.fill_(0.4); lik.noise = 0.05
torch.manual_seed(1)
n, m, d, q = 5, 3, 2, 2
for mb, fb, shared in itertools.product([(), (2,)], [(), (3,)], [True, False]):
  for fpv, det in itertools.product([False, True],[True, False]):
    bs = torch.Size(mb)
    X = torch.randn(*mb, n, d); y = torch.randn(*mb, n); Xs = torch.randn(*mb, m, d)
    lik = gpytorch.likelihoods.GaussianLikelihood(batch_shape=bs); mod = M(X, y, lik, bs); setp(mod, lik); mod.eval(); lik.eval()
    try:
        with S.fast_pred_var(fpv), S.detach_test_caches(det):
            before = mod(Xs); bm, bc = before.mean.clone(), before.covariance_matrix.clone()
            if shared and fb:
                Xf = torch.randn(*mb, q, d); yf = torch.randn(*fb, *mb, q)
            else:
                Xf = torch.randn(*fb, *mb, q, d); yf = torch.randn(*fb, *mb, q)
            fm = mod.get_fantasy_model(Xf, yf)
            out = fm(Xs)
            after = mod(Xs)
            src = max((after.mean-bm).abs().max().item(), (after.covariance_matrix-bc).abs().max().item())
            # scratch
            full_b = torch.Size(fb+mb)
            Xall = torch.cat([X.expand(*full_b, n, d), Xf.expand(*full_b, q, d)], -2); yall = torch.cat([y.expand(*full_b, n), yf.expand(*full_b,q)], -1)
            lik2 = gpytorch.likelihoods.GaussianLikelihood(batch_shape=bs); m2 = M(Xall, yall, lik2, bs); setp(m2, lik2); m2.eval()
            ref = m2(Xs)
            em = (out.mean-ref.mean).abs().max().item(); ec = (out.covariance_matrix-ref.covariance_matrix).abs().max().item()
            # second-level fantasy
            Xf2 = torch.randn(*full_b, 1, d); yf2 = torch.randn(*full_b, 1)
            fm2 = fm.get_fantasy_model(Xf2, yf2); out2 = fm2(Xs)
            Xall2 = torch.cat([Xall, Xf2], -2); yall2 = torch.cat([yall, yf2], -1)
            lik3 = gpytorch.likelihoods.GaussianLikelihood(batch_shape=bs); m3 = M(Xall2, yall2, lik3, bs); setp(m3, lik3); m3.eval(); ref2 = m3(Xs)
            em2 = (out2.mean-ref2.mean).abs().max().item(); ec2 = (out2.covariance_matrix-ref2.covariance_matrix).abs().max().item()
        print(mb, fb, shared, fpv, det, 'err', f'{em:.1e} {ec:.1e} src {src:.1e} lvl2 {em2:.1e} {ec2:.1e}', tuple(out.mean.shape))
    except Exception as e:
        print(mb, fb, shared, fpv, det, 'EXC', type(e).__name__, str(e)[:100])
