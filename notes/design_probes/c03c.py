import torch, gpytorch, itertools, warnings, time, copy, contextlib, sys
warnings.filterwarnings("ignore")
torch.set_default_dtype(torch.float64)
from gpytorch import settings as S
from gpytorch.kernels import *
from gpytorch.variational import *
FAM = sys.argv[1]; DEPTH = int(sys.argv[2])
torch.manual_seed(1)
n, m, d = 5, 3, 1
DATA = [(torch.rand(n, d), torch.randn(n)) for _ in range(2)]
Xs = torch.rand(m, d); Z0 = torch.rand(3, d)
class E(gpytorch.models.ExactGP):
    def __init__(s, x, y):
        lik = gpytorch.likelihoods.GaussianLikelihood()
        super().__init__(x, y, lik)
        s.mean_module = gpytorch.means.ConstantMean()
        base = ScaleKernel(RBFKernel())
        if FAM == 'sgpr': s.covar_module = InducingPointKernel(base, inducing_points=Z0.clone(), likelihood=lik)
        elif FAM == 'kiss': s.covar_module = GridInterpolationKernel(base, grid_size=8, grid_bounds=[(-0.5, 1.5)])
        else: s.covar_module = base
    def forward(s, x): return gpytorch.distributions.MultivariateNormal(s.mean_module(x), s.covar_module(x))
class V(gpytorch.models.ApproximateGP):
    def __init__(s, x=None, y=None):
        vd = CholeskyVariationalDistribution(3)
        strat = {'svgp': VariationalStrategy, 'usvgp': UnwhitenedVariationalStrategy}[FAM]
        super().__init__(strat(s, Z0.clone(), vd, learn_inducing_locations=True))
        s.mean_module = gpytorch.means.ConstantMean(); s.covar_module = ScaleKernel(RBFKernel())
        s.likelihood = gpytorch.likelihoods.GaussianLikelihood(); s.data = (x, y)
    def forward(s, x): return gpytorch.distributions.MultivariateNormal(s.mean_module(x), s.covar_module(x))
IS_V = FAM in ('svgp', 'usvgp')
def new(data): return (V(*data) if IS_V else E(*data))
def perturbed_sd(seed):
    torch.manual_seed(seed); mm = new(DATA[0])
    if IS_V: mm.eval(); mm(Xs)  # initialise variational params
    sd = copy.deepcopy(mm.state_dict())
    for k in sd:
        if sd[k].dtype.is_floating_point and 'bound' not in k: sd[k] = sd[k] + 0.3*torch.randn_like(sd[k]) * (0.2 if 'chol' in k else 1)
    if IS_V: sd['variational_strategy._variational_distribution.chol_variational_covar'] = torch.tril(sd['variational_strategy._variational_distribution.chol_variational_covar']) + torch.eye(3)
    return sd
SD = [perturbed_sd(5), perturbed_sd(6)]
CTX = {'default': lambda: [], 'fpv': lambda: [S.fast_pred_var()], 'nolazy': lambda: [S.lazily_evaluate_kernels(False)],
       'attach': lambda: [S.detach_test_caches(False)], 'skip': lambda: [S.skip_posterior_variances()], 'nocorr': lambda: [S.sgpr_diagonal_correction(False)]}
def predict(mod, ctx, X=Xs):
    with contextlib.ExitStack() as st:
        for c in CTX[ctx](): st.enter_context(c)
        torch.manual_seed(0)
        out = mod(X)
        return out.mean.detach().clone(), (None if ctx == 'skip' else out.covariance_matrix.detach().clone())
OPS = [('predict', c) for c in CTX] + [('predictb',), ('train',), ('eval',), ('set_data', 1), ('load', 0), ('load', 1), ('step',), ('backward',), ('fantasy',), ('prior',)]
def apply(mod, st, op):
    k = op[0]
    if k == 'predict':
        if not mod.training: predict(mod, op[1])
    elif k == 'predictb':
        if not mod.training: predict(mod, 'default', Xs.expand(2, m, d))
    elif k == 'train': mod.train()
    elif k == 'eval': mod.eval()
    elif k == 'set_data':
        if IS_V: mod.data = DATA[op[1]]
        else: mod.set_train_data(*DATA[op[1]], strict=False)
        st['data'] = DATA[op[1]]
    elif k == 'load': mod.load_state_dict(SD[op[1]])
    elif k == 'step':
        if not mod.training: return
        opt = torch.optim.SGD(mod.parameters(), lr=0.05); opt.zero_grad()
        if IS_V: loss = -gpytorch.mlls.VariationalELBO(mod.likelihood, mod, num_data=n)(mod(st['data'][0]), st['data'][1])
        else: loss = -gpytorch.mlls.ExactMarginalLogLikelihood(mod.likelihood, mod)(mod(*mod.train_inputs), mod.train_targets)
        loss.backward(); opt.step()
    elif k == 'backward':
        if mod.training: return
        with S.detach_test_caches(False):
            out = mod(Xs)
            try: (out.mean.sum() + out.variance.sum()).backward()
            except RuntimeError as e: assert 'second time' in str(e), e
    elif k == 'fantasy':
        if mod.training: return
        try:
            if IS_V: mod.get_fantasy_model(torch.rand(2, d), torch.randn(2))
            elif mod.prediction_strategy is not None: mod.get_fantasy_model(torch.rand(2, d), torch.randn(2))
        except NotImplementedError: pass
    elif k == 'prior':
        if mod.training: return
        with S.prior_mode(): mod(Xs)
t0 = time.time(); nseq = 0; bad = 0; errs = 0
for seq in itertools.product(OPS, repeat=DEPTH):
    st = {'data': DATA[0]}
    mod = new(DATA[0]); mod.load_state_dict(SD[0]); mod.eval()
    try:
        for op in seq: apply(mod, st, op)
    except Exception as e:
        errs += 1
        if errs < 6: print('OPERR', seq, type(e).__name__, str(e)[:100])
        continue
    mod.eval()
    ref = new(st['data']); 
    for (k1, p1), (k2, p2) in zip(list(mod.named_parameters()) + list(mod.named_buffers()), list(ref.named_parameters()) + list(ref.named_buffers())):
        assert k1 == k2; p2.data.copy_(p1.data) if p1.shape == p2.shape else None
    ref.eval()
    for ctx in ('default', 'fpv'):
        try:
            a = predict(mod, ctx); b = predict(ref, ctx)
            e = max((a[0]-b[0]).abs().max().item(), (a[1]-b[1]).abs().max().item())
        except Exception as ex:
            e = 99; 
            if bad < 12: print('OBSERR', seq, ctx, type(ex).__name__, str(ex)[:100])
        if e > 1e-6:
            bad += 1
            if bad < 12: print('STALE', seq, ctx, e)
    nseq += 1
print(FAM, DEPTH, nseq, 'bad', bad, 'operr', errs, time.time()-t0)
