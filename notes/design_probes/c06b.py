import torch, gpytorch, warnings
warnings.filterwarnings("ignore")
torch.set_default_dtype(torch.float64)
from gpytorch.kernels import *
from linear_operator import to_linear_operator
torch.manual_seed(0)
x1 = torch.randn(3,2); x2 = torch.randn(2,2)
k = RBFKernel()
lazy = k(x1,x2); dense = lazy.to_dense()
D = to_linear_operator(dense.clone())
for idx in [(-3,-1), (-1,-1), (0,-1), (-1,0), (2,1), (-1, slice(None)), (slice(None), -1), (-2, slice(None)), (torch.tensor([1,0]), -1)]:
    for name, op in [('lazyK', k(x1,x2)), ('denseLO', D)]:
        try:
            o = op[idx]; o = o.to_dense() if hasattr(o,'to_dense') else o
            r = dense[idx]
            print(idx, name, tuple(o.shape), tuple(r.shape), 'ok' if o.shape==r.shape and (o-r).abs().max()<1e-12 else 'MISMATCH')
        except Exception as e: print(idx, name, 'EXC', type(e).__name__, str(e)[:60])
mk = MultitaskKernel(RBFKernel(), num_tasks=2)
lz = mk(x1,x2); dn = lz.to_dense(); print(dn.shape)
for idx in [(0,0),(1,2),(-6,-1),(5,3),(slice(None),slice(None,0)),(slice(None),slice(4,None)),(slice(0,2),slice(0,2)),(slice(1,3),slice(None)), (torch.tensor([0,3]), torch.tensor([1,2]))]:
    try:
        o = mk(x1,x2)[idx]; o = o.to_dense() if hasattr(o,'to_dense') else o; r = dn[idx]
        print('MT', idx, tuple(o.shape), tuple(r.shape), 'ok' if o.shape==r.shape and (r.numel()==0 or (o-r).abs().max()<1e-12) else 'MISMATCH')
    except Exception as e: print('MT', idx, 'EXC', type(e).__name__, str(e)[:70])
