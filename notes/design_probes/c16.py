import torch, gpytorch, itertools, warnings, time
warnings.filterwarnings("ignore")
torch.set_default_dtype(torch.float64)
from gpytorch import settings as S
class M(gpytorch.models.ExactGP):
    def __init__(s, x, y, lik, bs=torch.Size()):
        super().__init__(x, y, lik)
        s.mean_module = gpytorch.means.ConstantMean(batch_shape=bs)
        s.covar_module = gpytorch.kernels.ScaleKernel(gpytorch.kernels.RBFKernel(batch_shape=bs), batch_shape=bs)
    def forward(s, x):
        return gpytorch.distributions.MultivariateNormal(s.mean_module(x), s.covar_module(x))
def setp(mod, lik):
    mod.covar_module.base_kernel.lengthscale = 0.7; mod.covar_module.outputscale = 1.3
    mod.mean_module.constant.data.fill_(0.4); lik.noise = 0.05
torch.manual_seed(1)
n, m, d = 4, 3, 2
X = torch.randn(n, d); y0 = torch.randn(n); Xs = torch.randn(m, d)
for mask in itertools.product([0,1], repeat=n):
    if sum(mask)==n: continue
    obs = torch.tensor([not b for b in mask])
    y = y0.clone(); y[~obs] = float('nan')
    lik = gpytorch.likelihoods.GaussianLikelihood(); mod = M(X[obs], y0[obs], lik); setp(mod, lik); mod.eval()
    ref = mod(Xs); mod.train(); 
    mll = gpytorch.mlls.ExactMarginalLogLikelihood(lik, mod)
    mref = mll(mod(X[obs]), y0[obs]).item() * int(obs.sum())
    res = {}
    for order in (['mask','fill'], ['fill','mask']):
        lik2 = gpytorch.likelihoods.GaussianLikelihood(); m2 = M(X, y, lik2); setp(m2, lik2); m2.eval()
        for pol in order:
            try:
                with S.observation_nan_policy(pol):
                    out = m2(Xs)
                    em = (out.mean-ref.mean).abs().max().item(); ec=(out.covariance_matrix-ref.covariance_matrix).abs().max().item()
                res[(tuple(order),pol)] = (em, ec)
            except Exception as e:
                res[(tuple(order),pol)] = ('EXC', type(e).__name__, str(e)[:60])
        m2.train()
        with S.observation_nan_policy('mask'):
            mm = gpytorch.mlls.ExactMarginalLogLikelihood(lik2, m2)(m2(X), y).item() * n
    print(mask, {k: (f'{v[0]:.0e}', f'{v[1]:.0e}') if v[0]!='EXC' else v for k,v in res.items()}, f'mll {abs(mm-mref):.1e}')
