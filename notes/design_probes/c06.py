import torch, gpytorch, warnings, math, itertools, collections
warnings.filterwarnings("ignore")
torch.set_default_dtype(torch.float64)
from gpytorch import settings as S
from gpytorch.kernels import *
torch.manual_seed(0)
def idx_alphabet(size):
    ints = list(range(-size, size))
    ends = [None, 0, 1, -1, size, size + 1]
    sl = [slice(a, b, s) for a in ends for b in ends for s in (None, 2)]
    tens = [torch.tensor([0]), torch.tensor([size - 1, 0]), torch.tensor([0, 0, size - 1])]
    return ints + sl + tens
def show(i): return f'T{i.tolist()}' if torch.is_tensor(i) else repr(i)
kernels = {
  'RBF': lambda b: RBFKernel(batch_shape=b),
  'Scale(Matern)': lambda b: ScaleKernel(MaternKernel(batch_shape=b), batch_shape=b),
  'RBF+Lin': lambda b: RBFKernel(batch_shape=b) + LinearKernel(batch_shape=b),
  'RBF*Per': lambda b: RBFKernel(batch_shape=b) * PeriodicKernel(batch_shape=b),
  'Multitask': lambda b: MultitaskKernel(RBFKernel(batch_shape=b), num_tasks=2, rank=1),
  'RBFGrad': lambda b: RBFKernelGrad(batch_shape=b),
}
bad = collections.Counter(); tot = 0; examples = {}
for kname, mk in kernels.items():
  for kb, xb in [((), ()), ((2,), (2,)), ((), (2,)), ((2,), ())]:
    if kname == 'RBFGrad' and kb != xb: continue
    k = mk(torch.Size(kb))
    with torch.no_grad():
        for p in k.parameters(): p.copy_(torch.randn_like(p) * 0.4)
    n1, n2, d = 3, 2, 2
    x1 = torch.randn(*xb, n1, d); x2 = torch.randn(*xb, n2, d)
    with S.lazily_evaluate_kernels(False): dense = k(x1, x2).to_dense()
    bb = dense.shape[:-2]
    R, C = dense.shape[-2:]
    batch_alpha = [()] if len(bb) == 0 else [(i,) for i in [0, 1, -1, slice(None), slice(0, 1), torch.tensor([1, 0])]]
    for bi in batch_alpha:
        for ri in idx_alphabet(R):
            for ci in idx_alphabet(C):
                idx = (*bi, ri, ci)
                try: ref = dense[idx]
                except IndexError: continue
                tot += 1
                try:
                    lazy = k(x1, x2)
                    out = lazy[idx]
                    out = out.to_dense() if hasattr(out, 'to_dense') else out
                    ok = out.shape == ref.shape and (out - ref).abs().max().item() < 1e-9 if ref.numel() else out.shape == ref.shape
                    if not ok:
                        key = (kname, kb, xb, 'MISMATCH'); bad[key] += 1; examples.setdefault(key, (tuple(show(i) for i in idx), tuple(out.shape), tuple(ref.shape)))
                except Exception as e:
                    key = (kname, kb, xb, 'EXC ' + type(e).__name__ + ' ' + str(e)[:50]); bad[key] += 1; examples.setdefault(key, tuple(show(i) for i in idx))
print('total', tot)
for k_, v in bad.items(): print(v, k_, examples[k_])
