import torch, gpytorch, warnings, itertools, math
warnings.filterwarnings("ignore")
torch.set_default_dtype(torch.float64)
from gpytorch.distributions import MultivariateNormal as MVN, Delta
from linear_operator.operators import *
from linear_operator import to_linear_operator
torch.manual_seed(0)
bad = []; cnt = 0
def mk(bs, N, kind):
    A = torch.randn(*bs, N, N); C = A @ A.mT + 0.5 * torch.eye(N)
    if kind == 'dense': return C, C
    if kind == 'lo': return to_linear_operator(C), C
    if kind == 'diag':
        dg = torch.rand(*bs, N) + 0.5; return DiagLinearOperator(dg), torch.diag_embed(dg)
    if kind == 'chol': return CholLinearOperator(TriangularLinearOperator(torch.linalg.cholesky(C))), C
    if kind == 'root': return RootLinearOperator(A), A @ A.mT
kinds = ['dense', 'lo', 'diag', 'chol', 'root']
# KL
for bs, k1, k2 in itertools.product([(), (2,)], kinds, kinds):
    N = 3; m1 = torch.randn(*bs, N); m2 = torch.randn(*bs, N); c1, C1 = mk(bs, N, k1); c2, C2 = mk(bs, N, k2)
    cnt += 1
    try:
        kl = torch.distributions.kl_divergence(MVN(m1, c1), MVN(m2, c2))
        ref = torch.distributions.kl_divergence(torch.distributions.MultivariateNormal(m1, C1), torch.distributions.MultivariateNormal(m2, C2))
        if (kl - ref).abs().max() > 1e-8: bad.append(('KL', bs, k1, k2, (kl - ref).abs().max().item()))
        kl0 = torch.distributions.kl_divergence(MVN(m1, c1), MVN(m1, c1))
        if kl0.abs().max() > 1e-8: bad.append(('KLself', bs, k1, kl0.abs().max().item()))
    except Exception as e: bad.append(('KL EXC', bs, k1, k2, str(e)[:60]))
# rsample basis, variance, confidence region, arithmetic, expand, unsqueeze, add_jitter
for bs, k1 in itertools.product([(), (2,), (2, 3)], kinds):
    N = 3; m = torch.randn(*bs, N); c, C = mk(bs, N, k1); d = MVN(m, c); cnt += 1
    try:
        E = torch.eye(N).view(N, *([1] * len(bs)), N).expand(N, *bs, N)
        S = d.rsample(base_samples=E) - m; L = S.movedim(0, -1)
        if (L @ L.mT - C).abs().max() > 1e-8: bad.append(('rsample', bs, k1, (L @ L.mT - C).abs().max().item()))
        if (d.variance - C.diagonal(dim1=-1, dim2=-2)).abs().max() > 1e-10: bad.append(('var', bs, k1))
        lo, hi = d.confidence_region(); sd = C.diagonal(dim1=-1, dim2=-2).sqrt()
        if (lo - (m - 2 * sd)).abs().max() > 1e-10 or (hi - (m + 2 * sd)).abs().max() > 1e-10: bad.append(('conf', bs, k1))
        for op, fm, fc in [(lambda x: x + 1.5, lambda m: m + 1.5, lambda C: C), (lambda x: x * 3, lambda m: m * 3, lambda C: C * 9), (lambda x: x / 2, lambda m: m / 2, lambda C: C / 4), (lambda x: x + x, lambda m: 2 * m, lambda C: 2 * C), (lambda x: x.add_jitter(0.1), lambda m: m, lambda C: C + 0.1 * torch.eye(N))]:
            o = op(d)
            if (o.mean - fm(m)).abs().max() > 1e-10 or (o.covariance_matrix - fc(C)).abs().max() > 1e-10: bad.append(('arith', bs, k1))
        e = d.expand(torch.Size([4, *bs]))
        if e.mean.shape != torch.Size([4, *bs, N]) or (e.covariance_matrix - C.expand(4, *bs, N, N)).abs().max() > 1e-10 or (e.mean - m).abs().max() > 1e-10: bad.append(('expand', bs, k1))
        v = torch.randn(4, *bs, N)
        if (e.log_prob(v) - torch.distributions.MultivariateNormal(m, C).log_prob(v)).abs().max() > 1e-8: bad.append(('expand logprob', bs, k1))
        for dim in range(-len(bs) - 1, len(bs) + 1):
            u = d.unsqueeze(dim)
            if u.mean.shape != m.unsqueeze(dim if dim >= 0 else dim - 1).shape or (u.covariance_matrix - C.unsqueeze(dim if dim >= 0 else dim - 2)).abs().max() > 1e-10: bad.append(('unsqueeze', bs, k1, dim))
    except Exception as e: bad.append(('EXC', bs, k1, type(e).__name__, str(e)[:70]))
# getitem over index alphabet
def alpha(size):
    ends = [None, 0, 1, -1, size + 1]
    return list(range(-size, size)) + [slice(a, b, s) for a in ends for b in ends for s in (None, 2)] + [torch.tensor([0]), torch.tensor([size - 1, 0]), Ellipsis]
for bs, k1 in itertools.product([(), (2,)], kinds):
    N = 3; m = torch.randn(*bs, N); c, C = mk(bs, N, k1); d = MVN(m, c)
    dims = [alpha(s) for s in (*bs, N)]
    for idx in itertools.product(*dims):
        if sum(1 for i in idx if i is Ellipsis) > 1: continue
        for ix in ({idx, idx[:-1]} if len(idx) > 1 else {idx}):
            try: mref = m[ix]
            except IndexError: continue
            if mref.dim() == 0 or mref.numel() == 0: continue
            cnt += 1
            # reference covariance: gather index map
            pos = torch.arange(m.numel()).view(m.shape)[ix]  # flat positions into m
            # joint over all (batch, event) positions: block diag; covariance between pos p,q: same batch -> C[b][i,j] else 0 ; result event = last dim of pos
            try:
                o = d[ix]
                ev = pos.shape[-1]; pb = pos.reshape(-1, ev)
                ref = torch.zeros(pb.shape[0], ev, ev)
                for r in range(pb.shape[0]):
                    for a in range(ev):
                        for b_ in range(ev):
                            pa, pq = pb[r, a].item(), pb[r, b_].item(); ba, ia = divmod(pa, N); bq, iq = divmod(pq, N)
                            ref[r, a, b_] = C.reshape(-1, N, N)[ba, ia, iq] if ba == bq else 0.0
                ref = ref.view(*pos.shape[:-1], ev, ev)
                if o.mean.shape != mref.shape or (o.mean - mref).abs().max() > 1e-10 or o.covariance_matrix.shape != ref.shape or (o.covariance_matrix - ref).abs().max() > 1e-10:
                    bad.append(('getitem', bs, k1, str(ix)[:60], tuple(o.covariance_matrix.shape), tuple(ref.shape)))
            except Exception as e: bad.append(('getitem EXC', bs, k1, str(ix)[:60], type(e).__name__ + ' ' + str(e)[:50]))
import collections
c = collections.Counter((b[0], b[2] if len(b) > 2 else '') for b in bad)
print(cnt, 'checks'); 
for k_, v in c.items(): print(v, k_, [b for b in bad if (b[0], b[2] if len(b) > 2 else '') == k_][:2])
