import torch, gpytorch, warnings, math, itertools
warnings.filterwarnings("ignore")
torch.set_default_dtype(torch.float64)
from gpytorch.variational.natural_variational_distribution import _NaturalToMuVarSqrt
from gpytorch.variational.tril_natural_variational_distribution import _TrilNaturalToMuVarSqrt
torch.manual_seed(0)
M = 3
def eta_to_muL(e1, e2):
    mu = e1; Sg = e2 - mu.unsqueeze(-1) @ mu.unsqueeze(-2); return mu, torch.linalg.cholesky(Sg)
for bs in [(), (2,)]:
    A = torch.randn(*bs, M, M); P = A @ A.mT + torch.eye(M); nat_mat = (-0.5 * P).requires_grad_(True); nat_vec = torch.randn(*bs, M, requires_grad=True)
    mu, L = _NaturalToMuVarSqrt.apply(nat_vec, nat_mat)
    # check forward
    Sg = torch.linalg.inv(P); print(bs, 'fwd mu', (mu - (Sg @ nat_vec.unsqueeze(-1)).squeeze(-1)).abs().max().item(), 'LLt', (L @ L.mT - Sg).abs().max().item())
    worst = 0
    # basis upstream grads
    for which, shape in (('mu', mu.shape), ('L', L.shape)):
        for flat in range(mu.numel() if which == 'mu' else L.numel()):
            gmu = torch.zeros(mu.shape); gL = torch.zeros(L.shape)
            (gmu if which == 'mu' else gL).view(-1)[flat] = 1.0
            if which == 'L':
                # only lower-triangular entries are meaningful
                ij = flat % (M * M); 
                if ij // M < ij % M: continue
            g1, g2 = torch.autograd.grad([mu, L], [nat_vec, nat_mat], [gmu, gL], retain_graph=True)
            # reference: gradient wrt expectation params of f(eta) = <gmu, mu(eta)> + <gL, L(eta)>
            e1 = mu.detach().clone().requires_grad_(True); e2 = (L @ L.mT + mu.unsqueeze(-1) @ mu.unsqueeze(-2)).detach().clone().requires_grad_(True)
            m2, L2 = eta_to_muL(e1, e2); f = (gmu * m2).sum() + (gL * L2).sum()
            r1, r2 = torch.autograd.grad(f, [e1, e2])
            r2 = 0.5 * (r2 + r2.mT)
            worst = max(worst, (g1 - r1).abs().max().item(), (g2 - r2).abs().max().item())
    print(bs, 'Natural backward vs expectation-param gradient, worst', worst)
