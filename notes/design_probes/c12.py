import torch, gpytorch, warnings, itertools, math
warnings.filterwarnings("ignore")
torch.set_default_dtype(torch.float64)
from gpytorch.likelihoods import MultitaskGaussianLikelihood
from gpytorch.distributions import MultitaskMultivariateNormal as MT
torch.manual_seed(0)
n,t=3,2
for rank, glob, task, inter in itertools.product([0,1,2],[True,False],[True,False],[True,False]):
    if not (glob or task): continue
    try:
        lik = MultitaskGaussianLikelihood(num_tasks=t, rank=rank, has_global_noise=glob, has_task_noise=task)
        if glob: lik.noise = 0.3
        if task and rank==0: lik.task_noises = torch.tensor([0.1,0.7])
        A = torch.randn(n*t,n*t); C = A@A.T+torch.eye(n*t); mean = torch.randn(n,t)
        d = MT(mean, C, interleaved=inter)
        out = lik(d)
        R = out.covariance_matrix - C
        # expected
        if task:
            D = torch.diag(torch.tensor([0.1,0.7])) if rank==0 else lik.task_noise_covar_factor@lik.task_noise_covar_factor.T
        else: D = torch.zeros(t,t)
        if glob: D = D + 0.3*torch.eye(t)
        Rref = torch.kron(torch.eye(n), D) if inter else torch.kron(D, torch.eye(n))
        e1 = (R-Rref).abs().max().item()
        # ELP / log_marginal
        y = torch.randn(n,t)
        elp = lik.expected_log_prob(y, d)
        # reference E log N(y|f,R) with f~N(m, diag C): for general R: -0.5[(y-m)^T R^-1 (y-m) + tr(R^-1 diag(C)) + logdet R + nt log 2pi] summed per point
        # arrange per point i: R_i = D (t x t)
        var = d.variance
        ref = torch.stack([-0.5*((y[i]-mean[i]) @ torch.linalg.solve(D, y[i]-mean[i]) + (torch.linalg.inv(D).diagonal()*var[i]).sum() + torch.logdet(D) + t*math.log(2*math.pi)) for i in range(n)])
        e2 = (elp-ref).abs().max().item() if elp.shape==ref.shape else ('shape', tuple(elp.shape))
        lm = lik.log_marginal(y, d)
        ref_lm = torch.distributions.Normal(mean, (var + Rref.diagonal().view(n,t) if inter else var + Rref.diagonal().view(t,n).T).sqrt()).log_prob(y).sum(-1)
        e3 = (lm-ref_lm).abs().max().item() if lm.shape==ref_lm.shape else ('shape', tuple(lm.shape))
        print(rank, glob, task, inter, f'marg {e1:.1e}', 'elp', e2, 'lm', e3)
    except Exception as e:
        print(rank, glob, task, inter, 'EXC', type(e).__name__, str(e)[:90])
