import torch, gpytorch, warnings
warnings.filterwarnings("ignore")
torch.set_default_dtype(torch.float64)
from gpytorch import settings as S
exec(open('c03.py').read().split("torch.manual_seed(1)")[0].split("class M")[1].join(["class M",""]) if False else "")
class M(gpytorch.models.ExactGP):
    def __init__(s, x, y, lik):
        super().__init__(x, y, lik)
        s.mean_module = gpytorch.means.ConstantMean()
        s.covar_module = gpytorch.kernels.ScaleKernel(gpytorch.kernels.RBFKernel())
    def forward(s, x):
        return gpytorch.distributions.MultivariateNormal(s.mean_module(x), s.covar_module(x))
torch.manual_seed(1)
X, y, Xs = torch.randn(4,1), torch.randn(4), torch.randn(3,1)
for first in ['backward', 'attach_predict', 'default_predict']:
    mod = M(X, y, gpytorch.likelihoods.GaussianLikelihood()).eval()
    try:
        if first == 'attach_predict':
            with S.detach_test_caches(False): mod(Xs)
        elif first == 'default_predict': mod(Xs)
        for i in range(2):
            with S.detach_test_caches(False):
                out = mod(Xs); (out.mean.sum() + out.variance.sum()).backward()
            print(first, 'backward', i, 'ok', mod.prediction_strategy is None or list(mod.prediction_strategy._memoize_cache.keys()) if hasattr(mod.prediction_strategy,'_memoize_cache') else 'nocache')
    except Exception as e:
        print(first, 'EXC at', i, str(e)[:70])
