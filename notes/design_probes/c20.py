import torch, gpytorch, warnings, itertools, inspect
warnings.filterwarnings("ignore")
from gpytorch import settings as S, beta_features as B
import linear_operator.settings as LS
names = list(S.__all__) + ['beta:'+n for n in B.__all__]
def get(n): return getattr(B, n[5:]) if n.startswith('beta:') else getattr(S, n)
for n in names:
    c = get(n)
    kind = [b.__name__ for b in c.__mro__ if b.__name__ in ('_feature_flag','_value_context','_dtype_value_context')]
    print(n, kind, c.__module__, inspect.signature(c.__init__))
