import torch, gpytorch, warnings, pickle, copy, io
warnings.filterwarnings("ignore")
torch.set_default_dtype(torch.float64)
from gpytorch import settings as S
class M(gpytorch.models.ExactGP):
    def __init__(s, x, y, lik):
        super().__init__(x, y, lik)
        s.mean_module = gpytorch.means.ConstantMean()
        s.covar_module = gpytorch.kernels.ScaleKernel(gpytorch.kernels.RBFKernel())
    def forward(s, x):
        return gpytorch.distributions.MultivariateNormal(s.mean_module(x), s.covar_module(x))
torch.manual_seed(1)
X, y, Xs = torch.randn(4,1), torch.randn(4), torch.randn(3,1)
def mk():
    m = M(X, y, gpytorch.likelihoods.GaussianLikelihood()); m.covar_module.base_kernel.lengthscale=0.6; return m
for hist in ['fresh','eval_predict','eval_predict_fpv','eval_predict_attach','train_fwd']:
    m = mk()
    if hist.startswith('eval'):
        m.eval()
        with S.fast_pred_var('fpv' in hist), S.detach_test_caches('attach' not in hist): m(Xs)
    elif hist=='train_fwd':
        m.train(); m(X)
    for how in ['pickle','deepcopy','torchsave']:
        try:
            if how=='pickle': m2 = pickle.loads(pickle.dumps(m))
            elif how=='deepcopy': m2 = copy.deepcopy(m)
            else:
                b = io.BytesIO(); torch.save(m, b); b.seek(0); m2 = torch.load(b, weights_only=False)
            m.eval(); m2.eval()
            a, b_ = m(Xs), m2(Xs)
            print(hist, how, 'ok', (a.mean-b_.mean).abs().max().item(), (a.covariance_matrix-b_.covariance_matrix).abs().max().item(), m2.training, m2.prediction_strategy is None)
        except Exception as e:
            print(hist, how, 'EXC', type(e).__name__, str(e)[:90])
