import torch, gpytorch, warnings, math, itertools
warnings.filterwarnings("ignore")
torch.set_default_dtype(torch.float64)
from gpytorch.kernels import *
torch.manual_seed(0)
def geoms(n, d):
    g = {}
    x = torch.randn(n, d); g['generic'] = x
    y = x.clone(); y[1] = y[0]; g['dup'] = y
    for eps in (1e-3, 1e-6, 1e-9):
        y = x.clone(); y[1] = y[0] + eps; y[2 % n] = y[0] - eps; g[f'cluster{eps}'] = y
    g['collinear'] = torch.linspace(0, 1, n).unsqueeze(-1).repeat(1, d)
    g['far'] = x * 1e3
    return g
kerns = {
 'RBF': lambda d: RBFKernel(), 'Matern0.5': lambda d: MaternKernel(nu=0.5), 'Matern1.5': lambda d: MaternKernel(nu=1.5), 'Matern2.5': lambda d: MaternKernel(nu=2.5),
 'RQ': lambda d: RQKernel(), 'Periodic': lambda d: PeriodicKernel(), 'Linear': lambda d: LinearKernel(), 'Poly2': lambda d: PolynomialKernel(power=2),
 'PP0': lambda d: PiecewisePolynomialKernel(q=0), 'PP1': lambda d: PiecewisePolynomialKernel(q=1), 'PP2': lambda d: PiecewisePolynomialKernel(q=2), 'PP3': lambda d: PiecewisePolynomialKernel(q=3),
 'Const': lambda d: ConstantKernel(), 'SM': lambda d: SpectralMixtureKernel(num_mixtures=2, ard_num_dims=d), 'RBFGrad': lambda d: RBFKernelGrad(), 'M52Grad': lambda d: Matern52KernelGrad(),
 'RBFGradGrad': lambda d: RBFKernelGradGrad(), 'PolyGrad': lambda d: PolynomialKernelGrad(power=2), 'Multitask': lambda d: MultitaskKernel(RBFKernel(), num_tasks=2), 'RFF': lambda d: RFFKernel(num_samples=3, num_dims=d),
 'SD': lambda d: SpectralDeltaKernel(num_dims=d, num_deltas=4), 'Arc': lambda d: ArcKernel(MaternKernel(nu=2.5), ard_num_dims=d),
}
worst = {}
for (n, d) in [(3, 1), (5, 2)]:
    for gname, x in geoms(n, d).items():
        for kname, mk in kerns.items():
            for ls in (1e-2, 1.0, 1e2):
                k = mk(d)
                if getattr(k, 'has_lengthscale', False):
                    try: k.lengthscale = ls
                    except Exception: pass
                elif ls != 1.0: continue
                xx = x
                if kname == 'Arc': xx = torch.sigmoid(x) * 0.9
                try:
                    K = k(xx).to_dense()
                except Exception as e:
                    worst[(kname, 'EXC', str(e)[:40])] = (gname, n, d, ls); continue
                asym = (K - K.mT).abs().max().item() / max(K.abs().max().item(), 1e-300)
                ev = torch.linalg.eigvalsh(0.5 * (K + K.mT)); rel = (ev.min() / ev.abs().max().clamp_min(1e-300)).item()
                if not math.isfinite(rel) or rel < -1e-10 or asym > 1e-12:
                    key = (kname,); 
                    if key not in worst or rel < worst[key][0]: worst[key] = (rel, asym, gname, n, d, ls)
for k_, v in worst.items(): print(k_, v)
print('done')
