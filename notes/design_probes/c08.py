import torch, gpytorch, warnings, itertools, copy, inspect
warnings.filterwarnings("ignore")
torch.set_default_dtype(torch.float64)
from gpytorch.kernels import *
torch.manual_seed(0)
d=2
def cat(bs):
    return {
     'RBF': lambda: RBFKernel(batch_shape=bs), 'RBF_ard': lambda: RBFKernel(ard_num_dims=d, batch_shape=bs),
     'Matern15': lambda: MaternKernel(nu=1.5, batch_shape=bs), 'RQ': lambda: RQKernel(batch_shape=bs, ard_num_dims=d),
     'Periodic': lambda: PeriodicKernel(batch_shape=bs, ard_num_dims=d), 'Cosine': lambda: CosineKernel(batch_shape=bs),
     'Linear': lambda: LinearKernel(batch_shape=bs), 'Poly': lambda: PolynomialKernel(power=2, batch_shape=bs),
     'PP': lambda: PiecewisePolynomialKernel(q=2, batch_shape=bs), 'Const': lambda: ConstantKernel(batch_shape=bs),
     'Scale': lambda: ScaleKernel(RBFKernel(batch_shape=bs), batch_shape=bs),
     'SM': lambda: SpectralMixtureKernel(num_mixtures=2, ard_num_dims=d, batch_shape=bs),
     'Arc': lambda: ArcKernel(MaternKernel(nu=2.5, batch_shape=bs), ard_num_dims=d, batch_shape=bs),
     'RBFGrad': lambda: RBFKernelGrad(batch_shape=bs),
     'Sum': lambda: RBFKernel(batch_shape=bs) + LinearKernel(batch_shape=bs),
    }
shapes=[(),(2,),(1,),(2,3),(1,3),(2,1)]
res={}
for name in cat(torch.Size()):
  for pb, xb in itertools.product(shapes, shapes):
    try: bb = torch.broadcast_shapes(pb, xb)
    except RuntimeError: continue
    if len(bb)==0: continue
    k = cat(torch.Size(pb))[name]()
    with torch.no_grad():
        for p in k.parameters(): p.copy_(torch.randn_like(p)*0.5)
    x1 = torch.randn(*xb, 3, d); x2 = torch.randn(*xb, 2, d)
    key=(name,)
    try:
        full = k(x1, x2).to_dense()
        assert full.shape[:-2]==bb, (full.shape, bb)
        worst=0
        for b in itertools.product(*[range(s) for s in bb]):
            kb = cat(torch.Size())[name]()
            # copy params slice b
            for (pn, p), (_, q) in zip(k.named_parameters(), kb.named_parameters()):
                pe = p.expand(*bb, *p.shape[len(pb):]) if len(pb) else p.expand(*bb, *p.shape)
                with torch.no_grad(): q.copy_(pe[b].reshape(q.shape))
            xe1 = x1.expand(*bb, 3, d)[b]; xe2 = x2.expand(*bb, 2, d)[b]
            worst = max(worst, (kb(xe1, xe2).to_dense()-full[b]).abs().max().item())
        res.setdefault(name, []).append((pb, xb, worst))
    except Exception as e:
        res.setdefault(name, []).append((pb, xb, 'EXC '+type(e).__name__+' '+str(e)[:60]))
for name, rows in res.items():
    bad = [r for r in rows if not (isinstance(r[2], (int,float)) and r[2] < 1e-9)]
    print(name, len(rows), 'cells; bad:', len(bad), bad[:4])
