import torch, gpytorch, warnings
warnings.filterwarnings("ignore")
torch.set_default_dtype(torch.float64)
from gpytorch.kernels import *
class E(gpytorch.models.ExactGP):
    def __init__(s, x, y):
        super().__init__(x, y, gpytorch.likelihoods.GaussianLikelihood())
        s.mean_module = gpytorch.means.ConstantMean()
        s.covar_module = GridInterpolationKernel(ScaleKernel(RBFKernel()), grid_size=8, grid_bounds=[(-0.5, 1.5)])
    def forward(s, x): return gpytorch.distributions.MultivariateNormal(s.mean_module(x), s.covar_module(x))
torch.manual_seed(0)
X, y, Xs = torch.rand(5,1), torch.randn(5), torch.rand(3,1)
m = E(X, y).eval()
a = m(Xs).mean
try:
    m.get_fantasy_model(torch.rand(2,1), torch.randn(2))
except Exception as e:
    print('fantasy raised:', type(e).__name__, str(e)[:80])
print('train_inputs after:', m.train_inputs, 'likelihood:', m.likelihood, 'strategy:', m.prediction_strategy)
try:
    b = m(Xs).mean; print('next prediction diff', (a-b).abs().max().item())
except Exception as e: print('next predict raised', type(e).__name__, e)
# with no_grad
m = E(X, y).eval()
with torch.no_grad():
    a = m(Xs); fm = m.get_fantasy_model(torch.rand(2,1), torch.randn(2)); print('no_grad fantasy ok', fm(Xs).mean.shape)
