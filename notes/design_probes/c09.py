import torch, gpytorch, warnings, math, itertools
warnings.filterwarnings("ignore")
torch.set_default_dtype(torch.float64)
from gpytorch import settings as S
from gpytorch.kernels import *
torch.manual_seed(0)
n, m, d = 6, 4, 1
X = torch.rand(n, d); y = torch.randn(n); Xs = torch.rand(m, d)
class M(gpytorch.models.ExactGP):
    def __init__(s, x, y, lik, kern):
        super().__init__(x, y, lik); s.mean_module = gpytorch.means.ConstantMean(); s.covar_module = kern
    def forward(s, x): return gpytorch.distributions.MultivariateNormal(s.mean_module(x), s.covar_module(x))
def dense_post(Kfull, mu, s2, y, n):
    Kxx = Kfull[:n,:n] + s2*torch.eye(n); Ksx = Kfull[n:,:n]; Kss = Kfull[n:,n:]
    return mu + Ksx @ torch.linalg.solve(Kxx, y-mu), Kss - Ksx @ torch.linalg.solve(Kxx, Ksx.T)
def mk(kind):
    lik = gpytorch.likelihoods.GaussianLikelihood(); lik.noise = 0.1
    base = ScaleKernel(RBFKernel()); base.base_kernel.lengthscale = 0.4; base.outputscale = 1.2
    if kind == 'sgpr': k = InducingPointKernel(base, inducing_points=torch.rand(3, d), likelihood=lik)
    elif kind == 'kiss': k = GridInterpolationKernel(base, grid_size=10, grid_bounds=[(-0.2, 1.2)])
    elif kind == 'rff':
        k = RFFKernel(num_samples=5, num_dims=d); k.lengthscale = 0.4
    mod = M(X, y, lik, k); mod.mean_module.constant.data.fill_(0.25); return mod, lik
for kind in ['sgpr', 'kiss', 'rff']:
  for fpv, chol, corr in itertools.product([False, True], [800, 0], [True, False]):
    mod, lik = mk(kind); mod.eval(); lik.eval()
    with S.fast_pred_var(fpv), S.max_cholesky_size(chol), S.sgpr_diagonal_correction(corr), S.eval_cg_tolerance(1e-12), S.cg_tolerance(1e-12), S.max_cg_iterations(500), torch.no_grad():
        try:
            out = mod(Xs)
            Kfull = mod.covar_module(torch.cat([X, Xs])).to_dense()
            if kind == 'sgpr':
                # test-test block uses base kernel (lazy path) ; train block with diag correction
                Z = mod.covar_module.inducing_points; bk = mod.covar_module.base_kernel
                Kzz = bk(Z).to_dense(); 
                A = bk(torch.cat([X,Xs]), Z).to_dense(); Q = A @ torch.linalg.solve(Kzz, A.T)
                Kb = bk(torch.cat([X,Xs])).to_dense()
                Ktr = Q[:n,:n] + (torch.diag((Kb[:n,:n]-Q[:n,:n]).diagonal()) if corr else 0)
                Kxx = Ktr + 0.1*torch.eye(n); Ksx = Q[n:,:n]; 
                mean_ref = 0.25 + Ksx @ torch.linalg.solve(Kxx, y-0.25)
                cov_ref1 = Kb[n:,n:] - Ksx @ torch.linalg.solve(Kxx, Ksx.T)
                em = (out.mean-mean_ref).abs().max().item(); ec = (out.covariance_matrix-cov_ref1).abs().max().item()
            else:
                mr, cr = dense_post(Kfull, 0.25, 0.1, y, n)
                em = (out.mean-mr).abs().max().item(); ec = (out.covariance_matrix-cr).abs().max().item()
            print(kind, fpv, chol, corr, f'{em:.1e} {ec:.1e}')
        except Exception as e:
            print(kind, fpv, chol, corr, 'EXC', type(e).__name__, str(e)[:80])
