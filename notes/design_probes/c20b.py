import torch, gpytorch, warnings, itertools, time
warnings.filterwarnings("ignore")
from gpytorch import settings as S, beta_features as B
names = list(S.__all__) + ['beta:'+n for n in B.__all__]
def get(n): return getattr(B, n[5:]) if n.startswith('beta:') else getattr(S, n)
classes = {n: get(n) for n in names}
def kind(c):
    for b in c.__mro__:
        if b.__name__ in ('_feature_flag','_value_context','_dtype_value_context'): return b.__name__
    return c.__name__
DT = (torch.float, torch.double, torch.half)
def observe():
    o = {}
    for n, c in classes.items():
        k = kind(c)
        if k == '_feature_flag': o[n] = c.on()
        elif k == '_value_context': o[n] = c.value()
        elif k == '_dtype_value_context': o[n] = tuple(c.value(d) for d in DT)
    o['fpv.npv'] = S.fast_pred_var.num_probe_vectors()
    o['fc'] = (S.fast_computations.covar_root_decomposition.on(), S.fast_computations.log_prob.on(), S.fast_computations.solves.on())
    return o
# tokens: (name, args, kwargs, effect: dict obs-> new value fn)
tokens = []
for n, c in classes.items():
    k = kind(c)
    if k == '_feature_flag':
        for st in (True, False):
            if n == 'fast_pred_var':
                for npv in (1, 3): tokens.append((n, (st, npv), {}, {n: st, 'fpv.npv': npv}))
            else: tokens.append((n, (st,), {}, {n: st}))
    elif k == '_value_context':
        if n == 'observation_nan_policy': vals = ['mask', 'fill']
        elif n.startswith('_linalg'): vals = [torch.float, torch.half]
        else: vals = [7, 0.5]
        for v in vals: tokens.append((n, (v,), {}, {n: v}))
    elif k == '_dtype_value_context':
        for f, d, h in [(0.11, None, None), (None, 0.22, None), (None, None, 0.33), (0.1, 0.2, 0.3)]:
            tokens.append((n, (), dict(float_value=f, double_value=d, half_value=h), {n: (f, d, h)}))
    elif n == 'fast_computations':
        for t in itertools.product([True, False], repeat=3): tokens.append((n, t, {}, {'fc': t}))
    elif n == 'linalg_dtypes':
        tokens.append((n, (torch.float,), {}, {'_linalg_dtype_symeig': torch.float, '_linalg_dtype_cholesky': torch.float}))
        tokens.append((n, (torch.double, torch.float, None), {}, {'_linalg_dtype_symeig': torch.float, '_linalg_dtype_cholesky': torch.double}))
print(len(tokens), 'tokens')
def apply_eff(cur, eff):
    new = dict(cur)
    for k, v in eff.items():
        if isinstance(v, tuple) and isinstance(cur[k], tuple) and len(v) == 3 and k not in ('fc',):
            new[k] = tuple(cur[k][i] if v[i] is None else v[i] for i in range(3))
        else: new[k] = v
    return new
class Boom(Exception): pass
default = observe(); bad = {}; nprog = 0; t0 = time.time()
for t1 in tokens:
    for t2 in tokens:
        for fault in (None, 'inner', 'between'):
            nprog += 1
            exp0 = default; exp1 = apply_eff(exp0, t1[3]); exp2 = apply_eff(exp1, t2[3])
            errs = []
            try:
                with classes[t1[0]](*t1[1], **t1[2]):
                    if observe() != exp1: errs.append('in1')
                    try:
                        with classes[t2[0]](*t2[1], **t2[2]):
                            if observe() != exp2: errs.append('in2')
                            if fault == 'inner': raise Boom()
                    except Boom: pass
                    if observe() != exp1: errs.append('after2')
                    if fault == 'between': raise Boom()
            except Boom: pass
            if observe() != exp0: errs.append('after1')
            if errs:
                bad.setdefault((t1[0], t2[0], tuple(errs)), []).append((t1[1:3], t2[1:3], fault))
                # reset leaked state
                for n, c in classes.items():
                    k = kind(c)
                    if k == '_dtype_value_context':
                        c._global_float_value, c._global_double_value, c._global_half_value = default[n]
print(nprog, 'programs', time.time() - t0, 's; violation classes:', len(bad))
import collections
cc = collections.Counter((k[0] if 'after1' in k[2] and 'after2' not in k[2] else k[1], k[2]) for k in bad)
for k, v in list(cc.items())[:30]: print(k, v)
