import torch, gpytorch, warnings, math, itertools
warnings.filterwarnings("ignore")
torch.set_default_dtype(torch.float64)
from gpytorch import settings as S
from gpytorch.distributions import MultivariateNormal as MVN
from linear_operator.operators import *
from linear_operator import to_linear_operator
torch.manual_seed(0)
N=3
def mkcov(bs, kind):
    A = torch.randn(*bs, N, N); C = A@A.mT + 0.5*torch.eye(N)
    if kind=='dense': return C, C
    if kind=='lo': return to_linear_operator(C), C
    if kind=='diag':
        dg = torch.rand(*bs, N)+0.5; return DiagLinearOperator(dg), torch.diag_embed(dg)
    if kind=='chol':
        L = torch.linalg.cholesky(C); return CholLinearOperator(TriangularLinearOperator(L)), C
    if kind=='root':
        return RootLinearOperator(A), A@A.mT
    if kind=='sum':
        return to_linear_operator(C) + DiagLinearOperator(torch.ones(*bs,N)), C+torch.eye(N)
shapes=[(),(2,),(1,),(2,1),(3,2)]
bad=0;tot=0
for mb, cb, vb, kind, fast in itertools.product(shapes, shapes, shapes+[(4,2)], ['dense','lo','diag','chol','root','sum'], [True, False]):
    try: db = torch.broadcast_shapes(mb, cb)
    except RuntimeError: continue
    try: torch.broadcast_shapes(db, vb)
    except RuntimeError: continue
    mean = torch.randn(*mb, N); cov, Cd = mkcov(cb, kind); v = torch.randn(*vb, N)
    tot+=1
    try:
        d = MVN(mean, cov)
        with S.fast_computations(log_prob=fast), S.max_cholesky_size(800 if True else 0):
            lp = d.log_prob(v)
        ref = torch.distributions.MultivariateNormal(mean.expand(*db,N), Cd.expand(*db,N,N)).log_prob(v)
        if lp.shape != ref.shape or (lp-ref).abs().max() > 1e-8:
            bad+=1; print('BAD', mb, cb, vb, kind, fast, tuple(lp.shape), tuple(ref.shape), (lp-ref).abs().max().item() if lp.shape==ref.shape else '')
    except Exception as e:
        bad+=1; print('EXC', mb, cb, vb, kind, fast, type(e).__name__, str(e)[:70])
print(bad, tot)
