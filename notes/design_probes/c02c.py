import torch, gpytorch, warnings
warnings.filterwarnings("ignore")
torch.set_default_dtype(torch.float64)
from gpytorch.kernels import *
from gpytorch.priors import *
n=4; d=2
def mk(bs, os_val):
    class M(gpytorch.models.ExactGP):
        def __init__(s, x, y, lik):
            super().__init__(x, y, lik)
            s.mean_module = gpytorch.means.ZeroMean()
            s.covar_module = ScaleKernel(RBFKernel(batch_shape=bs), batch_shape=bs, outputscale_prior=SmoothedBoxPrior(0.1, 4.))
        def forward(s, x): return gpytorch.distributions.MultivariateNormal(s.mean_module(x), s.covar_module(x))
    return M
torch.manual_seed(0)
X = torch.randn(2, n, d); y = torch.randn(2, n)
bs = torch.Size((2,))
lik = gpytorch.likelihoods.GaussianLikelihood(batch_shape=bs); m = mk(bs, None)(X, y, lik).train()
m.covar_module.outputscale = torch.tensor([0.5, 5.0])   # second one outside the box -> large penalty
v = gpytorch.mlls.ExactMarginalLogLikelihood(lik, m)(m(X), y)
reps = []
for b in range(2):
    lb = gpytorch.likelihoods.GaussianLikelihood(); mb = mk(torch.Size(), None)(X[b], y[b], lb).train()
    mb.covar_module.outputscale = float([0.5, 5.0][b])
    reps.append(gpytorch.mlls.ExactMarginalLogLikelihood(lb, mb)(mb(X[b]), y[b]).item())
print('batched', v.tolist(), 'replicas', reps)
