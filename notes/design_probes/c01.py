import torch, gpytorch, itertools, warnings, time
warnings.filterwarnings("ignore")
torch.set_default_dtype(torch.float64)
from gpytorch import settings as S
class M(gpytorch.models.ExactGP):
    def __init__(s, x, y, lik, bs=torch.Size()):
        super().__init__(x, y, lik)
        s.mean_module = gpytorch.means.ConstantMean(batch_shape=bs)
        s.covar_module = gpytorch.kernels.ScaleKernel(gpytorch.kernels.MaternKernel(nu=1.5, batch_shape=bs), batch_shape=bs)
    def forward(s, x):
        return gpytorch.distributions.MultivariateNormal(s.mean_module(x), s.covar_module(x))
torch.manual_seed(1)
n, m, d = 5, 3, 2
X = torch.randn(n, d); y = torch.randn(n); Xs = torch.randn(m, d)
def build():
    lik = gpytorch.likelihoods.GaussianLikelihood()
    mod = M(X, y, lik)
    mod.covar_module.base_kernel.lengthscale = 0.7; mod.covar_module.outputscale = 1.3
    mod.mean_module.constant.data.fill_(0.4); lik.noise = 0.05
    return mod.eval(), lik.eval()
mod, lik = build()
with torch.no_grad():
    K = mod.covar_module(torch.cat([X, Xs])).to_dense(); mu = 0.4
    Kxx = K[:n,:n] + 0.05*torch.eye(n); Ksx = K[n:,:n]; Kss = K[n:,n:]
    mean_ref = mu + Ksx @ torch.linalg.solve(Kxx, y - mu)
    cov_ref = Kss - Ksx @ torch.linalg.solve(Kxx, Ksx.T)
axes = dict(lazy=[True, False], eager=[512, 0], chol=[800, 0], fpv=[False, True], detach=[True, False], skip=[False, True])
worst = 0; cnt = 0; t0 = time.time()
for vals in itertools.product(*axes.values()):
    cfg = dict(zip(axes, vals))
    mod, lik = build()
    with S.lazily_evaluate_kernels(cfg['lazy']), S.max_eager_kernel_size(cfg['eager']), S.max_cholesky_size(cfg['chol']), \
         S.fast_pred_var(cfg['fpv']), S.detach_test_caches(cfg['detach']), S.skip_posterior_variances(cfg['skip']), \
         S.eval_cg_tolerance(1e-12), S.cg_tolerance(1e-12), S.max_cg_iterations(200), S.max_root_decomposition_size(100):
        out = mod(Xs)
        em = (out.mean - mean_ref).abs().max().item()
        ec = 0.0 if cfg['skip'] else (out.covariance_matrix - cov_ref).abs().max().item()
        pl = lik(out)
        en = 0.0 if cfg['skip'] else (pl.covariance_matrix - out.covariance_matrix - 0.05*torch.eye(m)).abs().max().item()
    cnt += 1
    if max(em, ec, en) > 1e-8: print(cfg, em, ec, en)
    worst = max(worst, em, ec, en)
print(cnt, worst, time.time() - t0)
