import torch, gpytorch, warnings, math
warnings.filterwarnings("ignore")
torch.set_default_dtype(torch.float64)
from gpytorch import settings as S
from gpytorch.variational import *
class V(gpytorch.models.ApproximateGP):
    def __init__(s, Z, strat_cls, dist_cls):
        vd = dist_cls(Z.size(-2)); vs = strat_cls(s, Z, vd, learn_inducing_locations=False)
        super().__init__(vs)
        s.mean_module = gpytorch.means.ConstantMean(); s.covar_module = gpytorch.kernels.ScaleKernel(gpytorch.kernels.RBFKernel())
    def forward(s, x): return gpytorch.distributions.MultivariateNormal(s.mean_module(x), s.covar_module(x))
torch.manual_seed(0)
M_, n, d = 4, 7, 1
Z = torch.randn(M_, d); X = torch.randn(n, d); y = torch.randn(n)
for strat in (VariationalStrategy, UnwhitenedVariationalStrategy):
  with S.variational_cholesky_jitter(double_value=1e-10):
    m = V(Z, strat, NaturalVariationalDistribution); lik = gpytorch.likelihoods.GaussianLikelihood(); lik.noise = 0.2
    m.covar_module.base_kernel.lengthscale = 0.9; m.covar_module.outputscale = 1.4; m.mean_module.constant.data.fill_(0.3)
    m.train(); lik.train()
    mll = gpytorch.mlls.VariationalELBO(lik, m, num_data=n)
    opt = gpytorch.optim.NGD(m.variational_parameters(), num_data=n, lr=1.0)
    for it in range(2):
        opt.zero_grad(); loss = -mll(m(X), y); loss.backward(); opt.step()
        with torch.no_grad():
            elbo = mll(m(X), y).item()*n
            Kall = m.covar_module(torch.cat([Z, X])).to_dense(); Kzz = Kall[:M_,:M_] + 1e-10*torch.eye(M_); Kzx = Kall[:M_,M_:]; Kxx = Kall[M_:,M_:]
            Q = Kzx.T @ torch.linalg.solve(Kzz, Kzx); s2 = 0.2
            tit = torch.distributions.MultivariateNormal(torch.full((n,),0.3), Q + s2*torch.eye(n)).log_prob(y).item() - 0.5/s2*(Kxx-Q).diagonal().sum().item()
            exact = torch.distributions.MultivariateNormal(torch.full((n,),0.3), Kxx + s2*torch.eye(n)).log_prob(y).item()
        print(strat.__name__, it, 'elbo', elbo, 'titsias', tit, 'exact', exact)
