import torch, gpytorch, warnings, itertools, math
warnings.filterwarnings("ignore")
torch.set_default_dtype(torch.float64)
from gpytorch import settings as S
from gpytorch.variational import *
from gpytorch.priors import *
torch.manual_seed(0)
M_, n, d = 3, 5, 1
Z = torch.randn(M_, d); X = torch.randn(n, d); y = torch.randn(n); JIT = 1e-8
class V(gpytorch.models.ApproximateGP):
    def __init__(s, strat, prior):
        vd = CholeskyVariationalDistribution(M_); super().__init__(strat(s, Z.clone(), vd, learn_inducing_locations=False))
        s.mean_module = gpytorch.means.ConstantMean(); s.covar_module = gpytorch.kernels.ScaleKernel(gpytorch.kernels.RBFKernel(lengthscale_prior=GammaPrior(2., 3.) if prior else None))
    def forward(s, x): return gpytorch.distributions.MultivariateNormal(s.mean_module(x), s.covar_module(x))
mvec = torch.randn(M_); A = torch.randn(M_, M_); Lq = torch.linalg.cholesky(A @ A.T / M_ + 0.3 * torch.eye(M_))
bad = []; cnt = 0
with S.variational_cholesky_jitter(double_value=JIT):
  for strat, prior, objname in itertools.product([VariationalStrategy, UnwhitenedVariationalStrategy], [False, True], ['elbo', 'pll']):
    m = V(strat, prior); lik = gpytorch.likelihoods.GaussianLikelihood(); lik.noise = 0.2
    m.covar_module.base_kernel.lengthscale = 0.9; m.covar_module.outputscale = 1.4; m.mean_module.constant.data.fill_(0.3)
    vd = m.variational_strategy._variational_distribution; vd.variational_mean.data.copy_(mvec); vd.chol_variational_covar.data.copy_(Lq)
    m.variational_strategy.variational_params_initialized.fill_(1)
    m.train(); lik.train()
    for r in range(1, n + 1):
      for sub in itertools.combinations(range(n), r):
        idx = torch.tensor(sub)
        for N, beta in itertools.product([n, 2 * n], [0.5, 1.0, 2.0]):
            cnt += 1
            obj = (gpytorch.mlls.VariationalELBO if objname == 'elbo' else gpytorch.mlls.PredictiveLogLikelihood)(lik, m, num_data=N, beta=beta)
            with torch.no_grad():
                val = obj(m(X[idx]), y[idx]).item()
                # reference
                Xb = X[idx]; B = len(sub)
                Kall = m.covar_module(torch.cat([Z, Xb])).to_dense(); Kzz = Kall[:M_, :M_] + JIT * torch.eye(M_); Kzx = Kall[:M_, M_:]; Kxx = Kall[M_:, M_:]
                mu = 0.3
                if strat is VariationalStrategy:
                    Lz = torch.linalg.cholesky(Kzz); mu_u = mu + Lz @ mvec; S_u = Lz @ (Lq @ Lq.T) @ Lz.T
                    kl = torch.distributions.kl_divergence(torch.distributions.MultivariateNormal(mvec, scale_tril=Lq), torch.distributions.MultivariateNormal(torch.zeros(M_), torch.eye(M_)))
                    extra = JIT
                else:
                    mu_u = mvec; S_u = Lq @ Lq.T
                    kl = torch.distributions.kl_divergence(torch.distributions.MultivariateNormal(mvec, scale_tril=Lq), torch.distributions.MultivariateNormal(torch.full((M_,), mu), Kall[:M_, :M_] + JIT * torch.eye(M_)))
                    extra = 0.0
                Aop = torch.linalg.solve(Kzz, Kzx); fm = mu + Aop.T @ (mu_u - mu); fv = (Kxx - Aop.T @ (Kzz - S_u) @ Aop).diagonal() + extra
                s2 = 0.2
                if objname == 'elbo': ll = (-0.5 * (math.log(2 * math.pi * s2) + ((y[idx] - fm) ** 2 + fv) / s2)).sum() / B
                else: ll = torch.distributions.Normal(fm, (fv + s2).sqrt()).log_prob(y[idx]).sum() / B
                lp = torch.distributions.Gamma(2., 3.).log_prob(torch.tensor(0.9)).item() / N if prior else 0.0
                ref = ll.item() - beta * kl.item() / N + lp
            if abs(val - ref) > 1e-7: bad.append((strat.__name__, prior, objname, sub, N, beta, val, ref))
print(cnt, 'cells;', len(bad), 'bad'); print(bad[:6])
