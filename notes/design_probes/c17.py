import torch, gpytorch, warnings, math, itertools, inspect
warnings.filterwarnings("ignore")
torch.set_default_dtype(torch.float64)
from gpytorch.kernels import *
from gpytorch import likelihoods as L, means as Mn
cat = {
 'RBF': lambda: RBFKernel(), 'RBFard': lambda: RBFKernel(ard_num_dims=2, batch_shape=torch.Size([2])), 'Matern': lambda: MaternKernel(), 'RQ': lambda: RQKernel(),
 'Periodic': lambda: PeriodicKernel(), 'Cosine': lambda: CosineKernel(), 'Linear': lambda: LinearKernel(), 'Poly': lambda: PolynomialKernel(power=2),
 'PP': lambda: PiecewisePolynomialKernel(), 'Const': lambda: ConstantKernel(), 'Scale': lambda: ScaleKernel(RBFKernel()), 'SM': lambda: SpectralMixtureKernel(num_mixtures=2, ard_num_dims=1),
 'Arc': lambda: ArcKernel(MaternKernel(), ard_num_dims=2), 'Cyl': lambda: CylindricalKernel(3, RBFKernel()), 'Index': lambda: IndexKernel(num_tasks=2, rank=1),
 'Hamming': lambda: HammingIMQKernel(vocab_size=3), 'SD': lambda: SpectralDeltaKernel(num_dims=1, num_deltas=4), 'RFF': lambda: RFFKernel(num_samples=4, num_dims=1),
 'PolyGrad': lambda: PolynomialKernelGrad(power=2), 'GSKL': lambda: GaussianSymmetrizedKLKernel(),
 'GaussLik': lambda: L.GaussianLikelihood(), 'GaussLikB': lambda: L.GaussianLikelihood(batch_shape=torch.Size([2])), 'FixedLik': lambda: L.FixedNoiseGaussianLikelihood(torch.ones(3), learn_additional_noise=True),
 'MTLik': lambda: L.MultitaskGaussianLikelihood(num_tasks=2), 'StudentT': lambda: L.StudentTLikelihood(), 'Laplace': lambda: L.LaplaceLikelihood(), 'Beta': lambda: L.BetaLikelihood(),
 'ConstMean': lambda: Mn.ConstantMean(),
}
for name, mk in cat.items():
    m = mk()
    for pname, p, c in m.named_parameters_and_constraints():
        if c is None: continue
        # public attribute = pname without 'raw_' in the owning module
        *path, raw = pname.split('.')
        owner = m
        for a in path: owner = getattr(owner, a)
        pub = raw[4:] if raw.startswith('raw_') else None
        if pub is None or not hasattr(type(owner), pub): print(name, pname, 'no public property'); continue
        lo, hi = c.lower_bound.item() if c.lower_bound.numel()==1 else None, c.upper_bound.item() if c.upper_bound.numel()==1 else None
        val = (lo if math.isfinite(lo) else 0) + 0.37 if not math.isfinite(hi) else (hi - 0.37 if not math.isfinite(lo) else lo + 0.37*(hi-lo))
        try:
            setattr(owner, pub, val)
            rb = getattr(owner, pub)
            err = (rb - val).abs().max().item()
            status = f'readback err {err:.1e}' + (' BAD' if err > 1e-8 else '')
        except Exception as e:
            status = 'EXC ' + type(e).__name__ + ' ' + str(e)[:70]
        # out of bounds
        oob = (lo - 1.0) if math.isfinite(lo) else hi + 1.0
        try:
            before = p.detach().clone(); setattr(owner, pub, oob); after = getattr(owner, pub)
            st2 = f'OOB accepted -> {after.flatten()[0].item():.3g}' + (' raw nan' if torch.isnan(p).any() else '')
        except Exception as e:
            st2 = 'OOB rejected ' + type(e).__name__ + ('' if torch.equal(before, p.detach()) else ' STATE CHANGED')
        print(f'{name:10s} {pname:45s} [{lo},{hi}] {status} | {st2}')
