import torch, gpytorch, warnings, itertools, math
warnings.filterwarnings("ignore")
torch.set_default_dtype(torch.float64)
from gpytorch import settings as S
from gpytorch.variational import *
torch.manual_seed(0)
M_, n, d = 4, 5, 2
Z = torch.randn(M_, d); X = torch.randn(n, d)
JIT = 1e-8
class V(gpytorch.models.ApproximateGP):
    def __init__(s, strat, bs=torch.Size()):
        s_bs = bs
        super().__init__(strat(s))
        s.mean_module = gpytorch.means.ConstantMean(batch_shape=bs)
        s.covar_module = gpytorch.kernels.ScaleKernel(gpytorch.kernels.RBFKernel(batch_shape=bs), batch_shape=bs)
    def forward(s, x): return gpytorch.distributions.MultivariateNormal(s.mean_module(x), s.covar_module(x))
def setp(m):
    with torch.no_grad():
        for nme, p in m.named_parameters():
            if 'variational' in nme and 'inducing' not in nme: continue
            if 'inducing' in nme: continue
            p.copy_(torch.randn_like(p) * 0.3)
def dense_terms(m, Zt, bs=()):
    Kall = m.covar_module(torch.cat([Zt, X.expand(*Zt.shape[:-2], n, d)], -2)).to_dense(); Mz = Zt.shape[-2]
    mu_all = m.mean_module(torch.cat([Zt, X.expand(*Zt.shape[:-2], n, d)], -2))
    return Kall[..., :Mz, :Mz], Kall[..., :Mz, Mz:], Kall[..., Mz:, Mz:], mu_all[..., :Mz], mu_all[..., Mz:]
res = []
with S.variational_cholesky_jitter(double_value=JIT), torch.no_grad():
    # distributions encode their params
    for dist in (CholeskyVariationalDistribution, MeanFieldVariationalDistribution, DeltaVariationalDistribution, NaturalVariationalDistribution, TrilNaturalVariationalDistribution):
        for bs in [(), (2,)]:
            vd = dist(M_, batch_shape=torch.Size(bs)); q = None
            for p in vd.parameters(): p.data.copy_(torch.randn_like(p) * 0.3)
            if dist is CholeskyVariationalDistribution:
                L = torch.tril(vd.chol_variational_covar.data); refm, refC = vd.variational_mean.data, L @ L.mT
            elif dist is MeanFieldVariationalDistribution:
                refm, refC = vd.variational_mean.data, torch.diag_embed(vd._variational_stddev.data.pow(2)) if hasattr(vd, '_variational_stddev') else None
            elif dist is DeltaVariationalDistribution: refm, refC = vd.variational_mean.data, None
            elif dist is NaturalVariationalDistribution:
                A = torch.randn(*bs, M_, M_); P = A @ A.mT + torch.eye(M_); vd.natural_mat.data.copy_(-0.5 * P); Sg = torch.linalg.inv(P); refm, refC = (Sg @ vd.natural_vec.data.unsqueeze(-1)).squeeze(-1), Sg
            else:
                refm = refC = None
            try:
                q = vd()
                if refm is not None: res.append((dist.__name__, bs, 'mean', (q.mean - refm).abs().max().item()))
                if refC is not None: res.append((dist.__name__, bs, 'cov', (q.covariance_matrix - refC).abs().max().item()))
                elif dist is MeanFieldVariationalDistribution: res.append((dist.__name__, bs, 'cov?', str([k for k in vd.state_dict()])))
            except Exception as e: res.append((dist.__name__, bs, 'EXC', str(e)[:70]))
    # strategies
    def run(name, mkstrat, ref_fn, bs=()):
        try:
            m = V(mkstrat, torch.Size(bs)); setp(m); m.eval()
            out = m(X); kl = m.variational_strategy.kl_divergence()
            rm, rc, rkl = ref_fn(m)
            res.append((name, 'mean', (out.mean - rm).abs().max().item()))
            res.append((name, 'cov', (out.covariance_matrix - rc).abs().max().item()))
            if rkl is not None: res.append((name, 'kl', (kl - rkl).abs().max().item()))
        except Exception as e:
            import traceback; res.append((name, 'EXC', type(e).__name__ + ' ' + str(e)[:90]))
    mvec = torch.randn(M_); A = torch.randn(M_, M_); Lq = torch.linalg.cholesky(A @ A.T / M_ + 0.3 * torch.eye(M_))
    def chol_dist():
        vd = CholeskyVariationalDistribution(M_); vd.variational_mean.data.copy_(mvec); vd.chol_variational_covar.data.copy_(Lq); return vd
    def mark(vs): vs.variational_params_initialized.fill_(1); return vs
    # Batch decoupled
    def ref_bd(m):
        vs = m.variational_strategy; Zb = vs.inducing_points  # 2 x M x d
        outs = []
        Kzz0, Kzx0, Kxx0, mz0, mx0 = dense_terms(m, Zb[0]); Kzz1, Kzx1, Kxx1, mz1, mx1 = dense_terms(m, Zb[1])
        L0 = torch.linalg.cholesky(Kzz0 + JIT * torch.eye(M_)); L1 = torch.linalg.cholesky(Kzz1 + JIT * torch.eye(M_))
        I0 = torch.linalg.solve_triangular(L0, Kzx0, upper=False); I1 = torch.linalg.solve_triangular(L1, Kzx1, upper=False)
        mean = mx0 + I0.T @ mvec
        cov = Kxx1 + JIT * torch.eye(n) + I1.T @ (Lq @ Lq.T - torch.eye(M_)) @ I1
        kl = 0.5 * (mvec @ mvec) + 0.5 * ((Lq @ Lq.T).diagonal().sum() - M_ - torch.logdet(Lq @ Lq.T))
        return mean, cov, kl
    run('BatchDecoupled', lambda s: mark(BatchDecoupledVariationalStrategy(s, Z.clone(), chol_dist())), ref_bd)
    # Orthogonally decoupled
    avec = torch.randn(3); Zm = torch.randn(3, d)
    def mk_od(s):
        base = mark(VariationalStrategy(s, Z.clone(), chol_dist()))
        dd = DeltaVariationalDistribution(3); dd.variational_mean.data.copy_(avec)
        return mark(OrthogonallyDecoupledVariationalStrategy(base, Zm.clone(), dd))
    def ref_od(m):
        Kzz, Kzx, Kxx, mz, mx = dense_terms(m, Z)
        Lz = torch.linalg.cholesky(Kzz + JIT * torch.eye(M_)); I = torch.linalg.solve_triangular(Lz, Kzx, upper=False)
        base_mean = mx + I.T @ mvec; base_cov = Kxx + JIT * torch.eye(n) + I.T @ (Lq @ Lq.T - torch.eye(M_)) @ I
        # orthogonal part: mean += Cov_base(x, Zm) a ; kl += 0.5 a^T Cov_base(Zm,Zm) a  (per docs, with base = the covar strategy's q(f))
        XZ = torch.cat([X, Zm]); 
        Kall = m.covar_module(torch.cat([Z, XZ])).to_dense(); Kzz_, Kzq, Kqq = Kall[:M_, :M_], Kall[:M_, M_:], Kall[M_:, M_:]
        Iq = torch.linalg.solve_triangular(torch.linalg.cholesky(Kzz_ + JIT * torch.eye(M_)), Kzq, upper=False)
        Cq = Kqq + JIT * torch.eye(n + 3) + Iq.T @ (Lq @ Lq.T - torch.eye(M_)) @ Iq
        mean = base_mean + Cq[:n, n:] @ avec
        kl_base = 0.5 * (mvec @ mvec) + 0.5 * ((Lq @ Lq.T).diagonal().sum() - M_ - torch.logdet(Lq @ Lq.T))
        kl = kl_base + 0.5 * avec @ (Cq[n:, n:] + JIT * torch.eye(3)) @ avec
        return mean, Cq[:n, :n], kl
    run('OrthDecoupled', mk_od, ref_od)
    # Independent multitask & LMC
    T = 3
    def mk_im(s):
        vd = CholeskyVariationalDistribution(M_, batch_shape=torch.Size([T]))
        vd.variational_mean.data.copy_(torch.randn(T, M_)); vd.chol_variational_covar.data.copy_(Lq.expand(T, M_, M_) * torch.tensor([1., 0.7, 1.3]).view(T, 1, 1))
        return IndependentMultitaskVariationalStrategy(mark(VariationalStrategy(s, Z.clone().expand(T, M_, d).clone(), vd)), num_tasks=T)
    def ref_im(m):
        vs = m.variational_strategy.base_variational_strategy; vd = vs._variational_distribution
        means, covs = [], []
        for a in range(T):
            Kall = m.covar_module(torch.cat([vs.inducing_points[a], X]).expand(T, M_ + n, d)).to_dense()[a]; mu = m.mean_module(X.expand(T, n, d))[a]
            Lz = torch.linalg.cholesky(Kall[:M_, :M_] + JIT * torch.eye(M_)); I = torch.linalg.solve_triangular(Lz, Kall[:M_, M_:], upper=False)
            La = torch.tril(vd.chol_variational_covar.data[a]); Sa = La @ La.T
            means.append(mu + I.T @ vd.variational_mean.data[a]); covs.append(Kall[M_:, M_:] + JIT * torch.eye(n) + I.T @ (Sa - torch.eye(M_)) @ I)
        mean = torch.stack(means, -1)
        J = torch.zeros(n, T, n, T)
        for a in range(T): J[:, a, :, a] = covs[a]
        return mean, J.reshape(n * T, n * T), None
    def run_mt(name, mk, ref_fn):
        try:
            m = V(mk, torch.Size([T])); setp(m); m.eval(); out = m(X); rm, rc, _ = ref_fn(m)
            C = out.covariance_matrix
            if not out._interleaved: C = C.view(T, n, T, n).permute(1, 0, 3, 2).reshape(n * T, n * T)
            res.append((name, 'mean', (out.mean - rm).abs().max().item())); res.append((name, 'cov', (C - rc).abs().max().item()))
        except Exception as e: res.append((name, 'EXC', type(e).__name__ + ' ' + str(e)[:90]))
    run_mt('IndepMultitask', mk_im, ref_im)
    Tt = 2
    def mk_lmc(s):
        vd = CholeskyVariationalDistribution(M_, batch_shape=torch.Size([T]))
        vd.variational_mean.data.copy_(torch.randn(T, M_)); vd.chol_variational_covar.data.copy_(Lq.expand(T, M_, M_).clone())
        return LMCVariationalStrategy(mark(VariationalStrategy(s, Z.clone().expand(T, M_, d).clone(), vd)), num_tasks=Tt, num_latents=T, latent_dim=-1)
    def ref_lmc(m):
        vs = m.variational_strategy.base_variational_strategy; vd = vs._variational_distribution; Acoef = m.variational_strategy.lmc_coefficients.data  # T x Tt
        mean = 0; J = torch.zeros(n, Tt, n, Tt)
        for q in range(T):
            Kall = m.covar_module(torch.cat([vs.inducing_points[q], X]).expand(T, M_ + n, d)).to_dense()[q]; mu = m.mean_module(X.expand(T, n, d))[q]
            Lz = torch.linalg.cholesky(Kall[:M_, :M_] + JIT * torch.eye(M_)); I = torch.linalg.solve_triangular(Lz, Kall[:M_, M_:], upper=False)
            Lq_ = torch.tril(vd.chol_variational_covar.data[q]); Sq = Lq_ @ Lq_.T
            mq = mu + I.T @ vd.variational_mean.data[q]; Cq = Kall[M_:, M_:] + JIT * torch.eye(n) + I.T @ (Sq - torch.eye(M_)) @ I
            mean = mean + mq.unsqueeze(-1) * Acoef[q]
            J = J + torch.einsum('ij,a,b->iajb', Cq, Acoef[q], Acoef[q])
        return mean, J.reshape(n * Tt, n * Tt) + JIT * torch.eye(n * Tt), None
    def run_lmc():
        try:
            m = V(mk_lmc, torch.Size([T])); setp(m); m.eval(); out = m(X); rm, rc, _ = ref_lmc(m)
            res.append(('LMC', 'mean', (out.mean - rm).abs().max().item())); res.append(('LMC', 'cov', (out.covariance_matrix - rc).abs().max().item()))
        except Exception as e: res.append(('LMC', 'EXC', type(e).__name__ + ' ' + str(e)[:90]))
    run_lmc()
for r in res: print(r)
