import torch, gpytorch, warnings, pickle, copy, io, itertools
warnings.filterwarnings("ignore")
torch.set_default_dtype(torch.float64)
from gpytorch.kernels import *
from gpytorch.constraints import *
from gpytorch.priors import *
from gpytorch.variational import *
from gpytorch import likelihoods as L
torch.manual_seed(0)
n, d = 6, 2
X = torch.rand(n, d); y = torch.randn(n); Xs = torch.rand(3, d)
class E(gpytorch.models.ExactGP):
    def __init__(s, kern, lik=None, mean=None):
        lik = lik or L.GaussianLikelihood(); super().__init__(X, y, lik)
        s.mean_module = mean or gpytorch.means.ConstantMean(); s.covar_module = kern(lik) if kern.__code__.co_argcount else kern()
    def forward(s, x): return gpytorch.distributions.MultivariateNormal(s.mean_module(x), s.covar_module(x))
def variants(v):
    # v=0 original hyper-args, v=1 perturbed (bounds, prior params, seeds)
    lo, hi = (0.05, 5.0) if v == 0 else (0.01, 50.0); pa = 2.0 + v; seed = 10 + v
    def seeded(f):
        def g(*a):
            torch.manual_seed(seed); return f(*a)
        g.__code__ = f.__code__ if False else g.__code__; return g
    cat = {
      'RBF+interval+gamma': lambda: ScaleKernel(RBFKernel(lengthscale_constraint=Interval(lo, hi), lengthscale_prior=GammaPrior(pa, 3.0)), outputscale_prior=LogNormalPrior(0.1 * pa, 1.0)),
      'Matern+smoothedbox': lambda: ScaleKernel(MaternKernel(nu=1.5, lengthscale_prior=SmoothedBoxPrior(lo, hi))),
      'RQ+halfcauchy': lambda: RQKernel(lengthscale_prior=HalfCauchyPrior(pa)),
      'Periodic+normal': lambda: PeriodicKernel(period_length_prior=NormalPrior(pa, 1.0), period_length_constraint=GreaterThan(lo)),
      'Linear+horseshoe': lambda: LinearKernel(variance_prior=HorseshoePrior(pa)) + RBFKernel(),
      'Poly': lambda: PolynomialKernel(power=2, offset_constraint=Interval(lo, hi)),
      'SM': lambda: (torch.manual_seed(seed), SpectralMixtureKernel(num_mixtures=2, ard_num_dims=d))[1],
      'RFF': lambda: (torch.manual_seed(seed), RFFKernel(num_samples=4, num_dims=d))[1],
      'SD': lambda: (torch.manual_seed(seed), SpectralDeltaKernel(num_dims=d, num_deltas=5))[1],
      'KISS': lambda: GridInterpolationKernel(ScaleKernel(RBFKernel()), grid_size=6 , grid_bounds=[(-0.5 - v, 1.5 + v)] * d),
      'Arc': lambda: ArcKernel(MaternKernel(nu=2.5), ard_num_dims=d, angle_prior=None, radius_prior=None),
      'Cyl': lambda: CylindricalKernel(3, RBFKernel()),
      'PP': lambda: PiecewisePolynomialKernel(q=1, lengthscale_constraint=Interval(lo, hi)),
      'Uniform': lambda: RBFKernel(lengthscale_prior=UniformPrior(lo, hi)),
    }
    return cat
def objective(m):
    m.train(); m.likelihood.train()
    return gpytorch.mlls.ExactMarginalLogLikelihood(m.likelihood, m)(m(X), y).item()
def post(m):
    m.eval(); m.likelihood.eval(); o = m(Xs); return o.mean.detach(), o.covariance_matrix.detach()
for name in variants(0):
    try:
        m0 = E(variants(0)[name])
        with torch.no_grad():
            for p in m0.parameters(): p.add_(0.3 * torch.randn_like(p))
        a_obj = objective(m0); a_post = post(m0)
        out = {}
        m1 = E(variants(1)[name]); m1.load_state_dict(m0.state_dict())
        out['state_dict'] = (abs(objective(m1) - a_obj), max((post(m1)[i] - a_post[i]).abs().max().item() for i in range(2)))
        m2 = pickle.loads(pickle.dumps(m0)); out['pickle'] = (abs(objective(m2) - a_obj), max((post(m2)[i] - a_post[i]).abs().max().item() for i in range(2)))
        m3 = copy.deepcopy(m0); out['deepcopy'] = (abs(objective(m3) - a_obj), max((post(m3)[i] - a_post[i]).abs().max().item() for i in range(2)))
        print(name, {k: ('OK' if max(v) < 1e-10 else f'BAD obj {v[0]:.2e} post {v[1]:.2e}') for k, v in out.items()})
    except Exception as e:
        print(name, 'EXC', type(e).__name__, str(e)[:120])
