import torch, gpytorch, warnings, hashlib, numpy as np
warnings.filterwarnings("ignore")
torch.set_default_dtype(torch.float64)
from linear_operator.operators import LinearOperator
from gpytorch import settings as S
from gpytorch.kernels import *
def tdig(t):
    a = t.detach().cpu()
    if a.dtype.is_floating_point:
        a = torch.round(a.double() * 1e10) / 1e10
        a = torch.where(a == 0, torch.zeros_like(a), a)
    return (tuple(t.shape), str(t.dtype), bool(t.requires_grad), t.grad_fn is None, hashlib.sha1(a.numpy().tobytes()).hexdigest()[:12])
def canon(obj, seen=None, depth=0):
    if seen is None: seen = {}
    if isinstance(obj, (int, float, str, bool, type(None), torch.dtype, torch.Size)): return repr(obj)
    if isinstance(obj, bytes): return ('bytes', hashlib.sha1(obj).hexdigest()[:8])
    oid = id(obj)
    if oid in seen: return ('ref', seen[oid])
    seen[oid] = len(seen)
    if torch.is_tensor(obj): return ('T',) + tdig(obj)
    if isinstance(obj, (list, tuple)): return (type(obj).__name__,) + tuple(canon(o, seen, depth + 1) for o in obj)
    if isinstance(obj, dict):
        items = [(canon(k, seen, depth + 1), canon(v, seen, depth + 1)) for k, v in obj.items()]
        return ('dict',) + tuple(sorted(items, key=repr))
    if isinstance(obj, (set, frozenset)): return ('set',) + tuple(sorted((canon(o, seen, depth + 1) for o in obj), key=repr))
    if callable(obj) and not hasattr(obj, '__dict__'): return ('callable', getattr(obj, '__qualname__', type(obj).__name__))
    if hasattr(obj, '__dict__'):
        d = {k: v for k, v in vars(obj).items() if not k.startswith('_forward') and not k.startswith('_backward') and k not in ('_state_dict_hooks', '_load_state_dict_pre_hooks', '_state_dict_pre_hooks', '_load_state_dict_post_hooks', '_is_full_backward_hook', '_non_persistent_buffers_set')}
        return (type(obj).__name__,) + tuple((k, canon(v, seen, depth + 1)) for k, v in sorted(d.items()))
    return ('opaque', type(obj).__name__)
def H(obj): return hashlib.sha1(repr(canon(obj)).encode()).hexdigest()[:16]
class E(gpytorch.models.ExactGP):
    def __init__(s, x, y, kern='rbf'):
        lik = gpytorch.likelihoods.GaussianLikelihood(); super().__init__(x, y, lik)
        s.mean_module = gpytorch.means.ConstantMean(); base = ScaleKernel(RBFKernel())
        s.covar_module = {'rbf': lambda: base, 'kiss': lambda: GridInterpolationKernel(base, grid_size=8, grid_bounds=[(-0.5, 1.5)]), 'sgpr': lambda: InducingPointKernel(base, torch.rand(3, 1), lik)}[kern]()
    def forward(s, x): return gpytorch.distributions.MultivariateNormal(s.mean_module(x), s.covar_module(x))
torch.manual_seed(0)
X, y, Xs = torch.rand(5, 1), torch.randn(5), torch.rand(3, 1)
import time
for kern in ['rbf', 'kiss', 'sgpr']:
    torch.manual_seed(1); m = E(X, y, kern).eval()
    h0 = H(m); t0 = time.time(); h0b = H(m); dt = time.time() - t0
    m(Xs); h1 = H(m); h1b = H(m)
    with S.fast_pred_var(): m(Xs)
    h2 = H(m)
    m(Xs); h3 = H(m)
    m.train(); m.eval(); h4 = H(m)
    print(kern, 'idempotent', h0 == h0b, h1 == h1b, '| fresh != predicted', h0 != h1, '| fpv adds cache', h1 != h2, '| repeat predict same', h2 == h3, '| train/eval returns to fresh', h4 == h0, f'| {dt*1e3:.1f} ms')
