import torch, gpytorch, itertools, warnings, time, copy, io
warnings.filterwarnings("ignore")
torch.set_default_dtype(torch.float64)
from gpytorch import settings as S
class M(gpytorch.models.ExactGP):
    def __init__(s, x, y, lik):
        super().__init__(x, y, lik)
        s.mean_module = gpytorch.means.ConstantMean()
        s.covar_module = gpytorch.kernels.ScaleKernel(gpytorch.kernels.RBFKernel())
    def forward(s, x):
        return gpytorch.distributions.MultivariateNormal(s.mean_module(x), s.covar_module(x))
torch.manual_seed(1)
n, m, d = 4, 3, 1
DATA = [(torch.randn(n, d), torch.randn(n)) for _ in range(2)]
Xs = torch.randn(m, d)
PARAMS = [dict(ls=0.7, os=1.3, c=0.4, nz=0.05), dict(ls=1.9, os=0.6, c=-0.2, nz=0.3)]
def setp(mod, p):
    mod.covar_module.base_kernel.lengthscale = p['ls']; mod.covar_module.outputscale = p['os']
    mod.mean_module.constant.data.fill_(p['c']); mod.likelihood.noise = p['nz']
def fresh(state):
    X, y = state['data']
    mod = M(X, y, gpytorch.likelihoods.GaussianLikelihood())
    mod.load_state_dict(state['sd']); mod.eval(); return mod
SD = []
for p in PARAMS:
    mm = M(*DATA[0], gpytorch.likelihoods.GaussianLikelihood()); setp(mm, p); SD.append(copy.deepcopy(mm.state_dict()))
CTX = {'default': lambda: [], 'fpv': lambda: [S.fast_pred_var()], 'nolazy': lambda: [S.lazily_evaluate_kernels(False)],
       'eager0': lambda: [S.max_eager_kernel_size(0)], 'attach': lambda: [S.detach_test_caches(False)], 'skip': lambda: [S.skip_posterior_variances()],
       'cg': lambda: [S.max_cholesky_size(0), S.eval_cg_tolerance(1e-12), S.max_cg_iterations(100)]}
import contextlib
def predict(mod, ctx):
    with contextlib.ExitStack() as st:
        for c in CTX[ctx](): st.enter_context(c)
        out = mod(Xs)
        return out.mean.detach().clone(), (None if ctx=='skip' else out.covariance_matrix.detach().clone()), out
OPS = [('predict', c) for c in CTX] + [('train',), ('eval',), ('set_data', 1), ('set_data', 0), ('load', 0), ('load', 1), ('step',), ('backward',), ('fantasy',), ('prior',)]
def apply(mod, st, op):
    k = op[0]
    if k == 'predict':
        if mod.training: return
        predict(mod, op[1])
    elif k == 'train': mod.train()
    elif k == 'eval': mod.eval()
    elif k == 'set_data':
        X, y = DATA[op[1]]; mod.set_train_data(X, y, strict=False); st['data'] = DATA[op[1]]
    elif k == 'load': mod.load_state_dict(SD[op[1]])
    elif k == 'step':
        if not mod.training: return
        opt = torch.optim.SGD(mod.parameters(), lr=0.1); opt.zero_grad()
        mll = gpytorch.mlls.ExactMarginalLogLikelihood(mod.likelihood, mod)
        loss = -mll(mod(*mod.train_inputs), mod.train_targets); loss.backward(); opt.step()
    elif k == 'backward':
        if mod.training: return
        with S.detach_test_caches(False):
            out = mod(Xs)
            try: (out.mean.sum() + out.variance.sum()).backward()
            except RuntimeError as e:
                assert 'second time' in str(e)
    elif k == 'fantasy':
        if mod.training or mod.prediction_strategy is None: return
        mod.get_fantasy_model(torch.randn(2, d), torch.randn(2))
    elif k == 'prior':
        if mod.training: return
        with S.prior_mode(): mod(Xs)
t0 = time.time(); nseq = 0; bad = 0; DEPTH = 3
for seq in itertools.product(OPS, repeat=DEPTH):
    st = {'data': DATA[0]}
    mod = M(*DATA[0], gpytorch.likelihoods.GaussianLikelihood()); mod.load_state_dict(SD[0]); mod.eval()
    for op in seq: apply(mod, st, op)
    mod.eval()  # hmm: this clears? no: eval->eval doesn't clear; train->eval clears.
    st['sd'] = copy.deepcopy(mod.state_dict())
    ref = fresh(st)
    for ctx in ('default', 'fpv'):
        a = predict(mod, ctx); b = predict(ref, ctx)
        e = max((a[0]-b[0]).abs().max().item(), (a[1]-b[1]).abs().max().item())
        if e > 1e-7:
            bad += 1
            if bad < 15: print('STALE', seq, ctx, e)
    nseq += 1
print(nseq, bad, time.time()-t0)
