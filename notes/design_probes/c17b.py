import torch, gpytorch, warnings, math, numpy as np
warnings.filterwarnings("ignore")
torch.set_default_dtype(torch.float64)
from gpytorch.priors import *
from scipy import stats, integrate
xs = torch.tensor([0.05, 0.3, 1.0, 2.5, 7.0])
cases = [
 ('Normal', NormalPrior(0.5, 1.7), lambda x: stats.norm(0.5, 1.7).logpdf(x)),
 ('LogNormal', LogNormalPrior(0.2, 0.8), lambda x: stats.lognorm(s=0.8, scale=math.exp(0.2)).logpdf(x)),
 ('Gamma', GammaPrior(2.5, 1.5), lambda x: stats.gamma(a=2.5, scale=1 / 1.5).logpdf(x)),
 ('HalfNormal', HalfNormalPrior(1.3), lambda x: stats.halfnorm(scale=1.3).logpdf(x)),
 ('HalfCauchy', HalfCauchyPrior(0.7), lambda x: stats.halfcauchy(scale=0.7).logpdf(x)),
 ('Uniform', UniformPrior(0.01, 9.0), lambda x: stats.uniform(0.01, 8.99).logpdf(x)),
]
for name, p, ref in cases:
    lp = p.log_prob(xs).numpy(); r = ref(xs.numpy()); print(name, 'max err', np.abs(lp - r).max())
# SmoothedBox normalisation and value
sb = SmoothedBoxPrior(0.5, 2.0, sigma=0.1)
f = lambda x: math.exp(sb.log_prob(torch.tensor([x])).item())
Zint = integrate.quad(f, -2, 5, points=[0.5, 2.0], limit=200)[0]; print('SmoothedBox integral', Zint, 'inside', sb.log_prob(torch.tensor([1.0])).item(), 'expected', -math.log(1 + 1.5 / (math.sqrt(2 * math.pi) * 0.1)) + stats.norm(0, 0.1).logpdf(0))
# Horseshoe: doc bounds
hs = HorseshoePrior(0.8)
x = torch.tensor([0.1, 1.0, 3.0]); lp = hs.log_prob(x)
K = 1 / math.sqrt(2 * math.pi ** 3); a = (0.8 / x) ** 2
lb = K / 2 * torch.log(1 + 4 * a); ub = K * torch.log(1 + 2 * a)
print('Horseshoe', lp.exp().tolist(), 'lb', lb.tolist(), 'ub', ub.tolist(), 'doc: (lb+ub)/2 ->', ((lb + ub) / 2).tolist())
# LKJ: normalised density for eta=1 over 2x2 correlation: uniform on rho in (-1,1) => density 1/2
lkj = LKJPrior(2, 1.0); C = torch.tensor([[1.0, 0.3], [0.3, 1.0]]); print('LKJ eta=1 logp', lkj.log_prob(C).item(), 'uniform ref', math.log(0.5))
lkj2 = LKJPrior(2, 2.0)
g = lambda r: math.exp(lkj2.log_prob(torch.tensor([[1.0, r], [r, 1.0]])).item()); print('LKJ eta=2 integral over rho', integrate.quad(g, -1, 1)[0])
# sample_from_prior stores the sample
from gpytorch.kernels import RBFKernel, ScaleKernel
k = ScaleKernel(RBFKernel(lengthscale_prior=GammaPrior(3., 6.)), outputscale_prior=LogNormalPrior(0., 1.))
torch.manual_seed(3); k.base_kernel.sample_from_prior('lengthscale_prior'); a = k.base_kernel.lengthscale.item(); torch.manual_seed(3); b = GammaPrior(3., 6.).sample().item(); print('sample_from_prior', a, b)
torch.manual_seed(4); k.sample_from_prior('outputscale_prior'); a = k.outputscale.item(); torch.manual_seed(4); b = LogNormalPrior(0., 1.).sample().item(); print('sample_from_prior os', a, b)
