import torch, gpytorch, warnings, math, itertools
warnings.filterwarnings("ignore")
torch.set_default_dtype(torch.float64)
from gpytorch.kernels import *
torch.manual_seed(0)
def pair(f, x1, x2):  # f(row, row') -> scalar ; returns n1 x n2
    return torch.stack([torch.stack([f(a, b) for b in x2]) for a in x1])
d = 2
def rbf(ls): return lambda a, b: torch.exp(-0.5 * (((a - b) / ls) ** 2).sum())
def matern(ls, nu):
    def f(a, b):
        r = (((a - b) / ls) ** 2).sum().clamp_min(1e-30).sqrt(); s = math.sqrt(2 * nu) * r
        c = {0.5: 1, 1.5: 1 + s, 2.5: 1 + s + s ** 2 / 3}[nu]
        return c * torch.exp(-s)
    return f
def grad_layout(f, x1, x2, order=1):
    # returns (n1*(d+1)) x (n2*(d+1)) in per-point interleaved layout: [f, d/dx_1, ..., d/dx_d] per point
    n1, n2 = len(x1), len(x2); D = x1.shape[-1]; w = 1 + D * order
    out = torch.zeros(n1 * w, n2 * w)
    for i in range(n1):
        for j in range(n2):
            a = x1[i].clone().requires_grad_(True); b = x2[j].clone().requires_grad_(True)
            def comps_a(g):  # list of callables producing derivative wrt a of given order
                pass
            k = f(a, b)
            # build list of operators on a: identity, d/da_p, (d2/da_p2 if order 2)
            def opsA(val, var):
                res = [val]
                g = torch.autograd.grad(val, var, create_graph=True, allow_unused=True)[0]
                g = torch.zeros_like(var) if g is None else g
                res += [g[p] for p in range(D)]
                if order == 2:
                    for p in range(D):
                        gg = torch.autograd.grad(g[p], var, create_graph=True, allow_unused=True)[0] if g[p].requires_grad else None
                        res.append(torch.zeros(()) if gg is None else gg[p])
                return res
            rows = opsA(k, a)
            for u, ru in enumerate(rows):
                if not ru.requires_grad:
                    cols = [ru] + [torch.zeros(())] * (w - 1)
                else:
                    cols = opsA(ru, b)
                for v, cv in enumerate(cols):
                    out[i * w + u, j * w + v] = cv.detach()
    return out
results = []
def check(name, K, ref):
    try: K = K.to_dense() if hasattr(K, 'to_dense') else K
    except Exception as e:
        results.append((name, 'EXC '+str(e)[:80], 'BAD')); return
    if K.shape != ref.shape: results.append((name, 'SHAPE', tuple(K.shape), tuple(ref.shape))); return
    e = (K - ref).abs().max().item(); results.append((name, f'{e:.1e}', 'BAD' if e > 1e-9 else ''))
for (n1, n2) in [(2, 3), (3, 2), (3, 3)]:
    x1 = torch.randn(n1, d); x2 = torch.randn(n2, d)
    if n1 == n2: x2 = x1.clone()
    ls = torch.tensor([0.7, 1.3])
    k = RBFKernel(ard_num_dims=d); k.lengthscale = ls; check(f'RBF ard {n1}x{n2}', k(x1, x2), pair(rbf(ls), x1, x2))
    for nu in (0.5, 1.5, 2.5):
        k = MaternKernel(nu=nu, ard_num_dims=d); k.lengthscale = ls; check(f'Matern{nu} ard {n1}x{n2}', k(x1, x2), pair(matern(ls, nu), x1, x2))
        k = MaternKernel(nu=nu); k.lengthscale = 0.9; check(f'Matern{nu} {n1}x{n2}', k(x1, x2), pair(matern(torch.tensor(0.9), nu), x1, x2))
    k = RQKernel(ard_num_dims=d); k.lengthscale = ls; k.alpha = 1.7
    check(f'RQ {n1}x{n2}', k(x1, x2), pair(lambda a, b: (1 + (((a - b) / ls) ** 2).sum() / (2 * 1.7)) ** (-1.7), x1, x2))
    k = PeriodicKernel(ard_num_dims=d); k.lengthscale = ls; k.period_length = torch.tensor([1.5, 0.8])
    check(f'Periodic {n1}x{n2}', k(x1, x2), pair(lambda a, b: torch.exp(-2 * (torch.sin(math.pi * (a - b) / torch.tensor([1.5, 0.8])) ** 2 / ls).sum()), x1, x2))
    k = CosineKernel(); k.period_length = 1.4
    check(f'Cosine {n1}x{n2}', k(x1, x2), pair(lambda a, b: torch.cos(math.pi * (a - b).norm() / 1.4), x1, x2))
    k = LinearKernel(); k.variance = 0.6; check(f'Linear {n1}x{n2}', k(x1, x2), pair(lambda a, b: 0.6 * (a * b).sum(), x1, x2))
    for pw in (1, 2, 3):
        k = PolynomialKernel(power=pw); k.offset = 0.8; check(f'Poly{pw} {n1}x{n2}', k(x1, x2), pair(lambda a, b: ((a * b).sum() + 0.8) ** pw, x1, x2))
    for q in (0, 1, 2, 3):
        k = PiecewisePolynomialKernel(q=q); k.lengthscale = 2.5
        j = d // 2 + q + 1
        def pp(a, b, q=q, j=j):
            r = ((a - b) / 2.5).norm(); base = torch.clamp(1 - r, min=0) ** (j + q)
            poly = {0: 1, 1: (j + 1) * r + 1, 2: 1 + (j + 2) * r + (j ** 2 + 4 * j + 3) / 3 * r ** 2,
                    3: 1 + (j + 3) * r + (6 * j ** 2 + 36 * j + 45) / 15 * r ** 2 + (j ** 3 + 9 * j ** 2 + 23 * j + 15) / 15 * r ** 3}[q]
            return base * poly
        check(f'PP q={q} {n1}x{n2}', k(x1, x2), pair(pp, x1, x2))
    k = ScaleKernel(RBFKernel()); k.outputscale = 2.2; k.base_kernel.lengthscale = 0.9
    check(f'Scale(RBF) {n1}x{n2}', k(x1, x2), 2.2 * pair(rbf(torch.tensor(0.9)), x1, x2))
    # gradients
    k = RBFKernelGrad(); k.lengthscale = 0.9; check(f'RBFGrad {n1}x{n2}', k(x1, x2), grad_layout(rbf(torch.tensor(0.9)), x1, x2))
    k = RBFKernelGrad(ard_num_dims=d); k.lengthscale = ls; check(f'RBFGrad ard {n1}x{n2}', k(x1, x2), grad_layout(rbf(ls), x1, x2))
    k = Matern52KernelGrad(); k.lengthscale = 0.9
    if n1 != n2 or True: check(f'Matern52Grad {n1}x{n2}', k(x1, x2 if n1 != n2 else x1 + 0.37), grad_layout(matern(torch.tensor(0.9), 2.5), x1, x2 if n1 != n2 else x1 + 0.37))
    k = PolynomialKernelGrad(power=3); k.offset = 0.8; check(f'PolyGrad {n1}x{n2}', k(x1, x2), grad_layout(lambda a, b: ((a * b).sum() + 0.8) ** 3, x1, x2))
    k = RBFKernelGradGrad(); k.lengthscale = 0.9; check(f'RBFGradGrad {n1}x{n2}', k(x1, x2), grad_layout(rbf(torch.tensor(0.9)), x1, x2, order=2))
for r in results:
    if r[-1] or r[1] == 'SHAPE': print(r)
print(len(results), 'checks;', sum(1 for r in results if r[-1] or r[1]=='SHAPE'), 'bad')
