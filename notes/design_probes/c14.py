import torch, gpytorch, warnings, itertools
warnings.filterwarnings("ignore")
torch.set_default_dtype(torch.float64)
from gpytorch import settings as S
from gpytorch.variational import *
class V(gpytorch.models.ApproximateGP):
    def __init__(s, Z, strat_cls, dist_cls, bs=torch.Size()):
        vd = dist_cls(Z.size(-2), batch_shape=bs)
        vs = strat_cls(s, Z, vd, learn_inducing_locations=True)
        super().__init__(vs)
        s.mean_module = gpytorch.means.ConstantMean(batch_shape=bs)
        s.covar_module = gpytorch.kernels.ScaleKernel(gpytorch.kernels.RBFKernel(batch_shape=bs), batch_shape=bs)
    def forward(s, x):
        return gpytorch.distributions.MultivariateNormal(s.mean_module(x), s.covar_module(x))
torch.manual_seed(0)
M_, n, d = 4, 5, 2
Z = torch.randn(M_, d); X = torch.randn(n, d)
mvec = torch.randn(M_); A = torch.randn(M_, M_); Lq = torch.linalg.cholesky(A@A.T/ M_ + 0.3*torch.eye(M_))
def setp(m):
    m.covar_module.base_kernel.lengthscale = 0.9; m.covar_module.outputscale = 1.4; m.mean_module.constant.data.fill_(0.3)
for jit in (1e-6, 1e-10):
  with S.variational_cholesky_jitter(double_value=jit):
    for strat in (VariationalStrategy, UnwhitenedVariationalStrategy):
        m = V(Z, strat, CholeskyVariationalDistribution); setp(m); m.eval()
        vd = m.variational_strategy._variational_distribution
        vd.variational_mean.data.copy_(mvec); vd.chol_variational_covar.data.copy_(Lq)
        m.variational_strategy.variational_params_initialized.fill_(1)
        with torch.no_grad():
            out = m(X); kl = m.variational_strategy.kl_divergence()
            Kall = m.covar_module(torch.cat([Z, X])).to_dense(); Kzz = Kall[:M_,:M_]; Kzx = Kall[:M_,M_:]; Kxx = Kall[M_:,M_:]
            mu = 0.3
            for jref in (jit,):
                Kj = Kzz + jref*torch.eye(M_)
                if strat is VariationalStrategy:
                    Lz = torch.linalg.cholesky(Kj); mu_u = mu + Lz @ mvec; S_u = Lz @ (Lq@Lq.T) @ Lz.T
                    kl_ref = torch.distributions.kl_divergence(torch.distributions.MultivariateNormal(mvec, scale_tril=Lq), torch.distributions.MultivariateNormal(torch.zeros(M_), torch.eye(M_)))
                else:
                    mu_u = mvec; S_u = Lq@Lq.T
                    Kp = Kzz + 1e-3*torch.eye(M_)
                    kl_ref = torch.distributions.kl_divergence(torch.distributions.MultivariateNormal(mvec, scale_tril=Lq), torch.distributions.MultivariateNormal(torch.full((M_,), mu), Kp))
                Aop = torch.linalg.solve(Kj, Kzx)
                mean_ref = mu + Aop.T @ (mu_u - mu)
                cov_ref = Kxx - Aop.T @ (Kj - S_u) @ Aop
                print(jit, strat.__name__, 'mean', (out.mean-mean_ref).abs().max().item(), 'cov', (out.covariance_matrix-cov_ref).abs().max().item(), 'kl', abs(kl-kl_ref).item())
