import torch, gpytorch, warnings, itertools, math
warnings.filterwarnings("ignore")
torch.set_default_dtype(torch.float64)
from gpytorch.distributions import MultitaskMultivariateNormal as MT, MultivariateNormal as MVN
torch.manual_seed(0)
res = []
def J_of(C, n, t, inter):
    return C.view(*C.shape[:-2], n, t, n, t) if inter else C.view(*C.shape[:-2], t, n, t, n).transpose(-4, -3).transpose(-2, -1)
for (n, t), bs, inter in itertools.product([(3, 2), (2, 3), (1, 2)], [(), (2,)], [True, False]):
    mean = torch.randn(*bs, n, t); A = torch.randn(*bs, n * t, n * t); C = A @ A.mT + torch.eye(n * t)
    d = MT(mean, C, interleaved=inter)
    J = J_of(C, n, t, inter)  # [.., i, a, j, b]
    Cint = J.reshape(*bs, n * t, n * t)  # interleaved order joint covariance
    tag = f'n{n}t{t} b{bs} inter={inter}'
    res.append((tag, 'mean', (d.mean - mean).abs().max().item()))
    res.append((tag, 'var', (d.variance - Cint.diagonal(dim1=-1, dim2=-2).view(*bs, n, t)).abs().max().item()))
    v = torch.randn(*bs, n, t)
    ref = torch.distributions.MultivariateNormal(mean.reshape(*bs, n * t), Cint).log_prob(v.reshape(*bs, n * t))
    for fast in (True, False):
        with gpytorch.settings.fast_computations(log_prob=fast):
            res.append((tag, f'log_prob fast={fast}', (d.log_prob(v) - ref).abs().max().item()))
    # rsample with base samples: covariance of map must be Cint: use basis
    E = torch.eye(n * t).view(n * t, *([1] * len(bs)), n, t).expand(n * t, *bs, n, t)
    try:
        S = d.rsample(base_samples=E) - mean  # [nt, *bs, n, t] -> columns of L in output layout
        Lmat = S.reshape(n * t, *bs, n * t).movedim(0, -1)  # [*bs, nt(out), nt(basis)]
        res.append((tag, 'rsample LLt', (Lmat @ Lmat.mT - Cint).abs().max().item()))
    except Exception as e: res.append((tag, 'rsample', 'EXC ' + str(e)[:60]))
    bsamp = d.get_base_samples(torch.Size([4])); res.append((tag, 'base_samples shape', 0.0 if bsamp.shape == torch.Size([4, *bs, n, t]) else str(tuple(bsamp.shape))))
    # to_data_independent_dist
    di = d.to_data_independent_dist(jitter_val=0.0)
    blk = torch.stack([J[..., i, :, i, :] for i in range(n)], -3)
    res.append((tag, 'data_indep', (di.covariance_matrix - blk).abs().max().item()))
# constructors
for bs in [(), (2,)]:
    n, t = 3, 2
    m = torch.randn(*bs, t, n); A = torch.randn(*bs, t, n, n); C = A @ A.mT + torch.eye(n)
    b = MVN(m, C)
    d = MT.from_batch_mvn(b, task_dim=-1)
    Jref = torch.zeros(*bs, n, t, n, t)
    for a in range(t): Jref[..., :, a, :, a] = C[..., a, :, :]
    Jd = J_of(d.covariance_matrix, n, t, d._interleaved)
    res.append((f'from_batch_mvn b{bs}', 'cov', (Jd - Jref).abs().max().item())); res.append((f'from_batch_mvn b{bs}', 'mean', (d.mean - m.mT).abs().max().item()))
    mv = [MVN(m[..., a, :], C[..., a, :, :]) for a in range(t)]
    d2 = MT.from_independent_mvns(mv); Jd2 = J_of(d2.covariance_matrix, n, t, d2._interleaved)
    res.append((f'from_independent b{bs}', 'cov', (Jd2 - Jref).abs().max().item())); res.append((f'from_independent b{bs}', 'mean', (d2.mean - m.mT).abs().max().item()))
    v = torch.randn(*bs, n, t)
    ref = sum(torch.distributions.MultivariateNormal(m[..., a, :], C[..., a, :, :]).log_prob(v[..., a]) for a in range(t))
    res.append((f'from_independent b{bs}', 'log_prob', (d2.log_prob(v) - ref).abs().max().item()))
    d3 = MT.from_repeated_mvn(MVN(m[..., 0, :], C[..., 0, :, :]), num_tasks=3); Jd3 = J_of(d3.covariance_matrix, n, 3, d3._interleaved)
    Jr3 = torch.zeros(*bs, n, 3, n, 3)
    for a in range(3): Jr3[..., :, a, :, a] = C[..., 0, :, :]
    res.append((f'from_repeated b{bs}', 'cov', (Jd3 - Jr3).abs().max().item()))
if True:
    # task_dim variants with 2 batch dims
    m = torch.randn(2, 4, 3); A = torch.randn(2, 4, 3, 3); C = A @ A.mT + torch.eye(3); b = MVN(m, C)
    for td in (0, 1, -1, -2):
        try:
            d = MT.from_batch_mvn(b, task_dim=td)
            tdp = td % 2; t = m.shape[tdp]; other = 1 - tdp
            ok = d.mean.shape == torch.Size([m.shape[other], 3, t])
            # element check
            Jd = J_of(d.covariance_matrix, 3, t, d._interleaved)
            err = 0
            for o in range(m.shape[other]):
                for a in range(t):
                    src = C[(a, o) if tdp == 0 else (o, a)]
                    err = max(err, (Jd[o, :, a, :, a] - src).abs().max().item())
            res.append((f'from_batch_mvn task_dim={td}', 'cov', err if ok else 'shape ' + str(tuple(d.mean.shape))))
        except Exception as e: res.append((f'from_batch_mvn task_dim={td}', 'EXC', str(e)[:70]))
for r in res:
    if not (isinstance(r[2], float) and r[2] < 1e-9): print('BAD', r)
print(len(res), 'checks')
