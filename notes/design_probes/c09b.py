import torch, gpytorch, warnings, math, itertools
warnings.filterwarnings("ignore")
torch.set_default_dtype(torch.float64)
from gpytorch import settings as S
from gpytorch.kernels import *
torch.manual_seed(0)
n1, n2, d, t = 3, 2, 2, 2
x1 = torch.randn(n1, d); x2 = torch.randn(n2, d)
res = []
def chk(name, a, b):
    a = a.to_dense() if hasattr(a, 'to_dense') else a
    if a.shape != b.shape: res.append((name, 'SHAPE', tuple(a.shape), tuple(b.shape))); return
    e = (a - b).abs().max().item(); res.append((name, f'{e:.1e}', 'BAD' if e > 1e-9 else ''))
# Multitask kernel
for rank in (1, 2):
    k = MultitaskKernel(RBFKernel(), num_tasks=t, rank=rank)
    with torch.no_grad():
        for p in k.parameters(): p.copy_(torch.randn_like(p) * 0.5)
    W = k.task_covar_module.covar_factor; v = k.task_covar_module.var
    B = W @ W.T + torch.diag(v)
    Kx = k.data_covar_module(x1, x2).to_dense()
    chk(f'Multitask r{rank}', k(x1, x2), torch.kron(Kx, B))
    chk(f'Multitask r{rank} sq', k(x1), torch.kron(k.data_covar_module(x1).to_dense(), B))
# Index kernel
k = IndexKernel(num_tasks=3, rank=2)
with torch.no_grad():
    for p in k.parameters(): p.copy_(torch.randn_like(p) * 0.5)
B = k.covar_factor @ k.covar_factor.T + torch.diag(k.var)
i1 = torch.tensor([[0], [2], [1]]); i2 = torch.tensor([[1], [1]])
chk('Index', k(i1, i2), B[i1.squeeze(-1)][:, i2.squeeze(-1)])
# LCM
k = LCMKernel([RBFKernel(), MaternKernel(nu=1.5)], num_tasks=t, rank=1)
with torch.no_grad():
    for p in k.parameters(): p.copy_(torch.randn_like(p) * 0.5)
ref = 0
for mk in k.covar_module_list:
    W = mk.task_covar_module.covar_factor; B = W @ W.T + torch.diag(mk.task_covar_module.var)
    ref = ref + torch.kron(mk.data_covar_module(x1, x2).to_dense(), B)
chk('LCM', k(x1, x2), ref)
# GridKernel
for toep in (True, False):
    grid = [torch.linspace(0, 1, 4), torch.linspace(0, 2, 3)]
    base = RBFKernel(ard_num_dims=2); base.lengthscale = torch.tensor([0.5, 1.1])
    k = GridKernel(base, grid)
    full = gpytorch.utils.grid.create_data_from_grid(grid)
    with S.use_toeplitz(toep):
        chk(f'Grid toeplitz={toep}', k(full, full), base(full, full).to_dense())
        k.eval(); chk(f'Grid eval toeplitz={toep}', k(full, full), base(full, full).to_dense())
    chk('Grid offgrid', k(x1.abs(), full), base(x1.abs(), full).to_dense())
# GridInterpolationKernel: K = W Kuu W^T, weights sum to 1
k = GridInterpolationKernel(RBFKernel(), grid_size=10, grid_bounds=[(-3, 3), (-3, 3)])
K = k(x1, x2)
ek = K.evaluate_kernel()
W1 = ek._sparse_left_interp_t(ek.left_interp_indices, ek.left_interp_values).to_dense().T if hasattr(ek, '_sparse_left_interp_t') else None
print(type(ek).__name__)
from gpytorch.utils.interpolation import Interpolation
idx, val = Interpolation().interpolate(k.grid, x1)
print('interp weights sum', val.sum(-1))
# quadratics reproduction in 1d
g = [torch.linspace(0, 1, 11)]
xt = torch.tensor([[0.33], [0.5], [0.55], [0.07], [0.95], [0.2]])
idx, val = Interpolation().interpolate(g, xt)
for deg in range(4):
    f = g[0] ** deg
    print('deg', deg, ((f[idx] * val).sum(-1) - xt.squeeze(-1) ** deg).abs().tolist())
for r in res: print(r)
