import torch, gpytorch, warnings, itertools, math
warnings.filterwarnings("ignore")
torch.set_default_dtype(torch.float64)
from gpytorch import settings as S
from gpytorch.kernels import *
from gpytorch.priors import *
torch.manual_seed(0)
class M(gpytorch.models.ExactGP):
    def __init__(s, x, y, lik, bs, priors):
        super().__init__(x, y, lik)
        s.mean_module = gpytorch.means.ConstantMean(batch_shape=bs, constant_prior=NormalPrior(0., 2.) if priors else None)
        s.covar_module = ScaleKernel(RBFKernel(batch_shape=bs, lengthscale_prior=GammaPrior(2., 3.) if priors else None), batch_shape=bs,
                                     outputscale_prior=SmoothedBoxPrior(0.1, 4.) if priors else None)
    def forward(s, x): return gpytorch.distributions.MultivariateNormal(s.mean_module(x), s.covar_module(x))
def softplus(x): return torch.log1p(torch.exp(x))
n, d = 5, 2
for bs, priors, kind in itertools.product([(), (2,), (2,3)], [False, True], ['mll', 'loo']):
    bs = torch.Size(bs)
    X = torch.randn(*bs, n, d); y = torch.randn(*bs, n)
    lik = gpytorch.likelihoods.GaussianLikelihood(batch_shape=bs, noise_prior=LogNormalPrior(-1., 0.5) if priors else None)
    m = M(X, y, lik, bs, priors)
    with torch.no_grad():
        for p in m.parameters(): p.copy_(torch.randn_like(p) * 0.5)
    m.train(); lik.train()
    obj = (gpytorch.mlls.ExactMarginalLogLikelihood if kind == 'mll' else gpytorch.mlls.LeaveOneOutPseudoLikelihood)(lik, m)
    try:
        with S.fast_computations(log_prob=False, solves=False):
            val = obj(m(X), y)
        g = torch.autograd.grad(val.sum(), list(m.parameters()))
        # reference
        P = {k: v.detach().clone().requires_grad_(True) for k, v in m.named_parameters()}
        ls = softplus(P['covar_module.base_kernel.raw_lengthscale']); os_ = softplus(P['covar_module.raw_outputscale']); c = P['mean_module.raw_constant']
        nz = softplus(P['likelihood.noise_covar.raw_noise']) + 1e-4
        Xs_ = X / ls
        D2 = (Xs_.unsqueeze(-2) - Xs_.unsqueeze(-3)).pow(2).sum(-1)
        K = os_[..., None, None] * torch.exp(-0.5 * D2) + nz[..., None] * torch.eye(n)
        mu = c[..., None].expand(*bs, n)
        if kind == 'mll':
            ll = torch.distributions.MultivariateNormal(mu, K).log_prob(y)
        else:
            terms = []
            for i in range(n):
                idx = [j for j in range(n) if j != i]
                Koo = K[..., idx, :][..., :, idx]; kio = K[..., i, idx]
                sol = torch.linalg.solve(Koo, (y[..., idx] - mu[..., idx]).unsqueeze(-1)).squeeze(-1)
                mi = mu[..., i] + (kio * sol).sum(-1)
                vi = K[..., i, i] - (kio * torch.linalg.solve(Koo, kio.unsqueeze(-1)).squeeze(-1)).sum(-1)
                terms.append(torch.distributions.Normal(mi, vi.sqrt()).log_prob(y[..., i]))
            ll = torch.stack(terms, -1).sum(-1)
        if priors:
            lp = torch.distributions.Gamma(2., 3.).log_prob(ls).flatten(len(bs)).sum(-1) if len(bs) else torch.distributions.Gamma(2., 3.).log_prob(ls).sum()
            lp = lp + (torch.distributions.Normal(0., 2.).log_prob(c))
            lp = lp + torch.distributions.LogNormal(-1., 0.5).log_prob(nz).flatten(len(bs)).sum(-1) if len(bs) else lp + torch.distributions.LogNormal(-1., 0.5).log_prob(nz).sum()
            sb = SmoothedBoxPrior(0.1, 4.).log_prob(os_)
            lp = lp + sb
            ll = ll + lp
        ref = ll / n
        gref = torch.autograd.grad(ref.sum(), [P[k] for k, _ in m.named_parameters()])
        ev = (val - ref).abs().max().item(); eg = max((a - b).abs().max().item() for a, b in zip(g, gref))
        print(tuple(bs), priors, kind, f'val {ev:.1e} grad {eg:.1e}')
    except Exception as e:
        print(tuple(bs), priors, kind, 'EXC', type(e).__name__, str(e)[:100])
