import torch, gpytorch, warnings, math, itertools
warnings.filterwarnings("ignore")
torch.set_default_dtype(torch.float64)
from gpytorch.utils.quadrature import GaussHermiteQuadrature1D
from scipy.special import factorial2
import numpy as np
def normal_moment(k, m, v):
    # E[(m + sqrt(v) z)^k]
    s = 0.0
    for j in range(0, k + 1, 2):
        s += math.comb(k, j) * m ** (k - j) * v ** (j / 2) * (factorial2(j - 1) if j > 0 else 1.0)
    return s
worst = {}
for nl in (1, 2, 3, 5, 10, 20, 40):
    q = GaussHermiteQuadrature1D(nl)
    print(nl, q.locations.dtype)
    q = q.double() if hasattr(q, 'double') else q
    for m, v in itertools.product([-3., 0., 0.7, 10.], [1e-6, 0.3, 1., 9.]):
        dist = torch.distributions.Normal(torch.tensor([m]), torch.tensor([v]).sqrt())
        for k in range(0, 2 * nl + 2):
            val = q(lambda x: x ** k, dist).item()
            # scale: sum |w_i x_i^k|
            scale = q(lambda x: x.abs() ** k, dist).item()
            ref = normal_moment(k, m, v)
            rel = abs(val - ref) / max(scale, 1e-300)
            key = (nl, 'exact' if k <= 2 * nl - 1 else 'beyond')
            worst[key] = max(worst.get(key, 0), rel)
for k, v in sorted(worst.items()): print(k, f'{v:.2e}')
