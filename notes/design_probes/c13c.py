import torch, gpytorch, warnings, math, numpy as np
warnings.filterwarnings("ignore")
torch.set_default_dtype(torch.float64)
from gpytorch import likelihoods as L, settings as S
from gpytorch.distributions import MultivariateNormal as MVN
from scipy import integrate, stats, special
ms = [-2.0, 0.0, 0.7, 3.0]; vs = [0.01, 0.5, 2.0]
def quad(f, m, v):
    sd = math.sqrt(v); return integrate.quad(lambda x: f(x) * stats.norm(m, sd).pdf(x), m - 12 * sd, m + 12 * sd, limit=400, epsabs=1e-13, epsrel=1e-12)[0]
for nl in (10, 20, 40):
  with S.num_gauss_hermite_locs(nl):
    liks = {
      'Bernoulli': (L.BernoulliLikelihood(), [0., 1.], lambda y: (lambda f: stats.norm.logcdf(f) if y == 1 else stats.norm.logcdf(-f))),
      'Laplace': (L.LaplaceLikelihood(), [-0.5, 1.2], None), 'StudentT': (L.StudentTLikelihood(), [-0.5, 1.2], None), 'Beta': (L.BetaLikelihood(), [0.2, 0.7], None),
    }
    liks['Laplace'][0].noise = 0.6; liks['StudentT'][0].noise = 0.4; liks['StudentT'][0].deg_free = 4.5; liks['Beta'][0].scale = 3.0
    def logp(name, lik):
        if name == 'Laplace': return lambda y: (lambda f: stats.laplace(loc=f, scale=math.sqrt(0.6)).logpdf(y))  # doc: scale?
        if name == 'StudentT': return lambda y: (lambda f: stats.t(df=4.5, loc=f, scale=math.sqrt(0.4)).logpdf(y))
        if name == 'Beta': return lambda y: (lambda f: stats.beta(a=3.0 * special.expit(f) if False else 3.0 * stats.norm.cdf(f), b=3.0 - 3.0 * stats.norm.cdf(f)).logpdf(y))
    worst = {}
    for name, (lik, ys, lp) in liks.items():
        for m in ms:
            for v in vs:
                d = MVN(torch.tensor([m]), torch.tensor([[v]]))
                for y in ys:
                    f = (lp or logp(name, lik))(y)
                    elp = lik.expected_log_prob(torch.tensor([y]), d).item(); ref = quad(f, m, v)
                    lm = lik.log_marginal(torch.tensor([y]), d).item(); refm = math.log(quad(lambda x: math.exp(f(x)), m, v))
                    worst[name] = max(worst.get(name, 0), abs(elp - ref)); worst[name + '_lm'] = max(worst.get(name + '_lm', 0), abs(lm - refm))
                if name == 'Bernoulli':
                    pr = lik(d).probs.item(); worst['Bern_marg'] = max(worst.get('Bern_marg', 0), abs(pr - stats.norm.cdf(m / math.sqrt(1 + v))))
    print(nl, {k: f'{v:.1e}' for k, v in worst.items()})
