import torch, gpytorch, time, numpy as np, warnings
warnings.filterwarnings("ignore")
from scipy.special import log_ndtr
from gpytorch.functions import log_normal_cdf
torch.set_num_threads(1)
N = 1<<22
t0=time.time()
bits = torch.arange(0x3F000000, 0x3F000000+N, dtype=torch.int32)
z = bits.view(torch.float32)
out = log_normal_cdf(z)
t1=time.time()
ref = log_ndtr(z.double().numpy())
t2=time.time()
print('impl', t1-t0, 'ref', t2-t1, 'maxerr', np.abs(out.double().numpy()-ref).max())
# neg side
bits = torch.arange(-(0x40000000)+0, -(0x40000000)+N, dtype=torch.int32)  # sign bit set
z = bits.view(torch.float32); print(z[:3], z[-3:])
out = log_normal_cdf(z); ref = log_ndtr(z.double().numpy()); print(np.nanmax(np.abs(out.double().numpy()-ref)))
# double: scan lattice
zz = torch.linspace(-40, 10, 2000001, dtype=torch.float64)
o = log_normal_cdf(zz); r = log_ndtr(zz.numpy()); e = np.abs(o.numpy()-r); print('f64 lattice max abs err', e.max(), zz[e.argmax()].item(), 'for z>=-1', e[zz.numpy()>=-1].max())
zz = torch.linspace(-1e4, -40, 200001, dtype=torch.float64); o = log_normal_cdf(zz); r = log_ndtr(zz.numpy()); e = np.abs(o.numpy()-r); print('far tail', e.max(), (e/np.abs(r)).max())
