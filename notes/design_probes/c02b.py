import torch, gpytorch, warnings, traceback
warnings.filterwarnings("ignore")
torch.set_default_dtype(torch.float64)
from gpytorch.kernels import *
from gpytorch.priors import *
bs = torch.Size((2,3)); n=4; d=2
for which in ['const','ls','os','noise']:
    class M(gpytorch.models.ExactGP):
        def __init__(s, x, y, lik):
            super().__init__(x, y, lik)
            s.mean_module = gpytorch.means.ConstantMean(batch_shape=bs, constant_prior=NormalPrior(0., 2.) if which=='const' else None)
            s.covar_module = ScaleKernel(RBFKernel(batch_shape=bs, lengthscale_prior=GammaPrior(2., 3.) if which=='ls' else None), batch_shape=bs,
                                         outputscale_prior=SmoothedBoxPrior(0.1, 4.) if which=='os' else None)
        def forward(s, x): return gpytorch.distributions.MultivariateNormal(s.mean_module(x), s.covar_module(x))
    X = torch.randn(*bs, n, d); y = torch.randn(*bs, n)
    lik = gpytorch.likelihoods.GaussianLikelihood(batch_shape=bs, noise_prior=LogNormalPrior(-1., 0.5) if which=='noise' else None)
    m = M(X, y, lik).train()
    try:
        v = gpytorch.mlls.ExactMarginalLogLikelihood(lik, m)(m(X), y); print(which, 'ok', v.shape)
    except Exception as e:
        print(which, 'EXC', e); traceback.print_exc(limit=3)
