import torch, gpytorch, itertools, warnings
warnings.filterwarnings("ignore")
torch.set_default_dtype(torch.float64)
from gpytorch import settings as S
from gpytorch.kernels import *
from gpytorch import likelihoods as L
torch.manual_seed(1)
n, m, d, q = 5, 3, 1, 2
X = torch.rand(n, d); y = torch.randn(n); Xs = torch.rand(m, d); Xf = torch.rand(q, d); yf = torch.randn(q)
class E(gpytorch.models.ExactGP):
    def __init__(s, x, y, lik, kind):
        super().__init__(x, y, lik); s.kind = kind
        if kind == 'mt':
            s.mean_module = gpytorch.means.MultitaskMean(gpytorch.means.ConstantMean(), num_tasks=2); s.covar_module = MultitaskKernel(RBFKernel(), num_tasks=2, rank=1)
        else:
            s.mean_module = gpytorch.means.ConstantMean(); base = ScaleKernel(RBFKernel())
            s.covar_module = GridInterpolationKernel(base, grid_size=10, grid_bounds=[(-0.5, 1.5)]) if kind == 'kiss' else base
    def forward(s, x):
        if s.kind == 'mt': return gpytorch.distributions.MultitaskMultivariateNormal(s.mean_module(x), s.covar_module(x))
        return gpytorch.distributions.MultivariateNormal(s.mean_module(x), s.covar_module(x))
def copy_params(src, dst):
    for (a, p), (b, r) in zip(src.named_parameters(), dst.named_parameters()): r.data.copy_(p.data)
for kind in ['fixed', 'fixed+learn', 'mt', 'kiss']:
  for fpv in (False, True):
    try:
        torch.manual_seed(2)
        if kind.startswith('fixed'):
            nz = torch.rand(n) * 0.2 + 0.05; nzf = torch.rand(q) * 0.2 + 0.05
            mk = lambda noise: L.FixedNoiseGaussianLikelihood(noise, learn_additional_noise=(kind == 'fixed+learn'))
            lik = mk(nz); mod = E(X, y, lik, 'plain'); kw = dict(noise=nzf); Y, Yf = y, yf
            lik2 = mk(torch.cat([nz, nzf]))
        elif kind == 'mt':
            lik = L.MultitaskGaussianLikelihood(num_tasks=2); Y = torch.randn(n, 2); Yf = torch.randn(q, 2); mod = E(X, Y, lik, 'mt'); kw = {}; lik2 = L.MultitaskGaussianLikelihood(num_tasks=2)
        else:
            lik = L.GaussianLikelihood(); mod = E(X, y, lik, 'kiss'); kw = {}; Y, Yf = y, yf; lik2 = L.GaussianLikelihood()
        with torch.no_grad():
            for p in mod.parameters(): p.add_(0.3 * torch.randn_like(p))
        mod.eval()
        with S.fast_pred_var(fpv), torch.no_grad():
            before = mod(Xs); bm, bc = before.mean.clone(), before.covariance_matrix.clone()
            fm = mod.get_fantasy_model(Xf, Yf, **kw); out = fm(Xs)
            after = mod(Xs); src = max((after.mean - bm).abs().max().item(), (after.covariance_matrix - bc).abs().max().item())
            ref = E(torch.cat([X, Xf]), torch.cat([Y, Yf]), lik2, 'mt' if kind == 'mt' else ('kiss' if kind == 'kiss' else 'plain')); copy_params(mod, ref); ref.eval(); r = ref(Xs)
            em = (out.mean - r.mean).abs().max().item(); ec = (out.covariance_matrix - r.covariance_matrix).abs().max().item()
            # level 2
            Xf2 = torch.rand(1, d); Yf2 = torch.randn(1, 2) if kind == 'mt' else torch.randn(1)
            kw2 = dict(noise=torch.tensor([0.07])) if kind.startswith('fixed') else {}
            fm2 = fm.get_fantasy_model(Xf2, Yf2, **kw2); o2 = fm2(Xs)
            lik3 = (L.FixedNoiseGaussianLikelihood(torch.cat([nz, nzf, torch.tensor([0.07])]), learn_additional_noise=(kind == 'fixed+learn')) if kind.startswith('fixed') else (L.MultitaskGaussianLikelihood(num_tasks=2) if kind == 'mt' else L.GaussianLikelihood()))
            ref2 = E(torch.cat([X, Xf, Xf2]), torch.cat([Y, Yf, Yf2]), lik3, 'mt' if kind == 'mt' else ('kiss' if kind == 'kiss' else 'plain')); copy_params(mod, ref2); ref2.eval(); r2 = ref2(Xs)
            em2 = (o2.mean - r2.mean).abs().max().item(); ec2 = (o2.covariance_matrix - r2.covariance_matrix).abs().max().item()
        print(kind, fpv, f'lvl1 {em:.1e} {ec:.1e} src {src:.1e} lvl2 {em2:.1e} {ec2:.1e}')
    except Exception as e:
        import traceback; print(kind, fpv, 'EXC', type(e).__name__, str(e)[:110])
