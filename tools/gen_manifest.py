#!/venv/bin/python
"""Regenerate /verif/MANIFEST.json from the table below; a property is claimed iff checks/<id>.py exists."""
import json
import os

ROOT = os.path.dirname(os.path.dirname(os.path.abspath(__file__)))
S = "explicit-state BFS over operation sequences on the real objects (Engine S)"
G = "bounded-exhaustive enumeration of a finite configuration lattice on the real code vs a reference model (Engine G)"

T = {
 "C01": (G, "3", "every cell of (model family x likelihood x (n,d,m) x batch triple x parameter valuation x prediction-settings "
         "combination) is executed on the real ExactGP and compared with the dense float64 Gaussian conditional (mean, covariance, "
         "variance, likelihood-added noise); batch dimensions carried only by the targets / the noise / the mean.",
         "values outside the finite data/parameter lattice; Lanczos below full rank is an approximation and not claimed"),
 "C02": (G, "3", "every cell of (family x likelihood x prior assignment x batch shape x objective {MLL, LOO, SumMLL} x path) compared in value "
         "AND gradient (autograd of an independent dense reference); a prior-bearing kernel object used twice; re-evaluation after a parameter update; every prior handed to a constructor is among the priors the model reports",
         "stochastic Lanczos log-det is a statistical estimator: only the deterministic Cholesky path (and CG inv-quad part) is decided"),
 "C03": (S, "3", "all operation sequences up to the depth bound over the public state-changing alphabet, on exact (default / KISS / SGPR / "
         "grid / multitask) and variational models; on every predict transition the output is compared with a freshly built model holding "
         "the same parameters and data; canonical-state deduplication with a side-effect-free digest",
         "depth bound; finite data lattice; direct parameter edits in eval mode excluded as in the property"),
 "C04": (G + " x short histories (fantasy of fantasy)", "3", "every cell of (model batch x fantasy batch x shared/per-fantasy inputs x likelihood x strategy "
         "x settings x pre-history x fantasy depth) compared with a fresh ExactGP on the concatenated data; source digest/prediction unchanged; "
         "carried caches recomputed from full data; un-batched inputs for batched models, 1-d shorthand inputs, forward keyword arguments, model batch (1, b), inputs shared by a batch of models, KISS-GP with fixed noise, fantasy model independent of its source", "finite data lattice; depth <= 4"),
 "C05": (G, "3", "every exported kernel class x (d, n1!=n2, ARD, batch, parameter valuation, diag, code path, degenerate geometry) vs the documented "
         "covariance function written as an explicit scalar function of two rows", "finite input lattice"),
 "C06": (G + ", index expressions exhaustive on small shapes", "3", "kernel basis x broadcast triples x active_dims x lazy on/off x every index expression of the "
         "per-dimension alphabet; oracle = index the dense result; kernels on discrete inputs; as many kernel batch members as points; data with an extra leading batch dimension of size one; expand_batch of batched and non-batched kernels", "finite alphabet of index expressions / shapes"),
 "C07": (G + " + exhaustive subset lattice of observations", "3", "symmetry / eigenvalues of every covariance handed out over a geometry lattice incl. duplicates; all 2^4 "
         "training subsets and all edges of the subset lattice for monotone conditioning; variance floor; noise floor of every Gaussian-family likelihood incl. the likelihood built for a fantasy model", "PSD for all real inputs is a theorem per kernel; only the lattice is decided"),
 "C08": (G, "3", "every (module, parameter batch shape, data batch shape) broadcastable pair of rank 0..2 x every batch element vs a non-batched replica",
         "finite shape alphabet"),
 "C09": (G, "3", "structured kernels vs explicit dense formulas; kernel-specific prediction strategies vs the default dense conditional on the same approximate matrix; "
         "interpolation weights on every node/offset of small grids; finite refinement chain; strategies also from non-initial states and at the training inputs", "convergence is a limit: only the finite chain is decided"),
 "C10": (G + ", index expressions exhaustive on small shapes", "3", "event size x batch triples x covariance representation x log_prob path; KL pairs; rsample on every basis "
         "vector; arithmetic/expand/unsqueeze after warm-up histories; every index expression incl. numpy / 0-dim / mask / list index objects and paired index tensors", "sample-moment convergence replaced by x = mu + L e with L L^T = Sigma"),
 "C11": (G + ", index expressions exhaustive on small shapes", "3", "(n,t) x batch x layout x constructor x complete product of per-dimension index alphabets (incl. numpy / 0-dim / mask / list objects and batch index tensors) vs a 4-index joint covariance tensor; arithmetic on and across both layouts",
         "finite shapes"),
 "C12": (G, "3", "likelihood class x rank x noise switches x batch shapes x layout x call-time noise; R written out densely; call sequences <= 3 on one instance; every LikelihoodList entry point", "finite lattice"),
 "C13": (G + " + float32 sweep of log_normal_cdf", "3", "all polynomial degrees < 2*locs for each node count x (m,v) lattice; likelihood integrals vs adaptive quadrature; "
         "log_normal_cdf over a float32 bit-pattern lattice (thorough: all 2^32)", "truncation error for non-polynomial integrands bounded empirically along a finite chain"),
 "C14": (G, "3", "strategy x variational distribution x batch pattern x q(u) lattice x mode vs closed-form q(f) and KL with the documented jitter modelled (by argument and by the global setting); mean-only evaluation after a warm-up under other parameters; task_indices call mode of the multitask wrappers", "finite lattice"),
 "C15": (G + " (all 2^5-1 minibatch subsets)", "3", "objective formula for every minibatch subset x num_data x beta x q(u) lattice (single-output and multitask, combined and separate terms, attributes re-assigned after construction); ELBO <= log evidence; NGD step reaches the collapsed bound",
         "'for every q(u)' is decided on the q-lattice, the maximum exactly"),
 "C16": (G + " over all 2^n NaN patterns + " + S, "3", "all NaN patterns for n=4 (thorough: 5) / (n,t)=(3,2) / batches x policy x model vs the model on the data with those observations deleted; every order of policies up to length 3 (incl. a first prediction under ignore), fantasies with NaN, likelihood terms for batched targets; SGPR / RFF / KISS strategies and the masked SGPR objective vs the same model on the deleted data; models sharing inputs and targets; task-major independent outputs (MLL)",
         "finite n"),
 "C17": (S + " + float sweep of transforms", "3", "every constraint class x bounds lattice x raw-value sweep (float32 lattice / all float32 thorough); all assignment/initialize/step "
         "sequences to depth 3 on every constrained parameter of every catalogue module vs a plain-map reference; prior densities vs scipy", "finite catalogue / depth"),
 "C18": (S, "3", "save points at every state of short histories x eight mechanisms (state_dict into a perturbed fresh / used / tensor-replaced model, in-memory transfer with load_strict_shapes(False), pickle, torch.save, deepcopy, dtype conversion of a used copy) over a model catalogue; restored objects independent of the original; evolved plain attributes carried", "finite catalogue / depth"),
 "C19": (G + " (full Jacobians via basis upstream gradients)", "3", "every basis upstream gradient for each hand-written backward x input lattice hitting both branches of each piecewise definition "
         "vs autograd of an independent re-implementation and finite differences", "finite input lattice"),
 "C20": (S + " — programs of with-blocks with fault injection", "3", "all well-nested programs over every exported settings class x argument patterns up to the nesting bound with every exception placement, "
         "against a stack-of-dicts reference model of dynamic scoping; frame condition on every other class; context objects constructed before the blocks and entered twice", "nesting depth bound; programs are with-statements over settings objects"),
}


def main():
    checks, na = [], []
    for pid in sorted(T):
        tech, ref, text, note = T[pid]
        ready = set(open(os.path.join(ROOT, "checks", "READY")).read().split())
        if pid in ready and os.path.exists(os.path.join(ROOT, "checks", pid.lower() + ".py")):
            checks.append({
                "property_id": pid,
                "quick_cmd": f"./check {pid} quick",
                "thorough_cmd": f"./check {pid} thorough",
                "evidence_file": f"/verif/evidence/{pid}.json",
                "replay_cmd_template": f"./check {pid} --replay {{path}}",
                "engine": "gpmc",
                "level_claimed": {"category": "model_checking", "text": "Bounded exhaustive exploration directly on the real implementation: " + text,
                                  "design_ref": f"DESIGN.md §{ref} ({pid})"},
                "level_note": "Holds for every explored cell/history within the stated bounds, not for all reals. Trusted base: the reference models in "
                              "/verif/gpmc/refs and checks/ (plain float64 torch/scipy), torch itself, the explorer. Not decided: " + note,
                "technique": "model checking: " + tech,
            })
        else:
            na.append({"property_id": pid, "reason": "check not built yet in this tree (work in progress; the technique applies)"})
    man = {
        "version": 1,
        "setup_cmd": "mkdir -p evidence replays && /venv/bin/python tools/selftest.py",
        "hooks": {"guard": "GPYTORCH_VERIF", "enable": "none needed: pure-Python library imported from /repo's working tree (editable install); "
                  "checks observe caches/settings from outside", "baseline_off_cmd": "/verif/tools/baseline.py /repo", "source_commits": [], "add_only": True},
        "engines": [{"name": "gpmc", "path": "/verif/gpmc", "serves_properties": [c["property_id"] for c in checks],
                     "kind_free_text": "hand-written explicit-state explorer (Engine S: BFS over operation sequences with canonical-state dedup) and "
                                       "bounded-exhaustive lattice enumerator (Engine G) running the real GPyTorch code in 16 worker processes"}],
        "checks": checks,
        "notes": "All checks run /venv/bin/python against /repo's working tree (asserted at import). known_findings.json lists recorded genuine defects.",
        "not_applicable": na,
    }
    with open(os.path.join(ROOT, "MANIFEST.json"), "w") as fh:
        json.dump(man, fh, indent=1)
    print(f"claimed={len(checks)} not_applicable={len(na)}")


if __name__ == "__main__":
    main()
