#!/venv/bin/python
"""debug helper: run a check in-process (no confirm) and print a histogram of fail classes"""
import sys, os, collections, importlib
sys.path.insert(0, '/verif')
os.environ.setdefault("VERIF_NO_CONFIRM", "1")
from gpmc import runner, util, findings
prop, tier = sys.argv[1].upper(), sys.argv[2]
keys = sys.argv[3].split(',') if len(sys.argv) > 3 else None
mod = importlib.import_module("checks." + prop.lower())
ctx = runner.Ctx("checks." + prop.lower(), mod, tier, int(os.environ.get("VERIF_SEED", "0")))
if hasattr(mod, "main"): mod.main(ctx)
else: ctx.map("run_cell", mod.cells(tier, ctx.seed))
ctx.close()
kf = findings.load()
h = collections.Counter(); ex = {}
for fname, cell, feats, f in ctx.fail_records:
    m = findings.match(kf, prop, feats, f)
    import re
    sym = re.sub(r"[0-9.]+e[-+][0-9]+", "#", f["symptom"])[:110]
    fk = tuple((k, str(feats.get(k))) for k in (keys or []))
    k = ("KNOWN:" + m["id"] if m else "UNLISTED", f["sub"], sym, fk)
    h[k] += 1; ex.setdefault(k, (cell, f))
for k, v in sorted(h.items(), key=lambda kv: -kv[1]):
    print(v, k)
    print("     e.g.", util.jdump(ex[k][0])[:300], "|", ex[k][1]["detail"][:200].replace("\n", " "))
print("evaluations", ctx.evaluations, "fails", len(ctx.fail_records))
