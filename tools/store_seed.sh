#!/bin/bash
# usage: tools/store_seed.sh <agent out dir (with patch.diff demo.py meta.json)> <ID> [target checks...]
# copies a sub-agent's confirmed change to seeded/<ID>-m<next> and records which checks are expected to report it
SRC=$1; ID=$2; shift 2
k=1; while [ -d /verif/seeded/$ID-m$k ] || [ -d /verif/seeded/retired/$ID-m$k ]; do k=$((k+1)); done
D=/verif/seeded/$ID-m$k; mkdir -p $D
cp $SRC/patch.diff $SRC/demo.py $SRC/meta.json $D/
if [ $# -gt 0 ]; then
  /venv/bin/python - "$D/meta.json" "$@" <<'PY'
import json, sys
p = sys.argv[1]; m = json.load(open(p)); m["target_checks"] = sys.argv[2:]; json.dump(m, open(p, "w"), indent=1)
PY
fi
echo $D
