#!/bin/bash
# usage: tools/seed_matrix.sh [seed-dir-glob]  — runs the seeded changes (default: all) against the check(s) named in their meta (target_checks)
# or their own property, writes one seeded/<seed>/matrix.md per change and assembles seeded/MATRIX.md from all of them
# (seed | check | detected | first violation)
cd /verif
for d in ${1:-seeded/C*/}; do
  n=$(basename $d); prop=${n%%-*}
  targets=$(/venv/bin/python -c "import json,sys; m=json.load(open('$d/meta.json')); t=m.get('target_checks', ['$prop']); print(' '.join(t if '$prop' in t else ['$prop'] + t))" 2>/dev/null || echo $prop)
  : > $d/matrix.md.tmp
  for c in $targets; do
    [ -f checks/$(echo $c | tr A-Z a-z).py ] || { echo "| $n | $c | (check not built) | |" >> $d/matrix.md.tmp; continue; }
    res=$(tools/try_mutant.sh $d/patch.diff $c quick 2>&1)
    v=$(echo "$res" | grep -m1 "^violations:" | cut -d' ' -f2)
    first=$(echo "$res" | grep -m1 "sub=" | sed 's/|/\\|/g' | cut -c1-160)
    if echo "$res" | grep -q "PATCH DOES NOT APPLY"; then det="patch does not apply"; elif [ "${v:-0}" -gt 0 ]; then det="yes ($v)"; else det="NO"; fi
    echo "| $n | $c | $det | $first |" >> $d/matrix.md.tmp
    echo "$n $c $det"
  done
  mv $d/matrix.md.tmp $d/matrix.md
done
{ echo "| seeded change | check | detected | first violation reported |"; echo "|---|---|---|---|"; cat seeded/C*/matrix.md; } > seeded/MATRIX.md
