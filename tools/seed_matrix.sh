#!/bin/bash
# usage: tools/seed_matrix.sh [seed-dir-glob]  — runs every seeded change against the check(s) named in its meta (target_checks) or its own property
# and writes seeded/MATRIX.md (seed | check | detected | first violation)
cd /verif
OUT=seeded/MATRIX.md
echo "| seeded change | check | detected | first violation reported |" > $OUT.tmp
echo "|---|---|---|---|" >> $OUT.tmp
for d in ${1:-seeded/C*/}; do
  n=$(basename $d); prop=${n%%-*}
  targets=$(/venv/bin/python -c "import json,sys; m=json.load(open('$d/meta.json')); print(' '.join(m.get('target_checks', ['$prop'])))" 2>/dev/null || echo $prop)
  for c in $targets; do
    [ -f checks/$(echo $c | tr A-Z a-z).py ] || { echo "| $n | $c | (check not built) | |" >> $OUT.tmp; continue; }
    res=$(tools/try_mutant.sh $d/patch.diff $c quick 2>&1)
    v=$(echo "$res" | grep -m1 "^violations:" | cut -d' ' -f2)
    first=$(echo "$res" | grep -m1 "sub=" | sed 's/|/\\|/g' | cut -c1-160)
    if echo "$res" | grep -q "PATCH DOES NOT APPLY"; then det="patch does not apply"; elif [ "${v:-0}" -gt 0 ]; then det="yes ($v)"; else det="NO"; fi
    echo "| $n | $c | $det | $first |" >> $OUT.tmp
    echo "$n $c $det"
  done
done
mv $OUT.tmp $OUT
