#!/venv/bin/python
"""Systematic first-order mutation sweep of one library file against quick checks (development aid for finding holes in the checks).

usage: tools/mutsweep.py <path relative to /repo> <ID[,ID...]> [--lines a-b] [--max N] [--out file.jsonl]

Every mutation site of the file (arithmetic / comparison / boolean operators, negated conditions, 0/1/True/False constants,
-1 <-> -2 dimension constants, statement-level calls replaced by `pass`) is applied, one at a time, to a scratch worktree of /repo HEAD
(never to /repo) and the given checks are run against it through VERIF_REPO, cheapest first, until one reports a violation.
Survivors are printed and appended to the output file; they are either equivalent / outside every property, or a hole in a check.
The sweep decides nothing about the library: it measures the checks.
"""
import ast
import json
import os
import re
import subprocess
import sys
import time

REPO = "/repo"
COST = {"C12": 2, "C04": 5, "C08": 7, "C02": 10, "C16": 15, "C18": 13, "C13": 12, "C15": 18, "C19": 15, "C14": 20, "C05": 25, "C07": 25,
        "C17": 35, "C01": 30, "C11": 40, "C10": 50, "C06": 80, "C09": 90, "C20": 100, "C03": 130}


def sites(src):
    tree = ast.parse(src)
    lines = src.split("\n")
    offs = [0]
    for l in lines:
        offs.append(offs[-1] + len(l) + 1)

    def pos(line, col):
        # col offsets are utf8 byte offsets; files are ascii in practice
        return offs[line - 1] + col

    out = []
    skip_ranges = []
    for node in ast.walk(tree):
        # docstrings, raise statements, warnings: not behaviour the properties talk about
        if isinstance(node, ast.Raise) or isinstance(node, ast.Assert):
            skip_ranges.append((pos(node.lineno, node.col_offset), pos(node.end_lineno, node.end_col_offset)))
        if isinstance(node, ast.Expr) and isinstance(node.value, ast.Constant) and isinstance(node.value.value, str):
            skip_ranges.append((pos(node.lineno, node.col_offset), pos(node.end_lineno, node.end_col_offset)))
        if isinstance(node, ast.Call) and isinstance(node.func, ast.Attribute) and node.func.attr in ("warn", "format", "join"):
            skip_ranges.append((pos(node.lineno, node.col_offset), pos(node.end_lineno, node.end_col_offset)))
        if isinstance(node, ast.If) and len(node.body) == 1 and isinstance(node.body[0], ast.Raise) and not node.orelse:
            skip_ranges.append((pos(node.lineno, node.col_offset), pos(node.end_lineno, node.end_col_offset)))

    def skipped(a):
        return any(lo <= a < hi for lo, hi in skip_ranges)

    def between(a_node, b_node, mapping, kind):
        lo, hi = pos(a_node.end_lineno, a_node.end_col_offset), pos(b_node.lineno, b_node.col_offset)
        seg = src[lo:hi]
        for old, new in mapping:
            m = re.search(old, seg)
            if m:
                out.append((lo + m.start(), lo + m.end(), new, kind))
                return

    for node in ast.walk(tree):
        if not hasattr(node, "lineno"):
            continue
        a = pos(node.lineno, node.col_offset)
        if skipped(a):
            continue
        if isinstance(node, ast.BinOp):
            if any(isinstance(x, (ast.JoinedStr,)) or (isinstance(x, ast.Constant) and isinstance(x.value, str)) for x in (node.left, node.right)):
                continue
            m = {ast.Add: [(r"\+", "-")], ast.Sub: [(r"-", "+")], ast.Mult: [(r"\*", "/")], ast.Div: [(r"/", "*")],
                 ast.MatMult: [], ast.FloorDiv: [(r"//", "/")], ast.Pow: [(r"\*\*", "*")]}.get(type(node.op), [])
            if m:
                between(node.left, node.right, m, "binop")
        elif isinstance(node, ast.Compare) and len(node.ops) == 1:
            m = {ast.Lt: [(r"<", "<=")], ast.LtE: [(r"<=", "<")], ast.Gt: [(r">", ">=")], ast.GtE: [(r">=", ">")],
                 ast.Eq: [(r"==", "!=")], ast.NotEq: [(r"!=", "==")], ast.Is: [(r"\bis\b", "is not")],
                 ast.IsNot: [(r"\bis\s+not\b", "is")], ast.In: [(r"\bin\b", "not in")], ast.NotIn: [(r"\bnot\s+in\b", "in")]}.get(type(node.ops[0]), [])
            if m:
                between(node.left, node.comparators[0], m, "compare")
        elif isinstance(node, ast.BoolOp):
            m = [(r"\band\b", "or")] if isinstance(node.op, ast.And) else [(r"\bor\b", "and")]
            between(node.values[0], node.values[1], m, "boolop")
        elif isinstance(node, (ast.If, ast.IfExp, ast.While)):
            t = node.test
            lo, hi = pos(t.lineno, t.col_offset), pos(t.end_lineno, t.end_col_offset)
            out.append((lo, hi, "(not (" + src[lo:hi] + "))", "negate"))
        elif isinstance(node, ast.Constant) and not isinstance(node.value, str):
            lo, hi = pos(node.lineno, node.col_offset), pos(node.end_lineno, node.end_col_offset)
            v = node.value
            if v is True:
                out.append((lo, hi, "False", "const"))
            elif v is False:
                out.append((lo, hi, "True", "const"))
            elif isinstance(v, (int, float)) and not isinstance(v, bool):
                if v == 0:
                    out.append((lo, hi, "1", "const"))
                elif v == 1:
                    out.append((lo, hi, "2", "const"))
                elif v == 2:
                    out.append((lo, hi, "1", "const"))
                elif isinstance(v, float):
                    out.append((lo, hi, repr(v * 1.5), "const"))
        elif isinstance(node, ast.UnaryOp) and isinstance(node.op, ast.USub) and not isinstance(node.operand, ast.Constant):
            lo = pos(node.lineno, node.col_offset)
            out.append((lo, lo + 1, "", "neg"))
        elif isinstance(node, ast.Expr) and isinstance(node.value, ast.Call):
            lo, hi = pos(node.lineno, node.col_offset), pos(node.end_lineno, node.end_col_offset)
            out.append((lo, hi, "pass", "dropcall"))
    # de-duplicate and order by position
    seen, res = set(), []
    for s in sorted(out):
        if s[:3] not in seen and not skipped(s[0]):
            seen.add(s[:3])
            res.append(s)
    return res, offs


def main():
    args = sys.argv[1:]
    rel, ids = args[0], sorted(args[1].split(","), key=lambda i: COST.get(i, 60))
    lo_line, hi_line, mx, outp = 1, 10 ** 9, 10 ** 9, "/verif/seeded/sweeps/%s.jsonl" % rel.replace("/", "__")
    i = 2
    while i < len(args):
        if args[i] == "--lines":
            lo_line, hi_line = map(int, args[i + 1].split("-"))
        elif args[i] == "--max":
            mx = int(args[i + 1])
        elif args[i] == "--out":
            outp = args[i + 1]
        i += 2
    os.makedirs(os.path.dirname(outp), exist_ok=True)
    wt = "/tmp/mutsweep_%d" % os.getpid()
    subprocess.run(["git", "-C", REPO, "worktree", "add", "-q", "--detach", wt, "HEAD"], check=True)
    head = subprocess.run(["git", "-C", REPO, "rev-parse", "--short", "HEAD"], capture_output=True, text=True).stdout.strip()
    path = os.path.join(wt, rel)
    src = open(path).read()
    ss, offs = sites(src)
    import bisect
    ss = [s for s in ss if lo_line <= bisect.bisect_right(offs, s[0]) <= hi_line][:mx]
    print(f"{rel}: {len(ss)} mutants, checks {ids}, repo {head}", flush=True)
    env = dict(os.environ, VERIF_REPO=wt, VERIF_NO_CONFIRM="1", VERIF_FAILFAST="1")
    killed = survived = 0
    try:
        for k, (a, b, new, kind) in enumerate(ss):
            line = bisect.bisect_right(offs, a)
            mutated = src[:a] + new + src[b:]
            try:
                compile(mutated, rel, "exec")
            except SyntaxError:
                continue
            open(path, "w").write(mutated)
            old_line = src.split("\n")[line - 1].strip()
            new_line = mutated.split("\n")[line - 1].strip()
            t0 = time.time()
            by = None
            for cid in ids:
                r = subprocess.run(["/verif/check", cid, "quick"], cwd="/verif", env=env, capture_output=True, text=True)
                if r.returncode != 0:
                    m = re.search(r"sub=(\S+)", r.stdout)
                    by = cid + (":" + m.group(1) if m else ":exit%d" % r.returncode)
                    break
            rec = {"file": rel, "line": line, "kind": kind, "old": old_line, "new": new_line, "killed_by": by, "checks": ids, "repo": head,
                   "secs": round(time.time() - t0, 1)}
            with open(outp, "a") as f:
                f.write(json.dumps(rec) + "\n")
            if by:
                killed += 1
            else:
                survived += 1
                print(f"SURVIVED {rel}:{line} [{kind}]  {old_line}   ==>   {new_line}", flush=True)
            if (k + 1) % 20 == 0:
                print(f"  .. {k + 1}/{len(ss)} killed={killed} survived={survived}", flush=True)
    finally:
        open(path, "w").write(src)
        subprocess.run(["git", "-C", REPO, "worktree", "remove", "--force", wt])
        for cid in ids:  # evidence written by mutant runs is not evidence of the unchanged tree
            subprocess.run(["git", "-C", "/verif", "checkout", "-q", "--", f"evidence/{cid}.json"])
    print(f"{rel}: killed={killed} survived={survived}", flush=True)


if __name__ == "__main__":
    main()
