#!/venv/bin/python
"""Rewrites the generated blocks of DESIGN.md (between <!-- BEGIN:x --> / <!-- END:x --> markers):
   fixes    — one row per `fix:` commit recorded in known_findings.json["fixed"]
   findings — one row per known finding
   seeds    — seeded/MATRIX.md (seeded change x check detection matrix) + one-line meta of every seed"""
import glob, json, os, re, subprocess
ROOT = os.path.dirname(os.path.dirname(os.path.abspath(__file__)))
kf = json.load(open(os.path.join(ROOT, "known_findings.json")))
def esc(s): return s.replace("|", "\\|").replace("\n", " ")
rows = ["| property | commit | failing input / what failed |", "|---|---|---|"]
for line in kf["fixed"]:
    m = re.match(r"fixed: property=(\w+) (\w+) (.*)", line, re.S)
    rows.append(f"| {m.group(1)} | `{m.group(2)}` | {esc(m.group(3))} |")
fixes = "\n".join(rows)
rows = ["| id | property | matched on (sub / predicate / symptom) | what fails |", "|---|---|---|---|"]
for e in kf["findings"]:
    rows.append(f"| {e['id']} | {e['property']} | sub `{esc(e.get('sub', '.*'))}`; when `{esc(e.get('when', 'True'))}`; symptom `{esc(e.get('symptom', '.*'))[:80]}` | {esc(e['what'])} |")
findings = "\n".join(rows)
seeds = []
mp = os.path.join(ROOT, "seeded", "MATRIX.md")
if os.path.exists(mp):
    seeds.append(open(mp).read().strip())
seeds.append("")
seeds.append("| seeded change | breaks | what it does | what it needs to manifest |")
seeds.append("|---|---|---|---|")
for d in sorted(glob.glob(os.path.join(ROOT, "seeded", "C*", ""))):
    try:
        m = json.load(open(d + "meta.json"))
    except Exception:
        continue
    seeds.append(f"| {os.path.basename(d.rstrip('/'))} | {m.get('property', '')} | {esc(str(m.get('summary', '')))[:300]} | {esc(str(m.get('needs', '')))[:300]} |")
rp = os.path.join(V, "seeded", "retired", "README.md") if "V" in dir() else "/verif/seeded/retired/README.md"
if os.path.exists(rp):
    seeds.append("")
    seeds.append("Retired seeded changes (no longer property-breaking or no longer applicable on the current tree; `seeded/retired/`):")
    seeds.append("")
    seeds.append(open(rp).read().strip())
bp = "/verif/seeded/benign/README.md"
if os.path.exists(bp):
    seeds.append("")
    seeds.append("Behaviour-preserving edits that every check must stay silent on (`seeded/benign/`):")
    seeds.append("")
    seeds.append(open(bp).read().strip())
blocks = {"fixes": fixes, "findings": findings, "seeds": "\n".join(seeds)}
p = os.path.join(ROOT, "DESIGN.md")
s = open(p).read()
for k, v in blocks.items():
    pat = re.compile(rf"(<!-- BEGIN:{k} -->).*?(<!-- END:{k} -->)", re.S)
    if pat.search(s):
        s = pat.sub(lambda mm: mm.group(1) + "\n" + v + "\n" + mm.group(2), s)
open(p, "w").write(s)
print({k: v.count("\n") for k, v in blocks.items()})
