#!/bin/bash
# usage: tools/run_all.sh [quick|thorough] [seed]  — runs every READY check, one line each
cd /verif
TIER=${1:-quick}; export VERIF_SEED=${2:-0}
for id in $(cat checks/READY); do
  s=$(date +%s); out=$(./check $id $TIER 2>&1); rc=$?; e=$(( $(date +%s) - s ))
  echo "$id rc=$rc ${e}s $(echo "$out" | tail -1 | cut -c1-200)"
done
