#!/bin/bash
# usage: tools/verify_seed.sh <seeded dir>  — confirms in a scratch worktree: patch applies, demo fails with it and passes
# without it, and the repository's pinned suite still passes with it. Writes <dir>/verify.txt. Removes the worktree.
D=$(realpath "$1"); N=$(basename "$D"); WT=/tmp/seedwt_$N
git -C /repo worktree remove --force $WT >/dev/null 2>&1
git -C /repo worktree add -q --detach $WT HEAD || exit 9
cd $WT
{
echo "repo HEAD: $(git -C /repo rev-parse --short HEAD)  date: $(date -u +%FT%TZ)"
if git apply "$D/patch.diff"; then echo "patch applies: yes"; else echo "patch applies: NO"; fi
PYTHONPATH=$WT /venv/bin/python -c "import gpytorch,sys; assert gpytorch.__file__.startswith('$WT'), gpytorch.__file__" && echo "imports: yes"
( cd $WT && OMP_NUM_THREADS=2 PYTHONPATH=$WT timeout 900 /venv/bin/python "$D/demo.py" >/dev/null 2>&1 ); echo "demo with change: exit $? (expected non-zero)"
( cd /repo && OMP_NUM_THREADS=2 PYTHONPATH=/repo timeout 900 /venv/bin/python "$D/demo.py" >/dev/null 2>&1 ); echo "demo without change: exit $? (expected 0)"
OMP_NUM_THREADS=2 /verif/tools/baseline.py $WT | head -5; echo "suite exit: ${PIPESTATUS[0]} (expected 0)"
} > "$D/verify.txt" 2>&1
cd /; git -C /repo worktree remove --force $WT
cat "$D/verify.txt"
