#!/venv/bin/python
"""Run the repository's pinned suite on a tree (default /repo) and compare with BASELINE.json's stable_pass set.
usage: tools/baseline.py [repo_dir] ; exit 0 iff every stable_pass test passes."""
import json, os, subprocess, sys, tempfile, xml.etree.ElementTree as ET
repo = sys.argv[1] if len(sys.argv) > 1 else "/repo"
base = json.load(open("/root/.vp/BASELINE.json"))
fd, xmlp = tempfile.mkstemp(suffix=".xml"); os.close(fd)
env = dict(os.environ); env.pop("GPYTORCH_VERIF", None)
env["PYTHONPATH"] = repo
subprocess.run(["/venv/bin/python", "-m", "pytest", "-q", "-p", "no:cacheprovider", "--timeout=900",
                "--continue-on-collection-errors", f"--junitxml={xmlp}"], cwd=repo, env=env,
               stdout=subprocess.DEVNULL, stderr=subprocess.DEVNULL)
passed = set()
for tc in ET.parse(xmlp).getroot().iter("testcase"):
    if not any(ch.tag in ("failure", "error", "skipped") for ch in tc):
        passed.add(f"{tc.get('classname')}::{tc.get('name')}")
os.unlink(xmlp)
missing = sorted(set(base["stable_pass"]) - passed)
print(f"passed={len(passed)} stable_pass={len(base['stable_pass'])} missing={len(missing)}")
for m in missing[:40]: print("  NOT PASSING:", m)
sys.exit(1 if missing else 0)
