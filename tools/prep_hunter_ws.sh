#!/bin/bash
# usage: tools/prep_hunter_ws.sh <ID> <tag>  — workspace + prompt for a bug-hunting sub-agent (property text only, nothing from /verif)
ID=$1; TAG=$2; W=/tmp/hunt${TAG}_$ID
git -C /repo worktree remove --force $W/wt >/dev/null 2>&1; rm -rf $W; mkdir -p $W/out
git -C /repo worktree add -q --detach $W/wt HEAD || exit 9
/venv/bin/python - "$ID" "$W" <<'PY'
import json, sys
ID, W = sys.argv[1:3]
prop = [json.loads(l) for l in open('/verif/properties.jsonl') if json.loads(l)['id'] == ID][0]
txt = json.dumps({k: prop[k] for k in ('id', 'title', 'statement', 'quantifier', 'why_tests_cant', 'anchors')}, indent=1)
p = open('/verif/notes/HUNTER_PROMPT.md').read()
open(W + '/prompt.md', 'w').write(p.replace('__WT__', W + '/wt').replace('__OUT__', W + '/out').replace('__PROPERTY__', txt))
PY
echo $W
