#!/venv/bin/python
"""Re-run, against the CURRENT /repo HEAD, every (seeded change, check) pair that seeded/<seed>/matrix.md records as detected,
and report pairs that are no longer detected (a later `fix:` commit may have neutralised a seeded change, or a check may have regressed).

usage: tools/recheck_seeds.py [-j N] [seed-name-prefix ...]
Each pair runs in its own scratch worktree (never /repo) with VERIF_FAILFAST=1 (stop at the first unlisted violation).
Writes seeded/RECHECK.md (seed | check | detected now | repo HEAD)."""
import concurrent.futures as cf
import glob
import os
import re
import subprocess
import sys
import time

REPO = "/repo"


def pairs(prefixes):
    out = []
    for d in sorted(glob.glob("/verif/seeded/C*-m*/")):
        n = os.path.basename(d.rstrip("/"))
        if prefixes and not any(n.startswith(p) for p in prefixes):
            continue
        mp = os.path.join(d, "matrix.md")
        if not os.path.exists(mp):
            out.append((n, n.split("-")[0], "no-matrix"))
            continue
        for line in open(mp):
            c = [x.strip() for x in line.strip().strip("|").split("|")]
            if len(c) >= 3 and c[2].startswith("yes"):
                out.append((n, c[1], "yes"))
    return out


def run(pair):
    n, cid, _ = pair
    wt = f"/tmp/recheck_{os.getpid()}_{n}_{cid}"
    subprocess.run(["git", "-C", REPO, "worktree", "add", "-q", "--detach", wt, "HEAD"], check=True)
    try:
        r = subprocess.run(["git", "apply", f"/verif/seeded/{n}/patch.diff"], cwd=wt, capture_output=True, text=True)
        if r.returncode != 0:
            return n, cid, "patch does not apply", 0.0
        env = dict(os.environ, VERIF_REPO=wt, VERIF_NO_CONFIRM="1", VERIF_FAILFAST="1", OMP_NUM_THREADS="2")
        t0 = time.time()
        r = subprocess.run(["/verif/check", cid, "quick"], cwd="/verif", env=env, capture_output=True, text=True)
        m = re.search(r"sub=(\S+)", r.stdout)
        det = ("yes: " + (m.group(1) if m else "")) if (r.returncode == 1 and "VIOLATION" in r.stdout) else f"NO (exit {r.returncode})"
        return n, cid, det, time.time() - t0
    finally:
        subprocess.run(["git", "-C", REPO, "worktree", "remove", "--force", wt])


def main():
    args = sys.argv[1:]
    j = 4
    if args[:1] == ["-j"]:
        j = int(args[1])
        args = args[2:]
    ps = pairs(args)
    head = subprocess.run(["git", "-C", REPO, "rev-parse", "--short", "HEAD"], capture_output=True, text=True).stdout.strip()
    rows = []
    with cf.ThreadPoolExecutor(j) as ex:
        for n, cid, det, secs in ex.map(run, ps):
            rows.append((n, cid, det))
            print(f"{n} {cid} {det} [{secs:.0f}s]", flush=True)
    # evidence written by mutant runs is not evidence of the unchanged tree
    subprocess.run("git -C /verif checkout -q -- evidence", shell=True)
    if not args:
        with open("/verif/seeded/RECHECK.md", "w") as f:
            f.write(f"Re-run of every detected (seeded change, check) pair of MATRIX.md against /repo HEAD {head} (tools/recheck_seeds.py, quick tier).\n\n")
            f.write("| seeded change | check | detected now |\n|---|---|---|\n")
            for r in rows:
                f.write("| %s | %s | %s |\n" % r)
    bad = [r for r in rows if not r[2].startswith("yes")]
    print(f"pairs={len(rows)} not-detected={len(bad)}")
    for r in bad:
        print("NOT DETECTED:", *r)


if __name__ == "__main__":
    main()
