#!/venv/bin/python
"""Framework self-tests (not a property check): canonical digest, findings matcher, settings guard."""
import sys; sys.path.insert(0, "/verif")
import torch; torch.set_default_dtype(torch.float64)
from gpmc import canon, findings, models, util
from gpytorch import settings as S
ok = True
def t(name, cond):
    global ok
    print(("ok   " if cond else "FAIL ") + name); ok &= bool(cond)
X, y = models.data(0, 0); Xs = models.test_x(0, "m3")
for fam in ("exact", "kiss", "sgpr", "svgp"):
    m = models.make(fam, 0, (X, y)); m.eval()
    d0 = canon.digest(m); t(f"{fam}: digest idempotent (walker is side-effect free)", d0 == canon.digest(m))
    with torch.no_grad(): m(Xs)
    d1 = canon.digest(m); t(f"{fam}: a cache-filling call changes the digest", d1 != d0)
    with torch.no_grad(): m(Xs)
    t(f"{fam}: repeating the call does not", canon.digest(m) == d1)
    m.train(); m.eval(); t(f"{fam}: train()/eval() returns to the fresh digest", canon.digest(m) == d0 or fam == "svgp")
    m2 = models.make(fam, 0, (X, y)); m2.eval(); t(f"{fam}: two fresh builds have the same digest (RNG owned)", canon.digest(m2) == d0 or fam == "svgp")
kf = [{"id": "x", "property": "P", "sub": "^a$", "when": "f['k'] == 1", "symptom": "^boom"}]
t("findings: all of property/sub/when/symptom must match", findings.match(kf, "P", {"k": 1}, {"sub": "a", "symptom": "boom!"}) is not None
  and findings.match(kf, "P", {"k": 2}, {"sub": "a", "symptom": "boom"}) is None and findings.match(kf, "P", {"k": 1}, {"sub": "a", "symptom": "other"}) is None
  and findings.match(kf, "Q", {"k": 1}, {"sub": "a", "symptom": "boom"}) is None and findings.match(kf, "P", {}, {"sub": "a", "symptom": "boom"}) is None)
t("known_findings.json parses and every entry has id/property/what", all(all(k in e for k in ("id", "property", "what")) for e in findings.load()))
S.fast_pred_var._set_state(True); t("settings guard sees a leak", bool(util.settings_diff())); util.settings_restore(); t("and restores it", not util.settings_diff())
sys.exit(0 if ok else 1)
