#!/bin/bash
# usage: tools/try_mutant.sh <patch.diff> <ID> [tier]   — applies the patch to /repo, runs the check, reverts /repo
set -u
P=$(realpath "$1"); ID=$2; TIER=${3:-quick}
cd /repo || exit 9
if ! git diff --quiet; then echo "/repo has uncommitted changes"; exit 9; fi
if ! git apply --3way "$P" 2>/tmp/apply.err; then
  if ! patch -p1 --dry-run < "$P" >/dev/null 2>&1; then echo "PATCH DOES NOT APPLY: $(head -3 /tmp/apply.err)"; git reset -q; git checkout -q -- . ; exit 8; fi
  patch -p1 -s < "$P"
fi
cd /verif
VERIF_NO_CONFIRM=${VERIF_NO_CONFIRM:-1} ./check $ID $TIER > /tmp/mut_$ID.out 2>&1; rc=$?
git -C /repo reset -q ; git -C /repo checkout -q -- . ; git -C /repo status --short | grep -v '^??' | head -3
grep -c "^VIOLATION" /tmp/mut_$ID.out | sed "s/^/violations: /"; grep "^VIOLATION" -A1 /tmp/mut_$ID.out | head -4 | cut -c1-400; tail -1 /tmp/mut_$ID.out | cut -c1-300
echo "exit=$rc"
