#!/bin/bash
# usage: tools/try_mutant.sh <patch.diff> <ID> [tier]
# Runs a check against a scratch worktree of /repo HEAD carrying the patch (VERIF_REPO), so /repo itself is never modified
# while other checks / agents import it. The worktree is removed afterwards.
set -u
P=$(realpath "$1"); ID=$2; TIER=${3:-quick}
WT=/tmp/mutwt_$$
git -C /repo worktree add -q --detach $WT HEAD || exit 9
cd $WT
if ! git apply "$P" 2>/tmp/apply.err; then
  if ! patch -p1 -s --dry-run < "$P" >/dev/null 2>&1; then echo "PATCH DOES NOT APPLY: $(head -3 /tmp/apply.err)"; cd /; git -C /repo worktree remove --force $WT; exit 8; fi
  patch -p1 -s < "$P"
fi
cd /verif
VERIF_REPO=$WT VERIF_NO_CONFIRM=${VERIF_NO_CONFIRM:-1} ./check $ID $TIER > /tmp/mut_$ID.$$.out 2>&1; rc=$?
git -C /repo worktree remove --force $WT
grep -c "^VIOLATION" /tmp/mut_$ID.$$.out | sed "s/^/violations: /"; grep "^VIOLATION" -A1 /tmp/mut_$ID.$$.out | head -4 | cut -c1-400; tail -1 /tmp/mut_$ID.$$.out | cut -c1-300
# evidence written by a mutant run is not evidence of the unchanged tree: restore the committed file
git -C /verif checkout -q -- evidence/$ID.json 2>/dev/null
rm -f /tmp/mut_$ID.$$.out
echo "exit=$rc"
