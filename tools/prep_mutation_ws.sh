#!/bin/bash
# usage: tools/prep_mutation_ws.sh <ID> <wave-tag> [N]  — prepares /tmp/mutw<tag>_<ID>/{wt,out,prompt.md,ALWAYS_FAIL.txt} for a mutation sub-agent:
# a scratch worktree of /repo HEAD and a prompt that contains only the property text (nothing from /verif).
ID=$1; TAG=$2; N=${3:-2}; W=/tmp/mutw${TAG}_$ID
git -C /repo worktree remove --force $W/wt >/dev/null 2>&1; rm -rf $W; mkdir -p $W/out
git -C /repo worktree add -q --detach $W/wt HEAD || exit 9
/venv/bin/python - "$ID" "$W" "$N" <<'PY'
import json, sys
ID, W, N = sys.argv[1:4]
b = json.load(open('/root/.vp/BASELINE.json'))
open(W + '/ALWAYS_FAIL.txt', 'w').write("\n".join(b['always_fail']) + "\n")
prop = [json.loads(l) for l in open('/verif/properties.jsonl') if json.loads(l)['id'] == ID][0]
txt = json.dumps({k: prop[k] for k in ('id', 'title', 'statement', 'quantifier', 'why_tests_cant', 'anchors')}, indent=1)
p = open('/verif/notes/MUTATION_PROMPT.md').read()
p = p.replace('__WT__', W + '/wt').replace('__OUT__', W + '/out').replace('__AF__', W + '/ALWAYS_FAIL.txt').replace('__PROPERTY__', txt).replace('__N__', N)
open(W + '/prompt.md', 'w').write(p)
PY
echo $W
