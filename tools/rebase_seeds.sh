#!/bin/bash
# usage: tools/rebase_seeds.sh  — for every seeded patch that no longer applies to /repo HEAD (a later `fix:` commit changed its context),
# re-create it by a 3-way apply in a scratch worktree (the patch's blob ids are in /repo's object store). The sub-agent's patch is kept as
# patch_original.diff (first rebase only); meta.json gets a "rebased" note. Patches that need a hand merge are reported.
cd /verif
W=/tmp/rebase_wt_$$
for d in seeded/C*-m*/ seeded/benign/; do
  for p in $d/patch.diff $d/b*.diff; do
    [ -f "$p" ] || continue
    git -C /repo apply --check "/verif/$p" 2>/dev/null && continue
    git -C /repo worktree add -q --detach $W HEAD
    if (cd $W && git apply -3 "/verif/$p" >/dev/null 2>&1 && ! git diff --name-only --diff-filter=U | grep -q .); then
      (cd $W && git reset -q && git diff) > /tmp/rebased.diff
      if [ -s /tmp/rebased.diff ]; then
        case "$p" in */patch.diff) [ -f $d/patch_original.diff ] || cp "$p" $d/patch_original.diff;; esac
        cp /tmp/rebased.diff "$p"
        echo "REBASED $p"
        if [ -f $d/meta.json ]; then /venv/bin/python - $d/meta.json <<'PY'
import json, sys
m = json.load(open(sys.argv[1]))
m["rebased"] = "patch.diff re-created by a 3-way apply on the current /repo HEAD after later fix: commits changed its context (same edit); the sub-agent's patch is kept as patch_original.diff"
json.dump(m, open(sys.argv[1], "w"), indent=1)
PY
        fi
      else echo "EMPTY after rebase (change already in HEAD?) $p"; fi
    else
      echo "NEEDS HAND MERGE $p"
    fi
    git -C /repo worktree remove --force $W
  done
done
